"""regions.py (dispatch chains + height handling) -> Gen/RegionOps.lean  (property C16).

Template extraction with Python's `ast`: for every region class the `isinstance` chains of
`intersect / union / difference / intersects` are turned into an ordered clause table
(guards -> action), every exact handler is recognised by the Shapely / trimesh call it is built
around and by *which height it passes to the result constructor*, and a handful of flags are read
off the point predicates (`_trueContainsPoint`, `distanceTo`, `AABB`, `projectVector`, ...).

Whitelist based: any statement that does not match one of the known shapes raises
TemplateMismatch (the tie then rests on the correspondence run at thorough budget).  Local variable
names are not part of the templates.
"""
import ast

from translate.astutil import TemplateMismatch, body_nodoc, expect, get_def, load

REL = "src/scenic/core/regions.py"

KINDS = {
    "AllRegion": "all", "EmptyRegion": "empty", "PolygonalRegion": "poly", "CircularRegion": "disc",
    "PolygonalFootprintRegion": "foot", "PolylineRegion": "line", "PathRegion": "path",
    "PointSetRegion": "pts", "MeshVolumeRegion": "vol", "MeshSurfaceRegion": "surf",
}
# classes that must keep inheriting the four operations (their kind in the model is the parent's)
INHERITING = ["SectorRegion", "RectangularRegion", "GridRegion", "BoxRegion", "SpheroidRegion",
              "IntersectionRegion", "UnionRegion", "DifferenceRegion", "PathRegion", "VoxelRegion", "MeshRegion",
              "ViewRegion"]
OPS = ["intersect", "union", "difference", "intersects"]
COMPOSITE = {"intersect": "IntersectionRegion", "union": "UnionRegion", "difference": "DifferenceRegion"}


# --------------------------------------------------------------------------- small matchers
def dump(n):
    return ast.dump(n)[:120]


def is_attr(n, base, attr):
    return isinstance(n, ast.Attribute) and n.attr == attr and isinstance(n.value, ast.Name) and n.value.id == base


def is_name(n, name):
    return isinstance(n, ast.Name) and n.id == name


def is_const(n, v):
    return isinstance(n, ast.Constant) and n.value == v and type(n.value) is type(v)


def call_name(n):
    """dotted name of a call's function, e.g. 'self.mesh.intersection'"""
    if not isinstance(n, ast.Call):
        return None
    f, parts = n.func, []
    while isinstance(f, ast.Attribute):
        parts.append(f.attr)
        f = f.value
    if isinstance(f, ast.Name):
        parts.append(f.id)
    elif isinstance(f, ast.Call) and is_name(f.func, "super"):
        parts.append("super()")
    else:
        return None
    return ".".join(reversed(parts))


def kw(call, name):
    for k in call.keywords:
        if k.arg == name:
            return k.value
    return None


def isinstance_other(test):
    """isinstance(other, K) -> K (str) ; else None"""
    if (isinstance(test, ast.Call) and is_name(test.func, "isinstance") and len(test.args) == 2
            and is_name(test.args[0], "other") and isinstance(test.args[1], ast.Name)):
        return test.args[1].id
    return None


def is_lazy_guard(test):
    return (isinstance(test, ast.BoolOp) and isinstance(test.op, ast.Or) and len(test.values) == 2
            and all(isinstance(v, ast.Call) and is_name(v.func, "isLazy") and len(v.args) == 1 for v in test.values)
            and is_name(test.values[0].args[0], "self") and is_name(test.values[1].args[0], "other"))


def is_z_ne(test):
    return (isinstance(test, ast.Compare) and len(test.ops) == 1 and isinstance(test.ops[0], ast.NotEq)
            and is_attr(test.left, "self", "z") and is_attr(test.comparators[0], "other", "z"))


def zsrc(node):
    """which height an expression denotes"""
    if node is None:
        return "zero"          # keyword absent: the constructor default z=0
    if is_attr(node, "self", "z"):
        return "selfZ"
    if is_attr(node, "other", "z"):
        return "otherZ"
    if is_const(node, 0):
        return "zero"
    raise TemplateMismatch(f"unexpected height expression {dump(node)}")


def super_call(stmt, op):
    """`return super().op(other[, triedReversed])` -> 'super' | 'superFresh' | None"""
    if not (isinstance(stmt, ast.Return) and call_name(stmt.value) == f"super().{op}"):
        return None
    c = stmt.value
    expect(len(c.args) >= 1 and is_name(c.args[0], "other"), f"super().{op}: first argument is not `other`")
    flag = c.args[1] if len(c.args) > 1 else kw(c, "triedReversed")
    if flag is None:
        return "superFresh" if op != "difference" else "super"
    expect(is_name(flag, "triedReversed"), f"super().{op}: unexpected flag {dump(flag)}")
    return "super"


def walk_calls(nodes):
    for n in nodes:
        for x in ast.walk(n):
            if isinstance(x, ast.Call):
                yield x


def find_calls(nodes, name):
    return [c for c in walk_calls(nodes) if call_name(c) == name]


def returns(nodes):
    out = []
    for n in nodes:
        for x in ast.walk(n):
            if isinstance(x, ast.Return):
                out.append(x)
    return out


def binops(nodes, optype):
    out = []
    for n in nodes:
        for x in ast.walk(n):
            if isinstance(x, ast.BinOp) and isinstance(x.op, optype):
                out.append(x)
    return out


# --------------------------------------------------------------------------- handlers
class Ctx:
    def __init__(self, cls, op):
        self.cls, self.op = cls, op
        self.polyvar = None        # name bound by `<v> = toPolygon(other)`

    def where(self):
        return f"{self.cls}.{self.op}"


def only_return_value(body, what, cx):
    rs = returns(body)
    expect(len(rs) >= 1, f"{cx.where()}: {what}: no return")
    return rs


def ret_ctor(body, ctor, cx):
    """the `return <ctor>(...)` statement(s) of a clause body (nowhere returns are allowed beside them)"""
    found = []
    for r in returns(body):
        if is_name(r.value, "nowhere"):
            continue
        if call_name(r.value) == ctor:
            found.append(r.value)
        else:
            raise TemplateMismatch(f"{cx.where()}: unexpected return {dump(r.value)} (wanted {ctor}(...))")
    expect(len(found) == 1, f"{cx.where()}: expected one `return {ctor}(...)`, found {len(found)}")
    return found[0]


def classify_handler(body, cx, other_kind=None):
    """Recognise the exact handler a clause body implements -> Lean term (str)."""
    cls, op, pv = cx.cls, cx.op, cx.polyvar
    # ---- trivial returns
    if len(body) == 1 and isinstance(body[0], ast.Return):
        v = body[0].value
        if is_name(v, "self"):
            return ".retSelf"
        if is_name(v, "other"):
            return ".retOther"
        if is_name(v, "nowhere"):
            return ".retNowhere"
        if is_const(v, False):
            return ".retFalse"
        if (isinstance(v, ast.UnaryOp) and isinstance(v.op, ast.Not) and isinstance(v.operand, ast.Call)
                and is_name(v.operand.func, "isinstance") and is_name(v.operand.args[0], "other")
                and is_name(v.operand.args[1], "EmptyRegion")):
            return ".otherNotEmpty"
    # ---- PolygonalRegion
    if cls == "PolygonalRegion":
        if op == "intersect":
            ands = [b for b in binops(body, ast.BitAnd) if is_attr(b.left, "self", "polygons") and is_name(b.right, pv)]
            expect(len(ands) == 1, f"{cx.where()}: `self.polygons & {pv}` not found")
            c = ret_ctor(body, "regionFromShapelyObject", cx)
            return f"(.polyAnd {lean_bool(zsrc(kw(c, 'z')) == 'selfZ')})"
        if op == "union":
            us = find_calls(body, "polygonUnion")
            expect(len(us) == 1 and isinstance(us[0].args[0], ast.Tuple) and len(us[0].args[0].elts) == 2
                   and is_attr(us[0].args[0].elts[0], "self", "polygons") and is_name(us[0].args[0].elts[1], pv),
                   f"{cx.where()}: polygonUnion((self.polygons, {pv})) not found")
            c = ret_ctor(body, "PolygonalRegion", cx)
            return f"(.polyOr {lean_bool(zsrc(kw(c, 'z')) == 'selfZ')})"
        if op == "difference":
            subs = [b for b in binops(body, ast.Sub) if is_attr(b.left, "self", "polygons") and is_name(b.right, pv)]
            expect(len(subs) == 1, f"{cx.where()}: `self.polygons - {pv}` not found")
            c = ret_ctor(body, "regionFromShapelyObject", cx)
            return f"(.polySub {lean_bool(zsrc(kw(c, 'z')) == 'selfZ')})"
        if op == "intersects":
            expect(len(body) == 1 and isinstance(body[0], ast.Return)
                   and call_name(body[0].value) == "self.polygons.intersects" and is_name(body[0].value.args[0], pv),
                   f"{cx.where()}: return self.polygons.intersects({pv})")
            return ".polyIntersects"
    if cls == "CircularRegion" and op == "intersects":
        expect(len(body) == 1 and isinstance(body[0], ast.Return), f"{cx.where()}: single return expected")
        v = body[0].value
        ok = (isinstance(v, ast.Compare) and len(v.ops) == 1 and isinstance(v.ops[0], ast.LtE)
              and call_name(v.left) == "self.center.distanceTo" and is_attr(v.left.args[0], "other", "center")
              and isinstance(v.comparators[0], ast.BinOp) and isinstance(v.comparators[0].op, ast.Add)
              and is_attr(v.comparators[0].left, "self", "radius") and is_attr(v.comparators[0].right, "other", "radius"))
        expect(ok, f"{cx.where()}: centre-distance test changed: {dump(v)}")
        return ".discIntersects"
    # ---- PolylineRegion
    if cls == "PolylineRegion":
        if op == "intersect":
            ands = [b for b in binops(body, ast.BitAnd) if is_attr(b.left, "self", "lineString") and is_name(b.right, pv)]
            expect(len(ands) == 1, f"{cx.where()}: `self.lineString & {pv}` not found")
            ret_ctor(body, "regionFromShapelyObject", cx)
            return ".lineAnd"
        if op == "difference":
            subs = [b for b in binops(body, ast.Sub) if is_attr(b.left, "self", "lineString") and is_name(b.right, pv)]
            expect(len(subs) == 1, f"{cx.where()}: `self.lineString - {pv}` not found")
            ret_ctor(body, "regionFromShapelyObject", cx)
            return ".lineSub"
        if op == "intersects":
            expect(len(body) == 1 and isinstance(body[0], ast.Return)
                   and call_name(body[0].value) == "self.lineString.intersects" and is_name(body[0].value.args[0], pv),
                   f"{cx.where()}: return self.lineString.intersects({pv})")
            return ".lineIntersects"
    # ---- PolygonalFootprintRegion
    if cls == "PolygonalFootprintRegion":
        if other_kind == "foot":
            meth = {"intersect": "intersection", "union": "union", "difference": "difference"}[op]
            cs = find_calls(body, f"self.polygons.{meth}")
            expect(len(cs) == 1 and is_attr(cs[0].args[0], "other", "polygons"),
                   f"{cx.where()}: self.polygons.{meth}(other.polygons) not found")
            ret_ctor(body, "PolygonalFootprintRegion", cx)
            return {"intersect": ".footAnd", "union": ".footOr", "difference": ".footSub"}[op]
        if other_kind == "poly" and op == "intersect":
            expect(len(body) == 1 and isinstance(body[0], ast.Return), f"{cx.where()}: lift clause shape")
            v = body[0].value
            ok = (isinstance(v, ast.Call) and isinstance(v.func, ast.Attribute) and v.func.attr == "intersect"
                  and call_name(v.func.value) == "PolygonalRegion" and is_name(v.args[0], "other")
                  and is_attr(kw(v.func.value, "polygon"), "self", "polygons"))
            expect(ok, f"{cx.where()}: PolygonalRegion(polygon=self.polygons, z=..).intersect(other) not found")
            return ("lift", zsrc(kw(v.func.value, "z")))
        if other_kind == "path" and op == "intersect":
            r = returns(body)
            expect(len(r) == 1 and isinstance(r[0].value, ast.Call) and isinstance(r[0].value.func, ast.Attribute)
                   and r[0].value.func.attr == "intersect"
                   and call_name(r[0].value.func.value) == "self.approxBoundFootprint"
                   and is_name(r[0].value.args[0], "other"),
                   f"{cx.where()}: self.approxBoundFootprint(..).intersect(other) not found")
            return ".footPathClip"
    # ---- MeshVolumeRegion
    if cls == "MeshVolumeRegion":
        if other_kind == "vol" and op in ("intersect", "union", "difference"):
            meth = {"intersect": "intersection", "union": "union", "difference": "difference"}[op]
            cs = find_calls(body, f"self.mesh.{meth}")
            expect(len(cs) == 1, f"{cx.where()}: self.mesh.{meth}(..) not found")
            found = 0
            for r in returns(body):
                if is_name(r.value, "nowhere") or super_call(r, op):
                    continue
                expect(call_name(r.value) == "MeshVolumeRegion", f"{cx.where()}: unexpected return {dump(r.value)}")
                found += 1
            expect(found == 1, f"{cx.where()}: expected one `return MeshVolumeRegion(...)`")
            return {"intersect": ".volAnd", "union": ".volOr", "difference": ".volSub"}[op]
        if other_kind == "foot":
            bs = find_calls(body, "other.approxBoundFootprint")
            r = returns(body)
            expect(len(bs) == 1 and len(r) == 1 and call_name(r[0].value) == f"self.{op}",
                   f"{cx.where()}: bounded-footprint recursion not found")
            return {"intersect": ".volFootAnd", "difference": ".volFootSub", "intersects": ".volFootIntersects"}[op]
        if other_kind == "poly" and op == "intersect":
            secs = find_calls(body, "self.mesh.section")
            expect(len(secs) == 1, f"{cx.where()}: self.mesh.section(..) not found")
            origin = kw(secs[0], "plane_origin")
            expect(isinstance(origin, ast.Name), f"{cx.where()}: plane_origin is not a local")
            tup = None
            for st in body:
                if isinstance(st, ast.Assign) and is_name(st.targets[0], origin.id):
                    tup = st.value
            expect(isinstance(tup, ast.Tuple) and len(tup.elts) == 3, f"{cx.where()}: slicing origin is not a 3-tuple")
            normal = kw(secs[0], "plane_normal")
            expect(isinstance(normal, (ast.List, ast.Tuple)) and [getattr(e, "value", None) for e in normal.elts] == [0, 0, 1],
                   f"{cx.where()}: slicing plane is not horizontal")
            ands = [b for b in binops(body, ast.BitAnd) if is_attr(b.right, "other", "polygons")]
            expect(len(ands) == 1, f"{cx.where()}: `<slice> & other.polygons` not found")
            c = ret_ctor(body, "PolygonalRegion", cx)
            return f"(.volSlice .{zsrc(tup.elts[2])} .{zsrc(kw(c, 'z'))})"
        if other_kind == "path" and op == "intersect":
            expect(find_calls(body, "self.mesh.ray.intersects_location") and find_calls(body, "self.containsPoint"),
                   f"{cx.where()}: ray splitting / midpoint test not found")
            ret_ctor(body, "PathRegion", cx)
            return ".volPathClip"
        if other_kind == "line" and op == "intersect":
            expect(find_calls(body, "self.mesh.ray.intersects_location") and find_calls(body, "self.containsPoint"),
                   f"{cx.where()}: ray splitting / midpoint test not found")
            ret_ctor(body, "PolylineRegion", cx)
            return ".volLineClip"
        if other_kind == "vol" and op == "intersects":
            expect(find_calls(body, "fcl.collide"), f"{cx.where()}: fcl.collide not found")
            return ".volVolIntersects"
        if other_kind == "surf" and op == "intersects":
            expect(find_calls(body, "collision_manager.in_collision_internal"), f"{cx.where()}: collision manager not found")
            return ".volSurfIntersects"
    if cls == "MeshSurfaceRegion" and op == "intersects":
        if other_kind == "surf":
            expect(find_calls(body, "collision_manager.in_collision_internal"), f"{cx.where()}: collision manager not found")
            return ".surfSurfIntersects"
        if other_kind == "foot":
            bs = find_calls(body, "other.approxBoundFootprint")
            r = returns(body)
            expect(len(bs) == 1 and len(r) == 1 and call_name(r[0].value) == "self.intersects",
                   f"{cx.where()}: bounded-footprint recursion not found")
            return ".surfFootIntersects"
    # ---- PointSetRegion
    if cls == "PointSetRegion":
        if op == "intersect" and other_kind == "pts":
            comps = [x for st in body for x in ast.walk(st) if isinstance(x, ast.ListComp)]
            ok = (len(comps) == 1 and len(comps[0].generators) == 1
                  and is_attr(comps[0].generators[0].iter, "self", "points")
                  and len(comps[0].generators[0].ifs) == 1
                  and call_name(comps[0].generators[0].ifs[0]) == "other.containsPoint")
            expect(ok, f"{cx.where()}: [pt for pt in self.points if other.containsPoint(pt)] not found")
            ret_ctor(body, "PointSetRegion", cx)
            return ".ptsFilter"
    raise TemplateMismatch(f"{cx.where()}: clause for {other_kind or 'polygon-like operands'} not recognised")


def lean_bool(b):
    return "true" if b else "false"


# --------------------------------------------------------------------------- clause tables
def clause(guards, act):
    return (list(guards), act)


def act_of_simple(stmt, cx):
    """a single statement that ends a clause: return super()/self/nowhere/False/..."""
    s = super_call(stmt, cx.op)
    if s:
        return "." + s
    return None


def extract_method(cls, fn, op):
    """ordered clause list of one class's method"""
    cx = Ctx(cls, op)
    body = body_nodoc(fn)
    clauses = []
    i = 0
    pending_not_poly = False
    while i < len(body):
        st = body[i]
        # orientation = ... (irrelevant to point sets)
        if isinstance(st, ast.Assign) and len(st.targets) == 1 and is_name(st.targets[0], "orientation"):
            i += 1
            continue
        # <v> = toPolygon(other)
        if isinstance(st, ast.Assign) and call_name(st.value) == "toPolygon":
            expect(is_name(st.value.args[0], "other") and isinstance(st.targets[0], ast.Name), f"{cx.where()}: toPolygon(other)")
            cx.polyvar = st.targets[0].id
            i += 1
            continue
        if isinstance(st, ast.If):
            t = st.test
            # lazy guard
            if is_lazy_guard(t):
                expect(len(st.body) == 1 and not st.orelse, f"{cx.where()}: lazy guard body")
                a = act_of_simple(st.body[0], cx)
                expect(a, f"{cx.where()}: lazy guard does not defer to super()")
                clauses.append(clause([".lzy"], a))
                i += 1
                continue
            # if <polyvar> is not None: <handler>
            if (cx.polyvar and isinstance(t, ast.Compare) and is_name(t.left, cx.polyvar) and len(t.ops) == 1
                    and isinstance(t.ops[0], ast.IsNot) and is_const_none(t.comparators[0])):
                expect(not st.orelse, f"{cx.where()}: else branch on the polygon test")
                inner = list(st.body)
                # PolylineRegion.intersect: elevated polygons are deferred to the generic code
                if (inner and isinstance(inner[0], ast.If) and cls == "PolylineRegion"):
                    g = inner[0].test
                    ok = (isinstance(g, ast.BoolOp) and isinstance(g.op, ast.And) and len(g.values) == 2
                          and isinstance_other(g.values[0]) == "PolygonalRegion"
                          and isinstance(g.values[1], ast.Compare) and is_attr(g.values[1].left, "other", "z")
                          and isinstance(g.values[1].ops[0], ast.NotEq) and is_const(g.values[1].comparators[0], 0))
                    expect(ok and len(inner[0].body) == 1, f"{cx.where()}: elevated-polygon guard changed")
                    a = act_of_simple(inner[0].body[0], cx)
                    if a is None:
                        a = ".run " + classify_handler(inner[0].body, cx)
                    clauses.append(clause([".hasPoly", ".isKind .poly", ".otherElev"], a))
                    inner = inner[1:]
                inner = strip_height_guards(inner, cx, clauses, [".hasPoly"])
                h = classify_handler(inner, cx)
                clauses.append(clause([".hasPoly"], ".run " + h))
                i += 1
                continue
            # if not <polyvar>: return super()...   (union)
            if (cx.polyvar and isinstance(t, ast.UnaryOp) and isinstance(t.op, ast.Not) and is_name(t.operand, cx.polyvar)):
                expect(len(st.body) == 1 and not st.orelse, f"{cx.where()}: `if not poly` body")
                a = act_of_simple(st.body[0], cx)
                expect(a, f"{cx.where()}: `if not poly` does not defer to super()")
                pending_not_poly = a
                i += 1
                continue
            # if triedReversed is False: return other.op(self)
            if (isinstance(t, ast.Compare) and is_name(t.left, "triedReversed") and isinstance(t.ops[0], ast.Is)
                    and is_const(t.comparators[0], False)):
                expect(len(st.body) == 1 and isinstance(st.body[0], ast.Return)
                       and call_name(st.body[0].value) == f"other.{op}", f"{cx.where()}: retry body")
                c = st.body[0].value
                expect(len(c.args) == 1 and is_name(c.args[0], "self") and not c.keywords, f"{cx.where()}: other.{op}(self) expected")
                clauses.append(clause([".notTried"], ".retryFresh"))
                i += 1
                continue
            # not isinstance(other, K): return super()...
            if (isinstance(t, ast.UnaryOp) and isinstance(t.op, ast.Not) and isinstance_other(t.operand)):
                K = isinstance_other(t.operand)
                expect(K in KINDS and len(st.body) == 1 and not st.orelse, f"{cx.where()}: `if not isinstance(other, {K})` body")
                a = act_of_simple(st.body[0], cx)
                expect(a, f"{cx.where()}: `if not isinstance(other, {K})` does not defer to super()")
                clauses.append(clause([f".notKind .{KINDS[K]}"], a))
                i += 1
                continue
            # isinstance(other, K) and <self|other>.z != 0: return ...
            if (isinstance(t, ast.BoolOp) and isinstance(t.op, ast.And) and len(t.values) == 2
                    and isinstance_other(t.values[0]) in KINDS and isinstance(t.values[1], ast.Compare)
                    and len(t.values[1].ops) == 1 and isinstance(t.values[1].ops[0], ast.NotEq)
                    and is_const(t.values[1].comparators[0], 0)
                    and (is_attr(t.values[1].left, "self", "z") or is_attr(t.values[1].left, "other", "z"))):
                expect(not st.orelse, f"{cx.where()}: else branch on a height guard")
                g = [f".isKind .{KINDS[isinstance_other(t.values[0])]}",
                     ".selfElev" if is_attr(t.values[1].left, "self", "z") else ".otherElev"]
                clauses.append(clause(g, guard_act(st.body, cx)))
                i += 1
                continue
            # isinstance(other, K)
            K = isinstance_other(t)
            if K:
                expect(K in KINDS, f"{cx.where()}: isinstance(other, {K}): class outside the model")
                expect(not st.orelse, f"{cx.where()}: else branch on isinstance(other, {K})")
                k = KINDS[K]
                inner = list(st.body)
                # a pure height guard (falls through to the following clauses)
                if len(inner) == 1 and isinstance(inner[0], ast.If) and is_z_ne(inner[0].test) and not inner[0].orelse:
                    clauses.append(clause([f".isKind .{k}", ".zNe"], guard_act(inner[0].body, cx)))
                    i += 1
                    continue
                inner = strip_height_guards(inner, cx, clauses, [f".isKind .{k}"])
                if inner and isinstance(inner[0], ast.If) and any(is_attr(x, "self", "z") or is_attr(x, "other", "z")
                                                                 for x in ast.walk(inner[0].test)):
                    raise TemplateMismatch(f"{cx.where()}: height test `{ast.unparse(inner[0].test)}` is not one of the known guards")
                h = classify_handler(inner, cx, other_kind=k)
                if isinstance(h, tuple) and h[0] == "lift":
                    clauses.append(clause([f".isKind .{k}"], f".liftSelf .{h[1]}"))
                else:
                    clauses.append(clause([f".isKind .{k}"], ".run " + h))
                i += 1
                continue
            raise TemplateMismatch(f"{cx.where()}: unrecognised test {dump(t)}")
        # PointSetRegion.intersect: the sampler closure and the final composite
        if isinstance(st, ast.FunctionDef) and cls == "PointSetRegion" and op == "intersect" and st.name == "sampler":
            i += 1
            continue
        # a terminating return
        if isinstance(st, ast.Return):
            a = act_of_simple(st, cx)
            if a:
                clauses.append(clause([], a))
            elif cls == "PointSetRegion" and op == "intersect":
                c = st.value
                expect(call_name(c) == "IntersectionRegion" and len(c.args) == 2 and is_name(c.args[0], "self")
                       and is_name(c.args[1], "other") and kw(c, "sampler") is not None,
                       f"{cx.where()}: final IntersectionRegion(self, other, sampler=..) changed")
                clauses.append(clause([], ".run .ptsSampler"))
            elif cls == "PointSetRegion" and op == "intersects":
                v = st.value
                ok = (isinstance(v, ast.Call) and is_name(v.func, "any") and isinstance(v.args[0], ast.GeneratorExp)
                      and call_name(v.args[0].elt) in ("other.containsPoint", "other._trueContainsPoint")
                      and is_attr(v.args[0].generators[0].iter, "self", "points"))
                expect(ok, f"{cx.where()}: any(other.containsPoint(pt) for pt in self.points) changed")
                if call_name(v.args[0].elt) == "other._trueContainsPoint":
                    a0 = v.args[0].elt.args[0]
                    expect(call_name(a0) == "Vector" and isinstance(a0.args[0], ast.Starred), f"{cx.where()}: argument of _trueContainsPoint")
                    clauses.append(clause([], ".run .ptsAnyTrue"))
                else:
                    clauses.append(clause([], ".run .ptsAny"))
            else:
                clauses.append(clause([], ".run " + classify_handler([st], cx)))
            expect(i == len(body) - 1, f"{cx.where()}: statements after the final return")
            i += 1
            continue
        # straight-line handler at the end (PolygonalRegion.union)
        if pending_not_poly:
            rest = body[i:]
            h = classify_handler(rest, cx)
            # `if not poly` = no polygon-like attribute (or an empty geometry, which the generator never builds)
            clauses.append(clause([".hasPoly"], ".run " + h))
            clauses.append(clause([], pending_not_poly))
            i = len(body)
            continue
        raise TemplateMismatch(f"{cx.where()}: unrecognised statement {dump(st)}")
    expect(clauses and clauses[-1][0] == [], f"{cx.where()}: method can fall off its end")
    return clauses


def is_const_none(n):
    return isinstance(n, ast.Constant) and n.value is None


def guard_act(body, cx):
    expect(len(body) == 1 and isinstance(body[0], ast.Return), f"{cx.where()}: height guard body")
    a = act_of_simple(body[0], cx)
    if a:
        return a
    return ".run " + classify_handler(body, cx)


def strip_height_guards(inner, cx, clauses, prefix):
    """leading `if self.z != 0: return ...`-style guards inside a clause (accepted form of the fixes for the
    polyline/height findings): emitted as extra clauses"""
    out = list(inner)
    while out and isinstance(out[0], ast.If) and not out[0].orelse:
        t = out[0].test
        g = None
        if is_z_ne(t):
            g = [".zNe"]
        elif (isinstance(t, ast.Compare) and len(t.ops) == 1 and isinstance(t.ops[0], ast.NotEq)
              and is_const(t.comparators[0], 0) and (is_attr(t.left, "self", "z") or is_attr(t.left, "other", "z"))):
            g = [".selfElev" if is_attr(t.left, "self", "z") else ".otherElev"]
        elif (isinstance(t, ast.BoolOp) and isinstance(t.op, ast.And) and len(t.values) == 2
              and isinstance_other(t.values[0]) in KINDS and isinstance(t.values[1], ast.Compare)
              and len(t.values[1].ops) == 1 and isinstance(t.values[1].ops[0], ast.NotEq)
              and is_const(t.values[1].comparators[0], 0)
              and (is_attr(t.values[1].left, "self", "z") or is_attr(t.values[1].left, "other", "z"))):
            g = [f".isKind .{KINDS[isinstance_other(t.values[0])]}",
                 ".selfElev" if is_attr(t.values[1].left, "self", "z") else ".otherElev"]
        if g is None:
            break
        clauses.append(clause(prefix + g, guard_act(out[0].body, cx)))
        out = out[1:]
    return out


# --------------------------------------------------------------------------- generic methods of Region
def extract_generic(tree):
    out = {}
    # intersect / union: if triedReversed: ... return Composite(self, other ...) else: return other.op(self, triedReversed=True)
    for op in ("intersect", "union"):
        fn = get_def(tree, f"Region.{op}", REL)
        body = body_nodoc(fn)
        expect(len(body) == 1 and isinstance(body[0], ast.If) and is_name(body[0].test, "triedReversed"),
               f"Region.{op}: shape changed")
        st = body[0]
        rs = returns(st.body)
        expect(len(rs) == 1 and call_name(rs[0].value) == COMPOSITE[op] and len(rs[0].value.args) == 2
               and is_name(rs[0].value.args[0], "self") and is_name(rs[0].value.args[1], "other"),
               f"Region.{op}: {COMPOSITE[op]}(self, other) expected")
        expect(len(st.orelse) == 1 and isinstance(st.orelse[0], ast.Return), f"Region.{op}: else branch")
        check_reverse(st.orelse[0].value, op)
        out[op] = [clause([".tried"], ".compose"), clause([], ".reverse")]
    # difference
    fn = get_def(tree, "Region.difference", REL)
    body = body_nodoc(fn)
    expect(len(body) == 2 and isinstance(body[0], ast.If) and isinstance_other(body[0].test) == "EmptyRegion"
           and len(body[0].body) == 1 and isinstance(body[0].body[0], ast.Return) and is_name(body[0].body[0].value, "self"),
           "Region.difference: `other` empty -> self")
    el = body[0].orelse
    expect(len(el) == 1 and isinstance(el[0], ast.If) and isinstance_other(el[0].test) == "AllRegion"
           and isinstance(el[0].body[0], ast.Return) and is_name(el[0].body[0].value, "nowhere") and not el[0].orelse,
           "Region.difference: `other` everything -> nowhere")
    r = body[1]
    expect(isinstance(r, ast.Return) and call_name(r.value) == "DifferenceRegion" and is_name(r.value.args[0], "self")
           and is_name(r.value.args[1], "other"), "Region.difference: DifferenceRegion(self, other)")
    out["difference"] = [clause([".isKind .empty"], ".run .retSelf"), clause([".isKind .all"], ".run .retNowhere"),
                         clause([], ".compose")]
    # intersects
    fn = get_def(tree, "Region.intersects", REL)
    body = body_nodoc(fn)
    expect(len(body) == 1 and isinstance(body[0], ast.If) and is_name(body[0].test, "triedReversed"), "Region.intersects: shape")
    st = body[0]
    expect(len(st.body) == 2 and isinstance(st.body[0], ast.Assign) and call_name(st.body[0].value) == "self.intersect"
           and len(st.body[0].value.args) == 1 and is_name(st.body[0].value.args[0], "other") and not st.body[0].value.keywords,
           "Region.intersects: intersection = self.intersect(other)")
    v = st.body[0].targets[0].id
    chain = st.body[1]
    ok = (isinstance(chain, ast.If) and call_name(chain.test) == "isinstance" and is_name(chain.test.args[0], v)
          and is_name(chain.test.args[1], "IntersectionRegion") and isinstance(chain.body[0], ast.Raise)
          and len(chain.orelse) == 1 and isinstance(chain.orelse[0], ast.If)
          and is_name(chain.orelse[0].test.args[1], "EmptyRegion")
          and is_const(chain.orelse[0].body[0].value, False) and is_const(chain.orelse[0].orelse[0].value, True))
    expect(ok, "Region.intersects: composite -> NotImplementedError, empty -> False, else True")
    expect(len(st.orelse) == 1 and isinstance(st.orelse[0], ast.Return), "Region.intersects: else branch")
    check_reverse(st.orelse[0].value, "intersects")
    out["intersects"] = [clause([".tried"], ".viaIntersect"), clause([], ".reverse")]
    return out


def check_reverse(c, op):
    expect(call_name(c) == f"other.{op}" and len(c.args) == 1 and is_name(c.args[0], "self")
           and is_const(kw(c, "triedReversed"), True), f"Region.{op}: other.{op}(self, triedReversed=True) expected")


# --------------------------------------------------------------------------- flags
def single_return(fn, where):
    rs = returns(body_nodoc(fn))
    expect(len(rs) >= 1, f"{where}: no return")
    return rs


def point_z_test(fn, where, op_type):
    """first `if point.z <op> X:` of a method -> X (ast) or None"""
    for st in body_nodoc(fn):
        if isinstance(st, ast.If) and isinstance(st.test, ast.Compare) and is_attr(st.test.left, "point", "z") \
                and len(st.test.ops) == 1 and isinstance(st.test.ops[0], op_type):
            return st, st.test.comparators[0]
    return None, None


def extract_flags(tree):
    F = {}
    # PolygonalRegion._trueContainsPoint
    fn = get_def(tree, "PolygonalRegion._trueContainsPoint", REL)
    r = single_return(fn, "PolygonalRegion._trueContainsPoint")
    expect(len(r) == 1, "_trueContainsPoint: one return")
    v = r[0].value
    if call_name(v) == "self.containsPoint":
        F["polyTrueChecksZ"] = False
    else:
        ok = (isinstance(v, ast.BoolOp) and isinstance(v.op, ast.And) and len(v.values) == 2
              and isinstance(v.values[0], ast.Compare) and isinstance(v.values[0].ops[0], ast.Eq)
              and is_attr(v.values[0].left, "point", "z") and is_attr(v.values[0].comparators[0], "self", "z")
              and call_name(v.values[1]) == "self.containsPoint")
        expect(ok, f"_trueContainsPoint: {dump(v)}")
        F["polyTrueChecksZ"] = True
    # PolygonalRegion.containsPoint = footprint
    fn = get_def(tree, "PolygonalRegion.containsPoint", REL)
    r = single_return(fn, "PolygonalRegion.containsPoint")
    expect(len(r) == 1 and call_name(r[0].value) == "self.footprint.containsPoint", "PolygonalRegion.containsPoint is not the footprint test")
    # PolygonalRegion.distanceTo
    fn = get_def(tree, "PolygonalRegion.distanceTo", REL)
    r = single_return(fn, "PolygonalRegion.distanceTo")
    v = r[-1].value
    expect(call_name(v) == "math.hypot" and len(v.args) == 2, "PolygonalRegion.distanceTo: math.hypot(dist2D, dz)")
    dz = v.args[1]
    if isinstance(dz, ast.BinOp) and isinstance(dz.op, ast.Sub) and is_point_z(dz.left):
        F["polyDistZ"] = zsrc(dz.right)
    elif is_point_z(dz):
        F["polyDistZ"] = "zero"
    else:
        raise TemplateMismatch(f"PolygonalRegion.distanceTo: vertical term {dump(dz)}")
    # PolygonalRegion.AABB
    F["polyAABBZ"] = aabb_z(get_def(tree, "PolygonalRegion.AABB", REL), "PolygonalRegion.AABB")
    F["discAABBZ"] = aabb_z(get_def(tree, "CircularRegion.AABB", REL), "CircularRegion.AABB")
    # PolygonalRegion.containsRegionInner
    fn = get_def(tree, "PolygonalRegion.containsRegionInner", REL)
    body = body_nodoc(fn)
    r = returns(body)
    last = r[-1].value
    expect(isinstance(last, ast.Call) and isinstance(last.func, ast.Attribute) and last.func.attr == "contains",
           "PolygonalRegion.containsRegionInner: final `.contains(poly)`")
    zg = [st for st in body if isinstance(st, ast.If) and any(is_attr(x, "other", "z") or is_attr(x, "self", "z") for x in ast.walk(st.test))]
    for g in zg:
        expect(len(g.body) == 1 and isinstance(g.body[0], ast.Return) and not g.orelse
               and is_const(g.body[0].value, False), "containsRegionInner: height guard must return False")

    def line_guard(t):
        """`isinstance(other, PolylineRegion) and self.z != 0` (the repaired shape of finding containsRegion:poly-line:elevated)"""
        return (isinstance(t, ast.BoolOp) and isinstance(t.op, ast.And) and len(t.values) == 2
                and isinstance_other(t.values[0]) == "PolylineRegion" and isinstance(t.values[1], ast.Compare)
                and len(t.values[1].ops) == 1 and isinstance(t.values[1].ops[0], ast.NotEq)
                and is_attr(t.values[1].left, "self", "z") and is_const(t.values[1].comparators[0], 0))
    lg = [g for g in zg if line_guard(g.test)]
    zg = [g for g in zg if not line_guard(g.test)]
    expect(len(lg) <= 1, "containsRegionInner: more than one polyline guard")
    if zg:
        expect(len(zg) == 1, "containsRegionInner: more than one height guard")
        t = zg[0].test
        ok = (isinstance(t, ast.BoolOp) and isinstance(t.op, ast.And) and isinstance_other(t.values[0]) == "PolygonalRegion"
              and isinstance(t.values[1], ast.Compare) and isinstance(t.values[1].ops[0], ast.NotEq)
              and {ast.dump(t.values[1].left), ast.dump(t.values[1].comparators[0])}
              == {ast.dump(ast.parse("self.z", mode="eval").body), ast.dump(ast.parse("other.z", mode="eval").body)})
        expect(ok, "containsRegionInner: height guard shape")
    F["polyContainsRegionChecksZ"] = bool(zg)
    # CircularRegion.containsPoint
    fn = get_def(tree, "CircularRegion.containsPoint", REL)
    st, rhs = point_z_test(fn, "CircularRegion.containsPoint", ast.NotEq)
    if st is None:
        F["discContainsChecksZ"] = False
    else:
        expect(is_attr(rhs, "self", "z") and is_const(st.body[0].value, False), "CircularRegion.containsPoint: height test")
        F["discContainsChecksZ"] = True
    r = returns(body_nodoc(fn))[-1].value
    ok = (isinstance(r, ast.Compare) and isinstance(r.ops[0], ast.LtE) and call_name(r.left) == "point.distanceTo"
          and is_attr(r.left.args[0], "self", "center") and is_attr(r.comparators[0], "self", "radius"))
    expect(ok, "CircularRegion.containsPoint: point.distanceTo(self.center) <= self.radius")
    # CircularRegion.distanceTo
    fn = get_def(tree, "CircularRegion.distanceTo", REL)
    st, rhs = point_z_test(fn, "CircularRegion.distanceTo", ast.Eq)
    expect(st is not None, "CircularRegion.distanceTo: planar fast path not found")
    F["discDistPlane"] = zsrc(rhs)
    v = st.body[0].value
    ok = (call_name(v) == "max" and is_const(v.args[0], 0) and isinstance(v.args[1], ast.BinOp) and isinstance(v.args[1].op, ast.Sub)
          and call_name(v.args[1].left) == "point.distanceTo" and is_attr(v.args[1].right, "self", "radius"))
    expect(ok, "CircularRegion.distanceTo: max(0, point.distanceTo(self.center) - self.radius)")
    expect(call_name(returns(body_nodoc(fn))[-1].value) == "super().distanceTo", "CircularRegion.distanceTo: falls back to super()")
    # PolylineRegion.containsPoint
    fn = get_def(tree, "PolylineRegion.containsPoint", REL)
    st, rhs = point_z_test(fn, "PolylineRegion.containsPoint", ast.NotEq)
    if st is None:
        F["lineContainsChecksZ"] = False
    else:
        expect(is_const(rhs, 0) and is_const(st.body[0].value, False), "PolylineRegion.containsPoint: height test")
        F["lineContainsChecksZ"] = True
    # MeshRegion.projectVector
    fn = get_def(tree, "MeshRegion.projectVector", REL)
    norms = [c for c in find_calls(body_nodoc(fn), "numpy.linalg.norm")]
    dist = None
    for st in ast.walk(fn):
        if isinstance(st, ast.Assign) and call_name(st.value) == "numpy.linalg.norm" and isinstance(st.targets[0], ast.Name) \
                and st.targets[0].id == "distances":
            dist = st.value
    expect(dist is not None, "MeshRegion.projectVector: distances = numpy.linalg.norm(..) not found")
    ax = kw(dist, "axis")
    F["projectAxis1"] = ax is not None and is_const(ax, 1)
    expect(ax is None or is_const(ax, 1), "MeshRegion.projectVector: axis is neither absent nor 1")
    am = find_calls(body_nodoc(fn), "numpy.argmin")
    expect(len(am) == 1 and is_name(am[0].args[0], "distances"), "MeshRegion.projectVector: numpy.argmin(distances)")
    # regionFromShapelyObject
    fn = get_def(tree, "regionFromShapelyObject", REL)
    pr = find_calls(body_nodoc(fn), "PolygonalRegion")
    expect(len(pr) == 1, "regionFromShapelyObject: one PolygonalRegion(...)")
    z = kw(pr[0], "z")
    expect(z is None or is_name(z, "z"), "regionFromShapelyObject: z keyword")
    F["fromShapelyPassesZ"] = z is not None
    # toPolygon: the attributes that make a region polygon-like
    fn = get_def(tree, "toPolygon", REL)
    attrs = [c.args[1].value for c in find_calls(body_nodoc(fn), "hasattr")]
    expect(attrs == ["polygon", "polygons", "lineString"], f"toPolygon: attribute list {attrs}")
    expect(bool(find_calls(body_nodoc(fn), "needsSampling")), "toPolygon: lazy operands are refused")
    F["compTrueStructural"] = composite_predicates(tree)
    return F


def gen_over(v, fn_name, method, iter_ok):
    """`<fn_name>(<x>.<method>(point) for <x> in <iter>)` with `iter_ok(iter)`"""
    if not (isinstance(v, ast.Call) and is_name(v.func, fn_name) and len(v.args) == 1 and isinstance(v.args[0], ast.GeneratorExp)):
        return False
    g = v.args[0]
    if len(g.generators) != 1 or g.generators[0].ifs or not isinstance(g.generators[0].target, ast.Name):
        return False
    x = g.generators[0].target.id
    e = g.elt
    return (isinstance(e, ast.Call) and isinstance(e.func, ast.Attribute) and e.func.attr == method and is_name(e.func.value, x)
            and len(e.args) == 1 and is_name(e.args[0], "point") and iter_ok(g.generators[0].iter))


def attr_chain(n):
    parts = []
    while isinstance(n, ast.Attribute):
        parts.append(n.attr)
        n = n.value
    if isinstance(n, ast.Name):
        parts.append(n.id)
        return ".".join(reversed(parts))
    return None


def and_not(v, a_chain, b_chain, method):
    """`<a>.<method>(point) and not <b>.<method>(point)`"""
    def call_on(c, chain):
        return (isinstance(c, ast.Call) and isinstance(c.func, ast.Attribute) and c.func.attr == method
                and attr_chain(c.func.value) == chain and len(c.args) == 1 and is_name(c.args[0], "point"))
    return (isinstance(v, ast.BoolOp) and isinstance(v.op, ast.And) and len(v.values) == 2 and call_on(v.values[0], a_chain)
            and isinstance(v.values[1], ast.UnaryOp) and isinstance(v.values[1].op, ast.Not) and call_on(v.values[1].operand, b_chain))


def class_method(tree, cls, name):
    node = get_def(tree, cls, REL)
    for ch in node.body:
        if isinstance(ch, ast.FunctionDef) and ch.name == name:
            return ch
    return None


def one_return(fn, where):
    body = body_nodoc(fn)
    expect(len(body) == 1 and isinstance(body[0], ast.Return), f"{where}: single return expected")
    return body[0].value


def composite_predicates(tree):
    """containsPoint of the composite regions has the modelled (footprint) shape; -> do they define
    `_trueContainsPoint` structurally (all / any / and-not of the parts' `_trueContainsPoint`)?"""
    foot_regions = lambda it: attr_chain(it) == "self.footprint.regions"
    own_regions = lambda it: attr_chain(it) == "self.regions"
    v = one_return(class_method(tree, "IntersectionRegion", "containsPoint"), "IntersectionRegion.containsPoint")
    expect(gen_over(v, "all", "containsPoint", foot_regions), "IntersectionRegion.containsPoint: all(... for region in self.footprint.regions)")
    v = one_return(class_method(tree, "UnionRegion", "containsPoint"), "UnionRegion.containsPoint")
    expect(gen_over(v, "any", "containsPoint", foot_regions), "UnionRegion.containsPoint: any(... for region in self.footprint.regions)")
    v = one_return(class_method(tree, "DifferenceRegion", "containsPoint"), "DifferenceRegion.containsPoint")
    expect(and_not(v, "self.footprint.regionA", "self.footprint.regionB", "containsPoint"),
           "DifferenceRegion.containsPoint: footprint.regionA.containsPoint(point) and not footprint.regionB.containsPoint(point)")
    for c in ("IntersectionRegion", "UnionRegion", "DifferenceRegion"):
        fp = class_method(tree, c, "footprint")
        expect(fp is not None and call_name(one_return(fp, f"{c}.footprint")) == "convertToFootprint",
               f"{c}.footprint is not convertToFootprint(self)")
    # convertToFootprint: polygons -> footprint; intersections and differences recursively; everything else (unions!) as is
    fn = get_def(tree, "convertToFootprint", REL)
    body = body_nodoc(fn)
    handled = []
    for st in body[:-1]:
        expect(isinstance(st, ast.If) and not st.orelse and call_name(st.test) == "isinstance" and is_name(st.test.args[0], "region")
               and isinstance(st.test.args[1], ast.Name), "convertToFootprint: chain of isinstance(region, K) tests")
        handled.append(st.test.args[1].id)
    expect(handled == ["PolygonalRegion", "IntersectionRegion", "DifferenceRegion"], f"convertToFootprint handles {handled}")
    expect(isinstance(body[-1], ast.Return) and is_name(body[-1].value, "region"), "convertToFootprint: other regions returned as is")
    r0 = returns(body[0].body)
    expect(len(r0) == 1 and attr_chain(r0[0].value) == "region.footprint", "convertToFootprint: polygon -> region.footprint")
    expect(len(find_calls(body[1].body, "convertToFootprint")) == 1 and call_name(returns(body[1].body)[0].value) == "IntersectionRegion",
           "convertToFootprint: intersection rebuilt from the footprints of its parts")
    expect(len(find_calls(body[2].body, "convertToFootprint")) == 2 and call_name(returns(body[2].body)[0].value) == "DifferenceRegion",
           "convertToFootprint: difference rebuilt from the footprints of its parts")
    # Region._trueContainsPoint = containsPoint
    v = one_return(get_def(tree, "Region._trueContainsPoint", REL), "Region._trueContainsPoint")
    expect(call_name(v) == "self.containsPoint" and is_name(v.args[0], "point"), "Region._trueContainsPoint is not self.containsPoint(point)")
    ms = {c: class_method(tree, c, "_trueContainsPoint") for c in ("IntersectionRegion", "UnionRegion", "DifferenceRegion")}
    if all(m is None for m in ms.values()):
        return False
    expect(all(m is not None for m in ms.values()), "only some composite regions define _trueContainsPoint")
    expect(gen_over(one_return(ms["IntersectionRegion"], "IntersectionRegion._trueContainsPoint"), "all", "_trueContainsPoint", own_regions),
           "IntersectionRegion._trueContainsPoint: all(r._trueContainsPoint(point) for r in self.regions)")
    expect(gen_over(one_return(ms["UnionRegion"], "UnionRegion._trueContainsPoint"), "any", "_trueContainsPoint", own_regions),
           "UnionRegion._trueContainsPoint: any(r._trueContainsPoint(point) for r in self.regions)")
    expect(and_not(one_return(ms["DifferenceRegion"], "DifferenceRegion._trueContainsPoint"), "self.regionA", "self.regionB", "_trueContainsPoint"),
           "DifferenceRegion._trueContainsPoint: regionA._trueContainsPoint(point) and not regionB._trueContainsPoint(point)")
    return True


WS_REL = "src/scenic/core/workspaces.py"
WS_METHODS = ["intersect", "intersects", "difference", "union", "containsPoint", "containsObject", "containsRegionInner",
              "distanceTo", "projectVector", "uniformPointInner", "AABB", "dimensionality", "size"]


def extract_workspace():
    """for each region method of Workspace: is it `return self.region.<same>(<same arguments in order>)`?"""
    src, tree = load(WS_REL)
    node = get_def(tree, "Workspace", WS_REL)
    bases = [b.id for b in node.bases if isinstance(b, ast.Name)]
    expect(bases == ["Region"], "Workspace no longer derives from Region")
    out = []
    for m in WS_METHODS:
        fn = None
        for ch in node.body:
            if isinstance(ch, ast.FunctionDef) and ch.name == m:
                fn = ch
        ok = False
        if fn is not None:
            body = body_nodoc(fn)
            params = [a.arg for a in fn.args.args][1:]
            is_prop = any(is_name(d, "property") for d in fn.decorator_list)
            if len(body) == 1 and isinstance(body[0], ast.Return) and body[0].value is not None:
                v = body[0].value
                if is_prop:
                    ok = attr_chain(v) == f"self.region.{m}" and not params
                else:
                    ok = (isinstance(v, ast.Call) and attr_chain(v.func) == f"self.region.{m}" and not v.keywords
                          and [getattr(a, "id", None) for a in v.args] == params)
        out.append((m, ok))
    return out


def is_point_z(n):
    return is_attr(n, "point", "z") or (isinstance(n, ast.Subscript) and is_name(n.value, "point") and is_const(n.slice, 2))


def aabb_z(fn, where):
    r = returns(body_nodoc(fn))
    expect(len(r) == 1 and isinstance(r[0].value, ast.Tuple) and len(r[0].value.elts) == 2, f"{where}: pair of corners")
    lo, hi = r[0].value.elts
    expect(isinstance(lo, ast.Tuple) and isinstance(hi, ast.Tuple) and len(lo.elts) == 3 and len(hi.elts) == 3, f"{where}: 3-D corners")
    a, b = zsrc(lo.elts[2]), zsrc(hi.elts[2])
    expect(a == b, f"{where}: corners at different heights")
    return a


# --------------------------------------------------------------------------- driver
def polygon_like_attrs(tree):
    """which modelled classes carry `polygons` / `lineString` (what toPolygon looks for)"""
    res = {}
    for cname, k in KINDS.items():
        node = get_def(tree, cname, REL)
        has = False
        for x in ast.walk(node):
            if isinstance(x, ast.FunctionDef) and x.name in ("polygons", "polygon", "lineString"):
                has = True
            if isinstance(x, ast.Attribute) and isinstance(x.ctx, ast.Store) and x.attr in ("polygons", "polygon", "lineString") \
                    and is_name(x.value, "self"):
                has = True
        res[k] = has
    return res


def extract():
    src, tree = load(REL)
    table = {}
    for cname, k in KINDS.items():
        node = get_def(tree, cname, REL)
        for op in OPS:
            fn = None
            for ch in node.body:
                if isinstance(ch, ast.FunctionDef) and ch.name == op:
                    fn = ch
            if fn is not None:
                table[(k, op)] = extract_method(cname, fn, op)
    for cname in INHERITING:
        node = get_def(tree, cname, REL)
        for ch in node.body:
            if isinstance(ch, ast.FunctionDef) and ch.name in OPS:
                raise TemplateMismatch(f"{cname} now defines {ch.name} (the model lets it inherit)")
    attrs = polygon_like_attrs(tree)
    want = {"all": False, "empty": False, "poly": True, "disc": False, "foot": True, "line": True, "path": False,
            "pts": False, "vol": False, "surf": False}
    # CircularRegion inherits `polygons` from PolygonalRegion
    expect({k: v for k, v in attrs.items() if k != "disc"} == {k: v for k, v in want.items() if k != "disc"},
           f"polygon-like attributes changed: {attrs}")
    # MRO facts the model relies on
    bases = {c.name: [b.id for b in c.bases if isinstance(b, ast.Name)] for c in ast.walk(tree) if isinstance(c, ast.ClassDef)}
    expect(bases.get("CircularRegion") == ["PolygonalRegion"], "CircularRegion no longer derives from PolygonalRegion")
    for c in ("PolygonalRegion", "PolylineRegion", "PathRegion", "PointSetRegion", "PolygonalFootprintRegion", "MeshRegion",
              "AllRegion", "EmptyRegion"):
        expect(bases.get(c) == ["Region"], f"{c} no longer derives directly from Region")
    expect(bases.get("MeshVolumeRegion") == ["MeshRegion"] and bases.get("MeshSurfaceRegion") == ["MeshRegion"], "mesh class hierarchy")
    return {"table": table, "generic": extract_generic(tree), "flags": extract_flags(tree), "workspace": extract_workspace()}


def lean_clauses(cs):
    return "[" + ", ".join("⟨[" + ", ".join(g) + "], " + a + "⟩" for g, a in cs) + "]"


def to_lean(d):
    F = d["flags"]
    lines = ["import ScenicModel.Model.Dispatch", "namespace Scenic.Gen.RegionOps", "open Scenic.Region", "",
             "/-- facts read off the point predicates of src/scenic/core/regions.py -/",
             "def flags : Flags :=",
             "  { polyTrueChecksZ := %s," % lean_bool(F["polyTrueChecksZ"]),
             "    polyDistZ := .%s," % F["polyDistZ"],
             "    polyAABBZ := .%s," % F["polyAABBZ"],
             "    polyContainsRegionChecksZ := %s," % lean_bool(F["polyContainsRegionChecksZ"]),
             "    discContainsChecksZ := %s," % lean_bool(F["discContainsChecksZ"]),
             "    discDistPlane := .%s," % F["discDistPlane"],
             "    discAABBZ := .%s," % F["discAABBZ"],
             "    lineContainsChecksZ := %s," % lean_bool(F["lineContainsChecksZ"]),
             "    projectAxis1 := %s," % lean_bool(F["projectAxis1"]),
             "    fromShapelyPassesZ := %s," % lean_bool(F["fromShapelyPassesZ"]),
             "    compTrueStructural := %s }" % lean_bool(F["compTrueStructural"]),
             "",
             "/-- the `isinstance` chains of every class's intersect / union / difference / intersects, in source order -/",
             "def clsTable : Kind → Op → Option (List Clause)"]
    for (k, op), cs in sorted(d["table"].items()):
        lines.append(f"  | .{k}, .{op} => some {lean_clauses(cs)}")
    lines.append("  | _, _ => none")
    lines += ["", "/-- the generic methods of `Region` -/", "def genericTable : Op → List Clause"]
    for op in OPS:
        lines.append(f"  | .{op} => {lean_clauses(d['generic'][op])}")
    lines += ["", "def table : Table := ⟨clsTable, genericTable⟩", "",
              "/-- src/scenic/core/workspaces.py: which region methods of `Workspace` hand the call on to `self.region` -/",
              "def workspace : List Delegation :=",
              "  [" + ", ".join('⟨"%s", %s⟩' % (m, lean_bool(ok)) for m, ok in d["workspace"]) + "]",
              "", "end Scenic.Gen.RegionOps"]
    return "\n".join(lines) + "\n"


if __name__ == "__main__":
    print(to_lean(extract()))
