"""invocables.py `_invokeSubBehavior`, distributions.py `Options`/`DiscreteRange`/`Distribution.__new__`,
compiler.py `visit_DoChoose`/`visit_DoShuffle`/`makeDoLike`  ->  Gen/Choose.lean (`Scenic.Gen.chooseConfig`).

Template extraction: every anchored function is compared, node by node, with a template written as Python
source.  Local names may be renamed consistently (a harmless rewrite), everything else must agree exactly,
except
  * `_K_<name>`  : a non-negative integer literal, extracted as datum <name>;
  * `_ANY_`      : any expression (texts of error messages);
  * `_ANYBODY_`  : (alone in a block) any list of statements.
Anything else raises TemplateMismatch (the tie then rests on the correspondence run at thorough budget).
"""
import ast

from translate.astutil import TemplateMismatch, get_def, load

INVOCABLES = "src/scenic/core/dynamics/invocables.py"
DISTRIBUTIONS = "src/scenic/core/distributions.py"
COMPILER = "src/scenic/syntax/compiler.py"

# names that must denote the same global/builtin in template and source (never renamed)
FIXED = {
    "self", "isinstance", "dict", "len", "list", "tuple", "range", "zip", "float", "int", "super", "type",
    "Options", "DiscreteRange", "RejectSimulationException", "RejectionException", "TypeError", "ValueError",
    "random", "itertools", "math", "type_support", "veneer", "DefaultIdentityDict", "runTryInterrupt",
    "BlockConclusion", "RuntimeError", "ast", "loadCtx", "behaviorArgName", "Optional", "List", "str",
    "True", "False", "None",
}

# the wrapper added by the repair of the invariant re-check: it must hand every argument through unchanged
T_WRAPPER = '''
def _invokeSubBehavior(self, agent, subs, modifier=None, schedule=None):
    self._subInvocationsInProgress += 1
    try:
        yield from self._runSubBehavior(agent, subs, modifier, schedule)
    finally:
        self._subInvocationsInProgress -= 1
'''

T_INVOKE = '''
def _runSubBehavior(self, agent, subs, modifier, schedule):
    def pickEnabledInvocable(opts):
        enabled = {}
        if isinstance(opts, dict):
            for sub, weight in opts.items():
                if sub._isEnabledForAgent(agent):
                    enabled[sub] = weight
        else:
            for sub in opts:
                if sub._isEnabledForAgent(agent):
                    enabled[sub] = _K_defaultWeight
        if not enabled:
            raise RejectSimulationException(_ANY_)
        if len(enabled) == _K_shortcutLen:
            choice = list(enabled)[_K_shortcutIdx]
        else:
            choice = Options(enabled)
        return choice

    scheduler = None
    if schedule == "choose":
        if len(subs) == 1 and isinstance(subs[0], dict):
            subs = subs[0]
        subs = (pickEnabledInvocable(subs),)
    elif schedule == "shuffle":
        if len(subs) == 1 and isinstance(subs[0], dict):
            subs = %s
        else:
            subs = {item: _K_defaultWeightShuffle for item in subs}

        def scheduler():
            while subs:
                choice = pickEnabledInvocable(subs)
                subs.pop(choice)
                yield from self._invokeInner(agent, (choice,))

    else:
        assert schedule is None
    if not scheduler:

        def scheduler():
            if not subs:
                while True:
                    yield ()
            else:
                yield from self._invokeInner(agent, subs)

    if modifier:
        _ANYBODY_
    else:
        yield from scheduler()
'''

# the shuffle scheduler pops the items it has run from `subs`: either from the caller's own dict (the operand of the
# statement is emptied as a side effect) or from a copy of it
SHUFFLE_OPERAND = {"subs[0]": False, "dict(subs[0])": True, "subs[0].copy()": True, "{**subs[0]}": True}

T_ENABLED = '''
def _isEnabledForAgent(self, agent):
    assert not self._isRunning
    assert self._agent is None
    try:
        self._agent = agent
        self._checkAllPreconditions()
        return True
    except GuardViolation:
        return False
    finally:
        self._agent = None
'''

T_OPTIONS = '''
def __init__(self, opts):
    if isinstance(opts, dict):
        options, weights = [], []
        for opt, prob in opts.items():
            if not isinstance(prob, (float, int)):
                raise TypeError(_ANY_)
            if prob < 0:
                raise ValueError(_ANY_)
            %s
            options.append(opt)
            weights.append(prob)
        self.optWeights = dict(zip(options, weights))
    else:
        weights = None
        options = tuple(opts)
        self.optWeights = None
    if len(options) == 0:
        raise RejectionException(_ANY_)

    index = self.makeSelector(len(options) - _K_highOff, weights)
    super().__init__(index, options)
'''
T_OPTIONS_DROP = T_OPTIONS % "if prob == 0:\n                continue"
T_OPTIONS_KEEP = T_OPTIONS % "pass"

T_SELECTOR = '''
def makeSelector(n, weights):
    return DiscreteRange(_K_selLow, n, weights)
'''

T_DR_INIT = '''
def __init__(self, low, high, weights=None, emptyMessage="empty DiscreteRange"):
    if weights:
        if not isinstance(low, int):
            raise TypeError(_ANY_)
        if not isinstance(high, int):
            raise TypeError(_ANY_)
        if not low <= high:
            raise ValueError(_ANY_)
        self.low, self.high = low, high
        weights = tuple(weights)
        if len(weights) != high - low + 1:
            raise ValueError(_ANY_)
        self.weights = weights
        self.cumulativeWeights = tuple(itertools.accumulate(weights))
        self.options = tuple(range(low, high + _K_rangeOff))
    else:
        self.low = type_support.toScalar(low, _ANY_)
        self.high = type_support.toScalar(high, _ANY_)
        self.weights = None
    self.emptyMessage = emptyMessage
    super().__init__(self.low, self.high, valueType=int)
'''

T_DR_SAMPLE = '''
def sampleGiven(self, value):
    if self.weights:
        return random.choices(self.options, cum_weights=self.cumulativeWeights)[_K_takeIdx]
    left, right = math.ceil(value[self.low]), math.floor(value[self.high])
    if right < left:
        raise RejectionException(self.emptyMessage)
    return random.randint(left, right)
'''

T_MUX_SAMPLE = '''
def sampleGiven(self, value):
    idx = value[self._index]
    assert 0 <= idx < len(self.options), (idx, len(self.options))
    return value[self.options[idx]]
'''

T_MUX_INIT = '''
def __init__(self, index, options):
    self._index = index
    self.options = tuple(toDistribution(opt) for opt in options)
    assert len(self.options) > 0
    valueType = type_support.unifyingType(self.options)
    super().__init__(index, *self.options, valueType=valueType)
'''

T_UNIFORM = '''
def Uniform(*opts):
    if any(isinstance(opt, StarredDistribution) for opt in opts):
        return UniformDistribution(opts)
    else:
        return Options(opts)
'''

T_NEW = '''
def __new__(cls, *args, **kwargs):
    dist = super().__new__(cls)
    import scenic.syntax.veneer as veneer

    if veneer.simulationInProgress():
        dist.__init__(*args, **kwargs)
        sim = veneer.simulation()
        subsamples = DefaultIdentityDict()
        if sim.replayCanContinue():
            value = sim.replaySampledValue(dist, subsamples)
        else:
            value = dist.sample(subsamples)
        subsamples[dist] = value
        sim.recordSampledValue(dist, subsamples)
        return value
    elif veneer.evaluatingRequirement:
        raise InvalidScenarioError(_ANY_)
    else:
        return dist
'''

T_VISIT_CHOOSE = '''
def visit_DoChoose(self, node: s.DoChoose):
    return self.makeDoLike(node, node.elts, schedule="choose")
'''
T_VISIT_SHUFFLE = '''
def visit_DoShuffle(self, node: s.DoChoose):
    return self.makeDoLike(node, node.elts, schedule="shuffle")
'''
T_MAKEDOLIKE = '''
def makeDoLike(self, node: ast.AST, elts: List[ast.AST], modifier: Optional[ast.Call] = None,
               schedule: Optional[str] = None):
    subHandler = ast.Attribute(ast.Name(behaviorArgName, loadCtx), "_invokeSubBehavior", loadCtx)
    subArgs = [
        ast.Name("self", loadCtx),
        ast.Tuple([self.visit(e) for e in elts], loadCtx),
    ]
    if modifier is not None:
        subArgs.append(modifier)
    keywords = []
    if schedule is not None:
        keywords = [ast.keyword("schedule", ast.Constant(schedule))]
    subRunner = ast.Call(subHandler, subArgs, keywords)
    return self.generateInvocation(node, subRunner, ast.YieldFrom)
'''


class _Matcher:
    def __init__(self, what, tlocals=frozenset(), slocals=frozenset()):
        self.what = what
        self.tlocals, self.slocals = tlocals, slocals
        self.fwd, self.bwd = {}, {}
        self.data = {}

    def fail(self, msg, node=None):
        line = getattr(node, "lineno", "?")
        raise TemplateMismatch(f"{self.what}: {msg} (source line {line})")

    def name(self, t, s, node):
        # only names *bound inside* the function (parameters, assigned locals, loop variables, nested defs) may be
        # renamed; a free name (global, builtin, imported class) must be the same on both sides
        if t in FIXED or s in FIXED or t not in self.tlocals or s not in self.slocals:
            if t != s:
                self.fail(f"expected `{t}`, found `{s}`", node)
            return
        if self.fwd.setdefault(t, s) != s or self.bwd.setdefault(s, t) != t:
            self.fail(f"inconsistent use of name `{s}` (template `{t}`)", node)

    def body(self, tb, sb, parent):
        tb, sb = _nodoc(tb), _nodoc(sb)
        if len(tb) == 1 and isinstance(tb[0], ast.Expr) and isinstance(tb[0].value, ast.Name) \
                and tb[0].value.id == "_ANYBODY_":
            return
        tb = [x for x in tb if not isinstance(x, ast.Pass)] if any(isinstance(x, ast.Pass) for x in tb) and len(tb) > 1 else tb
        if len(tb) != len(sb):
            self.fail(f"block has {len(sb)} statements, template has {len(tb)}", sb[0] if sb else parent)
        for a, b in zip(tb, sb):
            self.node(a, b)

    def node(self, t, s):
        if isinstance(t, ast.Name) and t.id == "_ANY_":
            return
        if isinstance(t, ast.Name) and t.id.startswith("_K_"):
            if not (isinstance(s, ast.Constant) and type(s.value) is int and s.value >= 0):
                self.fail(f"expected a non-negative integer literal for {t.id[3:]}, found {ast.dump(s)[:60]}", s)
            self.data[t.id[3:]] = s.value
            return
        if type(t) is not type(s):
            self.fail(f"expected {type(t).__name__}, found {type(s).__name__}", s)
        if isinstance(t, ast.Name):
            return self.name(t.id, s.id, s)
        if isinstance(t, ast.arg):
            self.name(t.arg, s.arg, s)
            return  # annotations are not compared
        if isinstance(t, (ast.FunctionDef, ast.AsyncFunctionDef)):
            self.name(t.name, s.name, s)
            saved = (dict(self.fwd), dict(self.bwd))  # names first bound inside are local to the function
            self.node(t.args, s.args)
            self.body(t.body, s.body, s)
            self.fwd, self.bwd = saved
            return
        if isinstance(t, ast.Constant):
            if type(t.value) is not type(s.value) or t.value != s.value:
                self.fail(f"constant {s.value!r} where the template has {t.value!r}", s)
            return
        for field in t._fields:
            if field in ("ctx", "type_comment", "kind", "decorator_list", "returns", "type_params"):
                continue
            a, b = getattr(t, field, None), getattr(s, field, None)
            if field in ("body", "orelse", "finalbody") and isinstance(a, list):
                self.body(a, b, s)
            elif isinstance(a, list):
                if not isinstance(b, list) or len(a) != len(b):
                    self.fail(f"{type(t).__name__}.{field}: different number of parts", s)
                for x, y in zip(a, b):
                    if isinstance(x, ast.AST):
                        self.node(x, y)
                    elif x != y:
                        self.fail(f"{type(t).__name__}.{field} differs", s)
            elif isinstance(a, ast.AST):
                if not isinstance(b, ast.AST):
                    self.fail(f"{type(t).__name__}.{field} missing", s)
                self.node(a, b)
            elif a is None and b is None:
                continue
            elif isinstance(a, ast.AST) != isinstance(b, ast.AST) or a != b:
                self.fail(f"{type(t).__name__}.{field}: `{b}` where the template has `{a}`", s)


def _nodoc(body):
    out = []
    for i, x in enumerate(body):
        if i == 0 and isinstance(x, ast.Expr) and isinstance(x.value, ast.Constant) and isinstance(x.value.value, str):
            continue
        out.append(x)
    return out


def _bound_names(fn):
    out = set()
    for n in ast.walk(fn):
        if isinstance(n, ast.arg):
            out.add(n.arg)
        elif isinstance(n, ast.Name) and isinstance(n.ctx, (ast.Store, ast.Del)):
            out.add(n.id)
        elif isinstance(n, (ast.FunctionDef, ast.AsyncFunctionDef)) and n is not fn:
            out.add(n.name)
        elif isinstance(n, ast.alias):
            out.add((n.asname or n.name).split(".")[0])
    return frozenset(out)


def match_template(template, fn, what):
    t = ast.parse(template.strip("\n")).body[0]
    m = _Matcher(what, _bound_names(t), _bound_names(fn))
    m.node(t, fn)
    return m.data


REFERENCE = {"defaultWeight": 1, "shortcutLen": 1, "shortcutIdx": 0, "dropZero": True, "copyOperand": True,
             # Options -> DiscreteRange -> random.choices -> Multiplexer (round 4: `optionsSelect`)
             "highOff": 1, "selLow": 0, "rangeOff": 1, "takeIdx": 0}


def extract():
    """-> (data, mismatches).  Every anchored function is matched separately.  A function whose shape no longer
    matches contributes the REFERENCE value of its constants (so the generated model is the hand-written reference
    model for that part, never stale data of an earlier run) and is listed in `mismatches`; the caller then
    escalates the correspondence run, which alone decides whether the reference model still describes the code."""
    _, inv = load(INVOCABLES)
    _, dist = load(DISTRIBUTIONS)
    _, comp = load(COMPILER)
    data = dict(REFERENCE)
    matched, mismatches = [], []

    def attempt(name, fn):
        try:
            fn()
            matched.append(name)
        except TemplateMismatch as e:
            mismatches.append(str(e))

    def invoke():
        fn = get_def(inv, "Invocable._runSubBehavior", INVOCABLES)
        first = None
        for expr, copies in SHUFFLE_OPERAND.items():
            try:
                d = match_template(T_INVOKE % expr, fn, "_runSubBehavior")
                break
            except TemplateMismatch as e:
                first = first or e
        else:
            raise first
        if d["defaultWeight"] != d["defaultWeightShuffle"]:
            raise TemplateMismatch(f"_runSubBehavior: tuple-form weight is {d['defaultWeight']} for choose but "
                                   f"{d['defaultWeightShuffle']} for shuffle")
        data.update(defaultWeight=d["defaultWeight"], shortcutLen=d["shortcutLen"], shortcutIdx=d["shortcutIdx"],
                    copyOperand=copies)

    def options():
        opt_init = get_def(dist, "Options.__init__", DISTRIBUTIONS)
        try:
            d = match_template(T_OPTIONS_DROP, opt_init, "Options.__init__")
            data["dropZero"] = True
            data["highOff"] = d["highOff"]
        except TemplateMismatch as first:
            try:
                d = match_template(T_OPTIONS_KEEP, opt_init, "Options.__init__")
                data["dropZero"] = False
                data["highOff"] = d["highOff"]
            except TemplateMismatch:
                raise first

    attempt("Invocable._runSubBehavior", invoke)
    attempt("Invocable._invokeSubBehavior", lambda: match_template(
        T_WRAPPER, get_def(inv, "Invocable._invokeSubBehavior", INVOCABLES), "_invokeSubBehavior"))
    attempt("Invocable._isEnabledForAgent", lambda: match_template(
        T_ENABLED, get_def(inv, "Invocable._isEnabledForAgent", INVOCABLES), "_isEnabledForAgent"))
    attempt("Options.__init__", options)
    for name, tmpl, tree, qual, rel in (
            ("Options.makeSelector", T_SELECTOR, dist, "Options.makeSelector", DISTRIBUTIONS),
            ("DiscreteRange.__init__", T_DR_INIT, dist, "DiscreteRange.__init__", DISTRIBUTIONS),
            ("DiscreteRange.sampleGiven", T_DR_SAMPLE, dist, "DiscreteRange.sampleGiven", DISTRIBUTIONS),
            ("MultiplexerDistribution.__init__", T_MUX_INIT, dist, "MultiplexerDistribution.__init__", DISTRIBUTIONS),
            ("MultiplexerDistribution.sampleGiven", T_MUX_SAMPLE, dist, "MultiplexerDistribution.sampleGiven", DISTRIBUTIONS),
            ("Uniform", T_UNIFORM, dist, "Uniform", DISTRIBUTIONS),
            ("Distribution.__new__", T_NEW, dist, "Distribution.__new__", DISTRIBUTIONS),
            ("visit_DoChoose", T_VISIT_CHOOSE, comp, "visit_DoChoose", COMPILER),
            ("visit_DoShuffle", T_VISIT_SHUFFLE, comp, "visit_DoShuffle", COMPILER),
            ("makeDoLike", T_MAKEDOLIKE, comp, "makeDoLike", COMPILER)):
        def simple(tmpl=tmpl, tree=tree, qual=qual, rel=rel, name=name):
            d = match_template(tmpl, get_def(tree, qual, rel), name)
            for key in ("selLow", "rangeOff", "takeIdx"):  # integer constants of the selector pipeline
                if key in d:
                    data[key] = d[key]
        attempt(name, simple)
    data["matched"] = matched
    return data, mismatches


def to_lean(d):
    shapes = ", ".join(f'"{m}"' for m in d["matched"])
    return f"""import ScenicModel.Model.ChooseSelect
namespace Scenic.Gen
/-- constants read from `_invokeSubBehavior.pickEnabledInvocable` / the shuffle branch / `Options.__init__`
(reference values for a function whose shape did not match its template on this run) -/
def chooseConfig : Scenic.Choose.Config :=
  {{ defaultWeight := {d['defaultWeight']}, shortcutLen := {d['shortcutLen']}, shortcutIdx := {d['shortcutIdx']}, dropZero := {str(d['dropZero']).lower()},
    copyOperand := {str(d['copyOperand']).lower()} }}
/-- integer constants of `Options.__init__` (`len(options) - highOff`), `Options.makeSelector` (`DiscreteRange(selLow, …)`),
`DiscreteRange.__init__` (`range(low, high + rangeOff)`) and `DiscreteRange.sampleGiven` (`choices(…)[takeIdx]`) -/
def selectConfig : Scenic.Choose.SelectConfig :=
  {{ highOff := {d['highOff']}, selLow := {d['selLow']}, rangeOff := {d['rangeOff']}, takeIdx := {d['takeIdx']} }}
/-- functions whose statement-by-statement shape matched the model's template on this run (informational) -/
def chooseMatchedShapes : List String := [{shapes}]
end Scenic.Gen
"""
