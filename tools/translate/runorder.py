"""simulators.py `Simulation._run`, dynamics/scenarios.py `DynamicScenario._step/_runMonitors/
_addDynamicRequirement/_start`, dynamics/invocables.py `_invokeSubBehavior`, veneer.py `terminate_after`,
docs/reference/dynamic_scenarios.rst   ->   Gen/RunOrder.lean

What is extracted (data only):

* `runOrder`   the phases of one iteration of `_run`, in source order.  Every statement of the
               `while True:` body must be recognised (white list below); an unknown statement,
               a missing one or a duplicated one is a TemplateMismatch.  Re-ordering recognised
               statements is *not* a mismatch: the new order is extracted and the model executes it.
* `stepOrder`  the checks of `DynamicScenario._step`, in source order.
* `docOrder`, `docStepOrder`   the numbered procedure of the reference page, by keyword.
* the comparison operators of the three time-limit tests and whether durations in seconds are
  divided by the time step.
* `dynReqAsTemporal`   shape of `_addDynamicRequirement` (appends everything to `_temporalRequirements`
               vs. dispatches non-temporal kinds to `_registerCompiledRequirement`).
* `monTermPropagates`  shape of the sub-scenario loop of `_runMonitors` (`is not None` vs.
               `isinstance(…, _EndSimulationAction)`).
  Both are `false` in the code the model is written against; the side condition `gen_subscenario_flags`
  re-decides that on every run.
* `initOrder`    the calls of the `try:` body of `Simulation.__init__` (setup, start of the top-level scenario, first
               update, `_run`, stopping the remaining scenarios, final records), in source order.
* `recordOrder`  `Simulation.recordCurrentState`: initial records (guarded by `step == 0`), time series, trajectory.
* `monitorsOrder`  `_runMonitors`: own monitors, sub-scenarios, stop of the scenario itself.
* `invokeOrder`  `DynamicScenario._invokeInner`: start of the sub-scenarios, loop (step every sub-scenario, keep those
               that go on, return when none is left, yield, drop those stopped meanwhile).
* `stopOrder`    `DynamicScenario._stop`: monitors, sub-scenarios, compose iterator.
* `termSimRecurses` / `termSimRunningOnly` / `recordAllSubs`   shapes of `_checkSimulationTerminationConditions` and
               `_evaluateRecordedExprsAt` (recursion into `_subScenarios`, with / without a test of `_isRunning`).
* `behaviorEndIsEmpty`   `Behavior._step` turns `StopIteration` into the empty action tuple.

Orders are taken from the positions (line, column) of the recognised calls / statements inside the function; a
missing or duplicated one is a TemplateMismatch, unrelated statements in between are ignored.
"""
import ast
import re

from translate.astutil import TemplateMismatch, body_nodoc, expect, get_def, is_name, load

SIM = "src/scenic/core/simulators.py"
SCN = "src/scenic/core/dynamics/scenarios.py"
INV = "src/scenic/core/dynamics/invocables.py"
VEN = "src/scenic/syntax/veneer.py"
DOC = "docs/reference/dynamic_scenarios.rst"

PHASES = ["scen", "record", "monitors", "retPending", "termSimWhen", "maxSteps", "behaviors", "actions",
          "simStep", "clock", "update"]


def _attr_chain(node):
    """self.a.b -> 'self.a.b'"""
    parts = []
    while isinstance(node, ast.Attribute):
        parts.append(node.attr)
        node = node.value
    if isinstance(node, ast.Name):
        parts.append(node.id)
        return ".".join(reversed(parts))
    return None


def _call_name(node):
    if isinstance(node, ast.Call):
        return _attr_chain(node.func)
    return None


def _is_print_guard(st):
    return (isinstance(st, ast.If) and isinstance(st.test, ast.Compare)
            and _attr_chain(st.test.left) == "self.verbosity")


def _opname(op):
    return type(op).__name__


def _returns_termtype(st, name):
    """`return TerminationType.<name>, …` somewhere directly in the body of `st`"""
    for n in st.body:
        if isinstance(n, ast.Return) and isinstance(n.value, ast.Tuple) and n.value.elts:
            if _attr_chain(n.value.elts[0]) == f"TerminationType.{name}":
                return True
    return False


def _check_behavior_loop(loop):
    """the body of `for agent in schedule:` must still have the documented shape"""
    expect(is_name(loop.target, "agent") and is_name(loop.iter, "schedule"), "_run: `for agent in schedule`")
    body = loop.body
    # if not agent.behavior: continue
    expect(isinstance(body[0], ast.If) and isinstance(body[0].body[0], ast.Continue), "_run: skip of agents without behavior")
    # actions = agent.behavior._step()
    expect(isinstance(body[1], ast.Assign) and _call_name(body[1].value) == "agent.behavior._step",
           "_run: actions = agent.behavior._step()")
    br = body[2]
    expect(isinstance(br, ast.If) and isinstance(br.test, ast.Call) and is_name(br.test.func, "isinstance")
           and is_name(br.test.args[1], "_EndSimulationAction") and _returns_termtype(br, "terminatedByBehavior"),
           "_run: `terminate simulation` in a behavior returns terminatedByBehavior at once")
    expect(len(br.orelse) == 1 and isinstance(br.orelse[0], ast.If), "_run: elif _EndScenarioAction")
    es = br.orelse[0]
    expect(is_name(es.test.args[1], "_EndScenarioAction"), "_run: elif isinstance(actions, _EndScenarioAction)")
    kinds = []
    for n in es.body:
        if isinstance(n, ast.Assign) and is_name(n.targets[0], "scenario"):
            kinds.append("scenario=")
        elif isinstance(n, ast.If) and (_attr_chain(n.test) == "scenario._isRunning" or (
                isinstance(n.test, ast.BoolOp) and isinstance(n.test.op, ast.And)
                and _attr_chain(n.test.values[-1]) == "scenario._isRunning"
                and all(isinstance(v, ast.Compare) and is_name(v.left, "scenario") and isinstance(v.ops[0], ast.IsNot)
                        for v in n.test.values[:-1]))):
            expect(_call_name(n.body[0].value) == "scenario._stop", "_run: scenario._stop(actions)")
            kinds.append("stop")
        elif (isinstance(n, ast.If) and isinstance(n.test, ast.Compare) and isinstance(n.test.ops[0], ast.Is)
              and is_name(n.test.left, "scenario") and is_name(n.test.comparators[0], "dynamicScenario")):
            expect(_returns_termtype(n, "terminatedByBehavior"), "_run: top-level terminate returns")
            kinds.append("top")
        elif isinstance(n, ast.Assign) and is_name(n.targets[0], "actions"):
            expect(isinstance(n.value, ast.Tuple) and not n.value.elts, "_run: actions = ()")
            kinds.append("actions=()")
        else:
            raise TemplateMismatch("_run: unknown statement in the _EndScenarioAction branch: " + ast.dump(n)[:80])
    expect(kinds == ["scenario=", "stop", "top", "actions=()"], f"_run: _EndScenarioAction branch is {kinds}")
    # allActions[agent] = actions must follow
    assigned = any(isinstance(n, ast.Assign) and isinstance(n.targets[0], ast.Subscript)
                   and is_name(n.targets[0].value, "allActions") for n in body[3:])
    expect(assigned, "_run: allActions[agent] = actions")


def extract_run():
    src, tree = load(SIM)
    fn = get_def(tree, "Simulation._run", SIM)
    body = body_nodoc(fn)
    loops = [s for s in body if isinstance(s, ast.While)]
    expect(len(loops) == 1 and isinstance(loops[0].test, ast.Constant) and loops[0].test.value is True,
           "_run: expected one `while True:`")
    for s in body:
        expect(isinstance(s, (ast.While, ast.Assert)), "_run: statement outside the loop: " + ast.dump(s)[:60])
    order = []
    ops = {}
    stmts = loops[0].body
    i = 0
    while i < len(stmts):
        st = stmts[i]
        nxt = stmts[i + 1] if i + 1 < len(stmts) else None
        if _is_print_guard(st):
            pass
        elif isinstance(st, ast.Assign) and is_name(st.targets[0], "terminationReason") \
                and _call_name(st.value) == "dynamicScenario._step":
            expect(isinstance(nxt, ast.Assign) and is_name(nxt.targets[0], "terminationType")
                   and _attr_chain(nxt.value) == "TerminationType.scenarioComplete",
                   "_run: terminationType = scenarioComplete after _step()")
            order.append("scen")
            i += 1
        elif isinstance(st, ast.For) and _attr_chain(st.iter) == "self.objects":
            # sensors update / lastActions reset: not observable in the fragment
            txt = ast.dump(st)
            expect("sensors" in txt or "lastActions" in txt, "_run: unknown loop over self.objects")
        elif isinstance(st, ast.Expr) and _call_name(st.value) == "self.recordCurrentState":
            order.append("record")
        elif isinstance(st, ast.Assign) and is_name(st.targets[0], "newReason") \
                and _call_name(st.value) == "dynamicScenario._runMonitors":
            expect(isinstance(nxt, ast.If) and isinstance(nxt.test, ast.Compare) and is_name(nxt.test.left, "newReason")
                   and isinstance(nxt.test.ops[0], ast.IsNot), "_run: if newReason is not None")
            txt = ast.dump(nxt)
            expect("terminatedByMonitor" in txt and "terminationReason" in txt, "_run: monitor reason handling")
            order.append("monitors")
            i += 1
        elif isinstance(st, ast.If) and "Dead" in ast.dump(st.test):
            pass  # display closed by the user: not in the fragment
        elif isinstance(st, ast.If) and isinstance(st.test, ast.Compare) and is_name(st.test.left, "terminationReason") \
                and isinstance(st.test.ops[0], ast.IsNot):
            r = st.body[0]
            expect(isinstance(r, ast.Return) and isinstance(r.value, ast.Tuple) and is_name(r.value.elts[0], "terminationType"),
                   "_run: return terminationType, terminationReason")
            order.append("retPending")
        elif isinstance(st, ast.Assign) and is_name(st.targets[0], "terminationReason") \
                and _call_name(st.value) == "dynamicScenario._checkSimulationTerminationConditions":
            expect(isinstance(nxt, ast.If) and _returns_termtype(nxt, "simulationTerminationCondition"),
                   "_run: return simulationTerminationCondition")
            order.append("termSimWhen")
            i += 1
        elif isinstance(st, ast.If) and isinstance(st.test, ast.BoolOp) and isinstance(st.test.op, ast.And) \
                and is_name(st.test.values[0], "maxSteps"):
            cmp = st.test.values[1]
            expect(isinstance(cmp, ast.Compare) and _attr_chain(cmp.left) == "self.currentTime"
                   and is_name(cmp.comparators[0], "maxSteps") and _returns_termtype(st, "timeLimit"),
                   "_run: maxSteps test")
            ops["opMaxSteps"] = _opname(cmp.ops[0])
            order.append("maxSteps")
        elif isinstance(st, ast.AugAssign) and _attr_chain(st.target) == "self.agents":
            pass
        elif isinstance(st, ast.Assign) and is_name(st.targets[0], "allActions"):
            pass
        elif isinstance(st, ast.Assign) and is_name(st.targets[0], "schedule"):
            expect(_call_name(st.value) == "self.scheduleForAgents", "_run: schedule = self.scheduleForAgents()")
        elif isinstance(st, ast.If) and "schedule" in ast.dump(st.test) and isinstance(st.body[0], ast.Raise):
            pass
        elif isinstance(st, ast.For) and is_name(st.iter, "schedule"):
            _check_behavior_loop(st)
            order.append("behaviors")
        elif isinstance(st, ast.Expr) and _call_name(st.value) == "self.actionSequence.append":
            expect(isinstance(nxt, ast.Expr) and _call_name(nxt.value) == "self.executeActions",
                   "_run: executeActions after actionSequence.append")
            order.append("actions")
            i += 1
        elif isinstance(st, ast.Expr) and _call_name(st.value) == "self.step":
            order.append("simStep")
        elif isinstance(st, ast.AugAssign) and _attr_chain(st.target) == "self.currentTime":
            expect(isinstance(st.op, ast.Add) and isinstance(st.value, ast.Constant) and st.value.value == 1,
                   "_run: currentTime += 1")
            order.append("clock")
        elif isinstance(st, ast.Expr) and _call_name(st.value) == "self.updateObjects":
            order.append("update")
        else:
            raise TemplateMismatch("_run: unrecognised statement: " + ast.unparse(st)[:100])
        i += 1
    expect(sorted(order) == sorted(PHASES), f"_run: phases found {order}")
    return order, ops


def extract_step():
    src, tree = load(SCN)
    fn = get_def(tree, "DynamicScenario._step", SCN)
    order, ops = [], {}
    for st in body_nodoc(fn):
        if isinstance(st, (ast.Import, ast.ImportFrom)):
            continue
        d = ast.dump(st)
        if isinstance(st, ast.Expr) and "super" in d:
            continue
        if isinstance(st, ast.For) and _attr_chain(st.iter) == "self._requirementMonitors":
            expect("RejectSimulationException" in d and "FALSE" in d, "_step: requirement check")
            order.append("requirements")
        elif isinstance(st, ast.If) and "_timeLimitInSteps" in ast.dump(st.test):
            cmps = [n for n in ast.walk(st.test) if isinstance(n, ast.Compare)
                    and _attr_chain(n.left) == "self._elapsedTime"]
            expect(len(cmps) == 1 and _attr_chain(cmps[0].comparators[0]) == "self._timeLimitInSteps",
                   "_step: self._elapsedTime <op> self._timeLimitInSteps")
            expect(isinstance(st.body[0], ast.Return) and _call_name(st.body[0].value) == "self._stop",
                   "_step: time limit returns self._stop(...)")
            ops["opScenarioTimeLimit"] = _opname(cmps[0].ops[0])
            order.append("timeLimit")
        elif isinstance(st, ast.AugAssign) and _attr_chain(st.target) == "self._elapsedTime":
            expect(isinstance(st.op, ast.Add) and isinstance(st.value, ast.Constant) and st.value.value == 1,
                   "_step: _elapsedTime += 1")
            order.append("elapsed")
        elif isinstance(st, ast.Assign) and is_name(st.targets[0], "composeDone"):
            continue
        elif isinstance(st, ast.If) and "_runningIterator" in ast.dump(st.test):
            expect("send" in d and "StopIteration" in d and "_EndSimulationAction" in d and "_EndScenarioAction" in d,
                   "_step: compose block stepping")
            order.append("compose")
        elif isinstance(st, ast.If) and "composeDone" in ast.dump(st.test):
            expect("_compose" in ast.dump(st.test) and _call_name(st.body[0].value) == "self._stop",
                   "_step: stop when the compose block has finished")
            order.append("composeDone")
        elif isinstance(st, ast.If) and "_endWithBehaviors" in ast.dump(st.test):
            continue
        elif isinstance(st, ast.For) and _attr_chain(st.iter) == "self._terminationConditions":
            expect("evaluate" in d and "_stop" in d, "_step: terminate-when loop")
            order.append("terminateWhen")
        elif isinstance(st, ast.Return) and isinstance(st.value, ast.Constant) and st.value.value is None:
            continue
        else:
            raise TemplateMismatch("_step: unrecognised statement: " + ast.unparse(st)[:100])
    # _start: seconds are divided by the timestep
    st_fn = get_def(tree, "DynamicScenario._start", SCN)
    div = any(isinstance(n, ast.AugAssign) and isinstance(n.op, ast.Div)
              and _attr_chain(n.target) == "self._timeLimitInSteps" and is_name(n.value, "timestep")
              for n in ast.walk(st_fn))
    # _addDynamicRequirement: is there a dispatch on the statement kind `ty` that sends the non-temporal
    # kinds (terminate when, terminate simulation when, record …) to `_registerCompiledRequirement`?
    fn = get_def(tree, "DynamicScenario._addDynamicRequirement", SCN)
    body = body_nodoc(fn)
    calls = [_call_name(n) for n in ast.walk(fn) if isinstance(n, ast.Call)]
    expect("self._temporalRequirements.append" in calls, "_addDynamicRequirement: appends to _temporalRequirements")
    dispatch = [n for n in ast.walk(fn) if isinstance(n, ast.If)
                and any(isinstance(x, ast.Name) and x.id == "ty" for x in ast.walk(n.test))]
    unconditional = any(isinstance(n, ast.Expr) and _call_name(n.value) == "self._temporalRequirements.append" for n in body)
    if "self._registerCompiledRequirement" in calls and dispatch and not unconditional:
        dyn = False
    elif "self._registerCompiledRequirement" not in calls and not dispatch and unconditional:
        dyn = True
    else:
        raise TemplateMismatch("_addDynamicRequirement: unknown shape")
    # _runMonitors
    fn = get_def(tree, "DynamicScenario._runMonitors", SCN)
    loops = [n for n in body_nodoc(fn) if isinstance(n, ast.For) and _attr_chain(n.iter) == "self._subScenarios"]
    expect(len(loops) == 1, "_runMonitors: loop over self._subScenarios")
    ifs = [n for n in loops[0].body if isinstance(n, ast.If)]
    expect(len(ifs) == 1, "_runMonitors: one test of subreason")
    t = ifs[0].test
    if isinstance(t, ast.Compare) and is_name(t.left, "subreason") and isinstance(t.ops[0], ast.IsNot):
        prop = True
    elif (isinstance(t, ast.Call) and is_name(t.func, "isinstance") and is_name(t.args[0], "subreason")
          and is_name(t.args[1], "_EndSimulationAction")):
        prop = False
    else:
        raise TemplateMismatch("_runMonitors: unknown test of subreason")
    # the scenario's own endScenario is handled after the sub-scenarios and returned
    last = body_nodoc(fn)[-1]
    expect(isinstance(last, ast.Return) and isinstance(last.value, ast.BoolOp) and isinstance(last.value.op, ast.Or),
           "_runMonitors: return terminationReason or endScenario")
    return order, ops, div, dyn, prop


def extract_for():
    src, tree = load(INV)
    cls = get_def(tree, "Invocable", INV)
    lambdas = [n for n in ast.walk(cls) if isinstance(n, ast.Lambda) and isinstance(n.body, ast.Compare)
               and "startTime" in ast.dump(n.body)]
    expect(len(lambdas) == 1, "Invocable: one time-limit lambda of `do … for`")
    cmp = lambdas[0].body
    expect(isinstance(cmp.left, ast.BinOp) and isinstance(cmp.left.op, ast.Sub)
           and _attr_chain(cmp.left.left) == "veneer.currentSimulation.currentTime"
           and is_name(cmp.left.right, "startTime") and is_name(cmp.comparators[0], "timeLimit"),
           "do-for: currentTime - startTime <op> timeLimit")
    div = [n for n in ast.walk(cls) if isinstance(n, ast.AugAssign) and is_name(n.target, "timeLimit")]
    expect(len(div) == 1 and isinstance(div[0].op, ast.Div)
           and _attr_chain(div[0].value) == "veneer.currentSimulation.timestep",
           "do-for: timeLimit /= timestep")
    start = [n for n in ast.walk(cls) if isinstance(n, ast.Assign) and is_name(n.targets[0], "startTime")]
    expect(len(start) == 1 and _attr_chain(start[0].value) == "veneer.currentSimulation.currentTime",
           "do-for: startTime = currentTime")
    return _opname(cmp.ops[0])


BEH = "src/scenic/core/dynamics/behaviors.py"


def _pos(n):
    return (n.lineno, n.col_offset)


def _ordered(found, what):
    """found: list of (label, node); every label exactly once -> labels in source order"""
    labels = [l for l, _ in found]
    for l in set(labels):
        expect(labels.count(l) == 1, f"{what}: `{l}` occurs {labels.count(l)} times")
    return [l for l, _ in sorted(found, key=lambda x: _pos(x[1]))]


def _calls(fn):
    return [n for n in ast.walk(fn) if isinstance(n, ast.Call)]


def extract_init():
    src, tree = load(SIM)
    fn = get_def(tree, "Simulation.__init__", SIM)
    tries = [n for n in body_nodoc(fn) if isinstance(n, ast.Try)]
    expect(len(tries) == 1 and tries[0].finalbody, "Simulation.__init__: one try/finally")
    body = ast.Module(body=tries[0].body, type_ignores=[])
    want = {"veneer.beginSimulation": "begin", "self.setup": "setup", "dynamicScenario._start": "start",
            "self.updateObjects": "update", "self._run": "run", "scenario._stop": "stopRemaining",
            "dynamicScenario._evaluateRecordedExprs": "recordFinal", "SimulationResult": "result"}
    found = [(want[_call_name(c)], c) for c in _calls(body) if _call_name(c) in want]
    order = _ordered(found, "Simulation.__init__")
    expect(sorted(order) == sorted(want.values()), f"Simulation.__init__: calls found {order}")
    # the remaining scenarios are stopped most recently started first
    loops = [n for n in tries[0].body if isinstance(n, ast.For) and "runningScenarios" in ast.dump(n.iter)]
    expect(len(loops) == 1 and "reversed" in ast.dump(loops[0].iter), "Simulation.__init__: reversed(runningScenarios)")
    rf = [c for c in _calls(body) if _call_name(c) == "dynamicScenario._evaluateRecordedExprs"][0]
    expect(_attr_chain(rf.args[0]) == "RequirementType.recordFinal", "Simulation.__init__: recordFinal")
    return order


def extract_record():
    src, tree = load(SIM)
    fn = get_def(tree, "Simulation.recordCurrentState", SIM)
    found = []
    for c in _calls(fn):
        if _call_name(c) == "dynamicScenario._evaluateRecordedExprs":
            kind = _attr_chain(c.args[0])
            expect(kind in ("RequirementType.recordInitial", "RequirementType.record"), f"recordCurrentState: {kind}")
            found.append(("initial" if kind.endswith("Initial") else "series", c))
        elif _call_name(c) == "self.trajectory.append":
            expect(_call_name(c.args[0]) == "self.currentState", "recordCurrentState: trajectory.append(currentState())")
            found.append(("trajectory", c))
    order = _ordered(found, "recordCurrentState")
    expect(sorted(order) == ["initial", "series", "trajectory"], f"recordCurrentState: found {order}")
    # the initial records are guarded by `step == 0`, nothing else is guarded
    guards = [n for n in body_nodoc(fn) if isinstance(n, ast.If)]
    expect(len(guards) == 1 and isinstance(guards[0].test, ast.Compare) and isinstance(guards[0].test.ops[0], ast.Eq)
           and isinstance(guards[0].test.comparators[0], ast.Constant) and guards[0].test.comparators[0].value == 0
           and "recordInitial" in ast.dump(guards[0]) and "trajectory" not in ast.dump(guards[0])
           and not guards[0].orelse, "recordCurrentState: `if step == 0:` around the initial records only")
    return order


def extract_tree_walks():
    src, tree = load(SCN)
    # _runMonitors: own monitors, sub-scenarios, stop self
    fn = get_def(tree, "DynamicScenario._runMonitors", SCN)
    found = []
    for n in body_nodoc(fn):
        if isinstance(n, ast.For) and _attr_chain(n.iter) == "self._monitors":
            expect(any(_call_name(c) == "monitor._step" for c in _calls(n)), "_runMonitors: monitor._step()")
            found.append(("own", n))
        elif isinstance(n, ast.For) and _attr_chain(n.iter) == "self._subScenarios":
            expect(any(_call_name(c) == "sub._runMonitors" for c in _calls(n)), "_runMonitors: sub._runMonitors()")
            found.append(("subs", n))
        elif isinstance(n, ast.If) and is_name(n.test, "endScenario"):
            expect(_call_name(n.body[0].value) == "self._stop", "_runMonitors: self._stop(endScenario)")
            found.append(("stopSelf", n))
    mon_order = _ordered(found, "_runMonitors")
    expect(sorted(mon_order) == ["own", "stopSelf", "subs"], f"_runMonitors: found {mon_order}")
    # _invokeInner
    fn = get_def(tree, "DynamicScenario._invokeInner", SCN)
    body = body_nodoc(fn)
    found = []
    for n in body:
        if isinstance(n, ast.For) and is_name(n.iter, "subs"):
            names = [_call_name(c) for c in _calls(n)]
            expect("sub._prepare" in names and "sub._start" in names
                   and names.index("sub._prepare") < names.index("sub._start"), "_invokeInner: sub._prepare(); sub._start()")
            found.append(("start", n))
        elif isinstance(n, ast.Assign) and _attr_chain(n.targets[0]) == "self._subScenarios":
            expect(_call_name(n.value) == "list" and is_name(n.value.args[0], "subs"), "_invokeInner: _subScenarios = list(subs)")
            found.append(("assign", n))
        elif isinstance(n, ast.While):
            expect(isinstance(n.test, ast.Constant) and n.test.value is True, "_invokeInner: while True")
            found.append(("loop", n))
    top = _ordered(found, "_invokeInner")
    expect(top == ["start", "assign", "loop"], f"_invokeInner: found {top}")
    loop = [n for n in body if isinstance(n, ast.While)][0]
    found = []
    for n in loop.body:
        d = ast.dump(n)
        if isinstance(n, ast.Assign) and is_name(n.targets[0], "newSubs"):
            found.append(("fresh", n))
        elif isinstance(n, ast.For) and _attr_chain(n.iter) == "self._subScenarios":
            expect(any(_call_name(c) == "sub._step" for c in _calls(n)) and "_EndSimulationAction" in d
                   and any(isinstance(y, ast.Yield) for y in ast.walk(n))
                   and any(_call_name(c) == "newSubs.append" for c in _calls(n)), "_invokeInner: step loop")
            # a sub-scenario is kept exactly when its step returned None
            keep = [t for t in ast.walk(n) if isinstance(t, ast.If) and any(_call_name(c) == "newSubs.append" for c in _calls(ast.Module(body=t.body, type_ignores=[])))]
            expect(keep and isinstance(keep[-1].test, ast.Compare) and isinstance(keep[-1].test.ops[0], ast.Is)
                   and isinstance(keep[-1].test.comparators[0], ast.Constant) and keep[-1].test.comparators[0].value is None,
                   "_invokeInner: newSubs.append(sub) when terminationReason is None")
            found.append(("stepAll", n))
        elif isinstance(n, ast.Assign) and _attr_chain(n.targets[0]) == "self._subScenarios" and is_name(n.value, "newSubs"):
            found.append(("keep", n))
        elif isinstance(n, ast.If) and isinstance(n.test, ast.UnaryOp) and isinstance(n.test.op, ast.Not) \
                and is_name(n.test.operand, "newSubs"):
            expect(isinstance(n.body[0], ast.Return), "_invokeInner: if not newSubs: return")
            found.append(("returnIfNone", n))
        elif isinstance(n, ast.Expr) and isinstance(n.value, ast.Yield):
            expect(isinstance(n.value.value, ast.Constant) and n.value.value.value is None, "_invokeInner: yield None")
            found.append(("yield", n))
        elif isinstance(n, ast.Assign) and _attr_chain(n.targets[0]) == "self._subScenarios" and "_isRunning" in d:
            found.append(("dropStopped", n))
        else:
            raise TemplateMismatch("_invokeInner: unrecognised statement: " + ast.unparse(n)[:100])
    inv_order = top[:2] + _ordered(found, "_invokeInner loop")
    # _stop
    fn = get_def(tree, "DynamicScenario._stop", SCN)
    found = []
    for n in body_nodoc(fn):
        if isinstance(n, ast.For) and _attr_chain(n.iter) == "self._monitors":
            found.append(("monitors", n))
        elif isinstance(n, ast.Assign) and _attr_chain(n.targets[0]) == "self._monitors":
            found.append(("clearMonitors", n))
        elif isinstance(n, ast.For) and _attr_chain(n.iter) == "self._subScenarios":
            expect("_isRunning" in ast.dump(n) and any(_call_name(c) == "sub._stop" for c in _calls(n)),
                   "_stop: stop the running sub-scenarios")
            found.append(("subs", n))
        elif isinstance(n, ast.Assign) and _attr_chain(n.targets[0]) == "self._runningIterator":
            found.append(("iterator", n))
        elif isinstance(n, ast.Expr) and _call_name(n.value) == "veneer.endScenario":
            found.append(("endScenario", n))
    stop_order = _ordered(found, "_stop")
    expect(sorted(stop_order) == sorted(["monitors", "clearMonitors", "subs", "iterator", "endScenario"]),
           f"_stop: found {stop_order}")
    # _checkSimulationTerminationConditions
    fn = get_def(tree, "DynamicScenario._checkSimulationTerminationConditions", SCN)
    loops = [n for n in body_nodoc(fn) if isinstance(n, ast.For)]
    expect(loops and _attr_chain(loops[0].iter) == "self._terminateSimulationConditions",
           "_checkSimulationTerminationConditions: own conditions first")
    subl = [n for n in loops[1:] if _attr_chain(n.iter) == "self._subScenarios"]
    expect(len(loops) == 1 + len(subl) and len(subl) <= 1, "_checkSimulationTerminationConditions: loops")
    ts_rec = bool(subl) and any(_call_name(c) == "sub._checkSimulationTerminationConditions" for c in _calls(subl[0]))
    ts_run = bool(subl) and isinstance(subl[0].body[0], ast.If) and _attr_chain(subl[0].body[0].test) == "sub._isRunning" \
        and len(subl[0].body) == 1
    # _evaluateRecordedExprsAt
    fn = get_def(tree, "DynamicScenario._evaluateRecordedExprsAt", SCN)
    loops = [n for n in body_nodoc(fn) if isinstance(n, ast.For)]
    expect(len(loops) == 2 and "getattr" in ast.dump(loops[0].iter) and _attr_chain(loops[1].iter) == "self._subScenarios"
           and any(_call_name(c) == "sub._evaluateRecordedExprsAt" for c in _calls(loops[1])),
           "_evaluateRecordedExprsAt: own expressions, then the sub-scenarios")
    rec_all = "_isRunning" not in ast.dump(loops[1])
    # Behavior._step: StopIteration -> ()
    src, tree = load(BEH)
    fn = get_def(tree, "Behavior._step", BEH)
    hs = [h for n in ast.walk(fn) if isinstance(n, ast.Try) for h in n.handlers]
    expect(len(hs) == 1 and is_name(hs[0].type, "StopIteration"), "Behavior._step: except StopIteration")
    a = hs[0].body[0]
    beh_empty = isinstance(a, ast.Assign) and is_name(a.targets[0], "actions") and isinstance(a.value, ast.Tuple) \
        and not a.value.elts
    return {"monitorsOrder": mon_order, "invokeOrder": inv_order, "stopOrder": stop_order, "termSimRecurses": ts_rec,
            "termSimRunningOnly": ts_run, "recordAllSubs": rec_all, "behaviorEndIsEmpty": beh_empty}


DOC_KEYS = [
    ("scenarios", r"Execute all currently-running :term:`modular scenarios`"),
    ("record", r"Save the values of all :keyword:`record` statements"),
    ("monitors", r"Run each :term:`monitor`"),
    ("terminationChecks", r"termination flag is set.*terminate simulation when.*time limit"),
    ("behaviors", r"Execute the :term:`dynamic behavior` of each agent"),
    ("actions", r"execute the :term:`actions`"),
    ("simulatorStep", r"Run the simulator for one time step"),
    ("clock", r"Increment the simulation clock"),
    ("update", r"Update every :term:`dynamic property`"),
    ("finish", r"If the simulation is stopping"),
]
DOC_SUB = [
    ("requirements", r":term:`temporal requirements` have already been violated"),
    ("timeLimit", r"scenario's time limit"),
    ("invariants", r"check its invariants"),
    ("compose", r"has a :keyword:`compose` block, run it for one time step"),
    ("stop", r"If the scenario is stopping"),
]


def extract_doc():
    import os
    from vlib.ctx import REPO
    try:
        text = open(os.path.join(REPO, DOC)).read()
    except OSError as e:
        raise TemplateMismatch(f"cannot read {DOC}: {e}")
    items = re.findall(r"^(\d+)\. (.*?)(?=^\d+\. |^\.\. rubric)", text, re.M | re.S)
    expect(len(items) >= 9, f"{DOC}: numbered procedure not found")
    order = []
    for num, body in items:
        flat = " ".join(body.split())
        hit = [k for k, pat in DOC_KEYS if re.search(pat, flat)]
        expect(len(hit) == 1, f"{DOC}: item {num} matches {hit}")
        order.append(hit[0])
    expect([int(n) for n, _ in items] == list(range(1, len(items) + 1)), f"{DOC}: item numbers")
    first = items[0][1]
    subs = re.findall(r"^\t([a-e])\. (.*?)(?=^\t[a-e]\. |\Z)", first, re.M | re.S)
    sub_order = []
    for let, body in subs:
        flat = " ".join(body.split())
        hit = [k for k, pat in DOC_SUB if re.search(pat, flat)]
        expect(len(hit) == 1, f"{DOC}: item 1{let} matches {hit}")
        sub_order.append(hit[0])
    return order, sub_order


def extract():
    run_order, ops = extract_run()
    step_order, ops2, div, dyn, prop = extract_step()
    ops.update(ops2)
    ops["opDoFor"] = extract_for()
    # terminate_after: seconds unless the unit is "steps"
    src, tree = load(VEN)
    fn = get_def(tree, "terminate_after", VEN)
    secs = any(isinstance(n, ast.Assign) and is_name(n.targets[0], "inSeconds") and isinstance(n.value, ast.Compare)
               and isinstance(n.value.ops[0], ast.NotEq) and isinstance(n.value.comparators[0], ast.Constant)
               and n.value.comparators[0].value == "steps" for n in ast.walk(fn))
    doc, doc_sub = extract_doc()
    d = {"runOrder": run_order, "stepOrder": step_order, "docOrder": doc, "docStepOrder": doc_sub, "ops": ops,
         "secondsDivide": bool(div and secs), "dynReqAsTemporal": dyn, "monTermPropagates": prop,
         "initOrder": extract_init(), "recordOrder": extract_record()}
    d.update(extract_tree_walks())
    return d


def _b(x):
    return str(bool(x)).lower()


def _strs(xs):
    return "[" + ", ".join(f'"{x}"' for x in xs) + "]"


def to_lean(d):
    return f"""import ScenicModel.Model.SimLoop
namespace Scenic.Gen
open Scenic.SimLoop

/-- phases of one iteration of `Simulation._run`, in source order (simulators.py) -/
def runOrder : List Phase :=
  [{", ".join("." + p for p in d["runOrder"])}]

/-- checks of `DynamicScenario._step`, in source order (scenarios.py) -/
def stepOrder : List String :=
  {_strs(d["stepOrder"])}

/-- the numbered procedure of docs/reference/dynamic_scenarios.rst, by keyword -/
def docOrder : List String :=
  {_strs(d["docOrder"])}

/-- sub-items (a)-(e) of item 1 of the documented procedure -/
def docStepOrder : List String :=
  {_strs(d["docStepOrder"])}

/-- comparison operators of the time-limit tests -/
def opScenarioTimeLimit : String := "{d["ops"]["opScenarioTimeLimit"]}"   -- self._elapsedTime <op> self._timeLimitInSteps
def opMaxSteps : String := "{d["ops"]["opMaxSteps"]}"            -- self.currentTime <op> maxSteps
def opDoFor : String := "{d["ops"]["opDoFor"]}"               -- currentTime - startTime <op> timeLimit
/-- limits given in seconds are divided by the time step -/
def secondsDivide : Bool := {str(d["secondsDivide"]).lower()}

/-- `_addDynamicRequirement` files every statement kind under the temporal requirements -/
def dynReqAsTemporal : Bool := {str(d["dynReqAsTemporal"]).lower()}
/-- `_runMonitors` hands a sub-scenario monitor's `terminate` up as a termination reason -/
def monTermPropagates : Bool := {str(d["monTermPropagates"]).lower()}

/-- calls of the `try:` body of `Simulation.__init__`, in source order -/
def initOrder : List String :=
  {_strs(d["initOrder"])}

/-- `Simulation.recordCurrentState`, in source order (the initial records are guarded by `step == 0`) -/
def recordOrder : List String :=
  {_strs(d["recordOrder"])}

/-- `DynamicScenario._runMonitors`, in source order -/
def monitorsOrder : List String :=
  {_strs(d["monitorsOrder"])}

/-- `DynamicScenario._invokeInner`, in source order -/
def invokeOrder : List String :=
  {_strs(d["invokeOrder"])}

/-- `DynamicScenario._stop`, in source order -/
def stopOrder : List String :=
  {_strs(d["stopOrder"])}

/-- `_checkSimulationTerminationConditions` also asks the sub-scenarios / only the running ones -/
def termSimRecurses : Bool := {_b(d["termSimRecurses"])}
def termSimRunningOnly : Bool := {_b(d["termSimRunningOnly"])}
/-- `_evaluateRecordedExprsAt` asks every scenario of `_subScenarios`, running or not -/
def recordAllSubs : Bool := {_b(d["recordAllSubs"])}
/-- `Behavior._step`: a behavior that has ended yields the empty action tuple -/
def behaviorEndIsEmpty : Bool := {_b(d["behaviorEndIsEmpty"])}

def sem : Sem := ⟨runOrder⟩
end Scenic.Gen
"""
