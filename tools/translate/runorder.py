"""simulators.py `Simulation._run`, dynamics/scenarios.py `DynamicScenario._step/_runMonitors/
_addDynamicRequirement/_start`, dynamics/invocables.py `_invokeSubBehavior`, veneer.py `terminate_after`,
docs/reference/dynamic_scenarios.rst   ->   Gen/RunOrder.lean

What is extracted (data only):

* `runOrder`   the phases of one iteration of `_run`, in source order.  Every statement of the
               `while True:` body must be recognised (white list below); an unknown statement,
               a missing one or a duplicated one is a TemplateMismatch.  Re-ordering recognised
               statements is *not* a mismatch: the new order is extracted and the model executes it.
* `stepOrder`  the checks of `DynamicScenario._step`, in source order.
* `docOrder`, `docStepOrder`   the numbered procedure of the reference page, by keyword.
* the comparison operators of the three time-limit tests and whether durations in seconds are
  divided by the time step.
* `dynReqAsTemporal`   shape of `_addDynamicRequirement` (appends everything to `_temporalRequirements`
               vs. dispatches non-temporal kinds to `_registerCompiledRequirement`).
* `monTermPropagates`  shape of the sub-scenario loop of `_runMonitors` (`is not None` vs.
               `isinstance(…, _EndSimulationAction)`).
"""
import ast
import re

from translate.astutil import TemplateMismatch, body_nodoc, expect, get_def, is_name, load

SIM = "src/scenic/core/simulators.py"
SCN = "src/scenic/core/dynamics/scenarios.py"
INV = "src/scenic/core/dynamics/invocables.py"
VEN = "src/scenic/syntax/veneer.py"
DOC = "docs/reference/dynamic_scenarios.rst"

PHASES = ["scen", "record", "monitors", "retPending", "termSimWhen", "maxSteps", "behaviors", "actions",
          "simStep", "clock", "update"]


def _attr_chain(node):
    """self.a.b -> 'self.a.b'"""
    parts = []
    while isinstance(node, ast.Attribute):
        parts.append(node.attr)
        node = node.value
    if isinstance(node, ast.Name):
        parts.append(node.id)
        return ".".join(reversed(parts))
    return None


def _call_name(node):
    if isinstance(node, ast.Call):
        return _attr_chain(node.func)
    return None


def _is_print_guard(st):
    return (isinstance(st, ast.If) and isinstance(st.test, ast.Compare)
            and _attr_chain(st.test.left) == "self.verbosity")


def _opname(op):
    return type(op).__name__


def _returns_termtype(st, name):
    """`return TerminationType.<name>, …` somewhere directly in the body of `st`"""
    for n in st.body:
        if isinstance(n, ast.Return) and isinstance(n.value, ast.Tuple) and n.value.elts:
            if _attr_chain(n.value.elts[0]) == f"TerminationType.{name}":
                return True
    return False


def _check_behavior_loop(loop):
    """the body of `for agent in schedule:` must still have the documented shape"""
    expect(is_name(loop.target, "agent") and is_name(loop.iter, "schedule"), "_run: `for agent in schedule`")
    body = loop.body
    # if not agent.behavior: continue
    expect(isinstance(body[0], ast.If) and isinstance(body[0].body[0], ast.Continue), "_run: skip of agents without behavior")
    # actions = agent.behavior._step()
    expect(isinstance(body[1], ast.Assign) and _call_name(body[1].value) == "agent.behavior._step",
           "_run: actions = agent.behavior._step()")
    br = body[2]
    expect(isinstance(br, ast.If) and isinstance(br.test, ast.Call) and is_name(br.test.func, "isinstance")
           and is_name(br.test.args[1], "_EndSimulationAction") and _returns_termtype(br, "terminatedByBehavior"),
           "_run: `terminate simulation` in a behavior returns terminatedByBehavior at once")
    expect(len(br.orelse) == 1 and isinstance(br.orelse[0], ast.If), "_run: elif _EndScenarioAction")
    es = br.orelse[0]
    expect(is_name(es.test.args[1], "_EndScenarioAction"), "_run: elif isinstance(actions, _EndScenarioAction)")
    kinds = []
    for n in es.body:
        if isinstance(n, ast.Assign) and is_name(n.targets[0], "scenario"):
            kinds.append("scenario=")
        elif isinstance(n, ast.If) and (_attr_chain(n.test) == "scenario._isRunning" or (
                isinstance(n.test, ast.BoolOp) and isinstance(n.test.op, ast.And)
                and _attr_chain(n.test.values[-1]) == "scenario._isRunning"
                and all(isinstance(v, ast.Compare) and is_name(v.left, "scenario") and isinstance(v.ops[0], ast.IsNot)
                        for v in n.test.values[:-1]))):
            expect(_call_name(n.body[0].value) == "scenario._stop", "_run: scenario._stop(actions)")
            kinds.append("stop")
        elif (isinstance(n, ast.If) and isinstance(n.test, ast.Compare) and isinstance(n.test.ops[0], ast.Is)
              and is_name(n.test.left, "scenario") and is_name(n.test.comparators[0], "dynamicScenario")):
            expect(_returns_termtype(n, "terminatedByBehavior"), "_run: top-level terminate returns")
            kinds.append("top")
        elif isinstance(n, ast.Assign) and is_name(n.targets[0], "actions"):
            expect(isinstance(n.value, ast.Tuple) and not n.value.elts, "_run: actions = ()")
            kinds.append("actions=()")
        else:
            raise TemplateMismatch("_run: unknown statement in the _EndScenarioAction branch: " + ast.dump(n)[:80])
    expect(kinds == ["scenario=", "stop", "top", "actions=()"], f"_run: _EndScenarioAction branch is {kinds}")
    # allActions[agent] = actions must follow
    assigned = any(isinstance(n, ast.Assign) and isinstance(n.targets[0], ast.Subscript)
                   and is_name(n.targets[0].value, "allActions") for n in body[3:])
    expect(assigned, "_run: allActions[agent] = actions")


def extract_run():
    src, tree = load(SIM)
    fn = get_def(tree, "Simulation._run", SIM)
    body = body_nodoc(fn)
    loops = [s for s in body if isinstance(s, ast.While)]
    expect(len(loops) == 1 and isinstance(loops[0].test, ast.Constant) and loops[0].test.value is True,
           "_run: expected one `while True:`")
    for s in body:
        expect(isinstance(s, (ast.While, ast.Assert)), "_run: statement outside the loop: " + ast.dump(s)[:60])
    order = []
    ops = {}
    stmts = loops[0].body
    i = 0
    while i < len(stmts):
        st = stmts[i]
        nxt = stmts[i + 1] if i + 1 < len(stmts) else None
        if _is_print_guard(st):
            pass
        elif isinstance(st, ast.Assign) and is_name(st.targets[0], "terminationReason") \
                and _call_name(st.value) == "dynamicScenario._step":
            expect(isinstance(nxt, ast.Assign) and is_name(nxt.targets[0], "terminationType")
                   and _attr_chain(nxt.value) == "TerminationType.scenarioComplete",
                   "_run: terminationType = scenarioComplete after _step()")
            order.append("scen")
            i += 1
        elif isinstance(st, ast.For) and _attr_chain(st.iter) == "self.objects":
            # sensors update / lastActions reset: not observable in the fragment
            txt = ast.dump(st)
            expect("sensors" in txt or "lastActions" in txt, "_run: unknown loop over self.objects")
        elif isinstance(st, ast.Expr) and _call_name(st.value) == "self.recordCurrentState":
            order.append("record")
        elif isinstance(st, ast.Assign) and is_name(st.targets[0], "newReason") \
                and _call_name(st.value) == "dynamicScenario._runMonitors":
            expect(isinstance(nxt, ast.If) and isinstance(nxt.test, ast.Compare) and is_name(nxt.test.left, "newReason")
                   and isinstance(nxt.test.ops[0], ast.IsNot), "_run: if newReason is not None")
            txt = ast.dump(nxt)
            expect("terminatedByMonitor" in txt and "terminationReason" in txt, "_run: monitor reason handling")
            order.append("monitors")
            i += 1
        elif isinstance(st, ast.If) and "Dead" in ast.dump(st.test):
            pass  # display closed by the user: not in the fragment
        elif isinstance(st, ast.If) and isinstance(st.test, ast.Compare) and is_name(st.test.left, "terminationReason") \
                and isinstance(st.test.ops[0], ast.IsNot):
            r = st.body[0]
            expect(isinstance(r, ast.Return) and isinstance(r.value, ast.Tuple) and is_name(r.value.elts[0], "terminationType"),
                   "_run: return terminationType, terminationReason")
            order.append("retPending")
        elif isinstance(st, ast.Assign) and is_name(st.targets[0], "terminationReason") \
                and _call_name(st.value) == "dynamicScenario._checkSimulationTerminationConditions":
            expect(isinstance(nxt, ast.If) and _returns_termtype(nxt, "simulationTerminationCondition"),
                   "_run: return simulationTerminationCondition")
            order.append("termSimWhen")
            i += 1
        elif isinstance(st, ast.If) and isinstance(st.test, ast.BoolOp) and isinstance(st.test.op, ast.And) \
                and is_name(st.test.values[0], "maxSteps"):
            cmp = st.test.values[1]
            expect(isinstance(cmp, ast.Compare) and _attr_chain(cmp.left) == "self.currentTime"
                   and is_name(cmp.comparators[0], "maxSteps") and _returns_termtype(st, "timeLimit"),
                   "_run: maxSteps test")
            ops["opMaxSteps"] = _opname(cmp.ops[0])
            order.append("maxSteps")
        elif isinstance(st, ast.AugAssign) and _attr_chain(st.target) == "self.agents":
            pass
        elif isinstance(st, ast.Assign) and is_name(st.targets[0], "allActions"):
            pass
        elif isinstance(st, ast.Assign) and is_name(st.targets[0], "schedule"):
            expect(_call_name(st.value) == "self.scheduleForAgents", "_run: schedule = self.scheduleForAgents()")
        elif isinstance(st, ast.If) and "schedule" in ast.dump(st.test) and isinstance(st.body[0], ast.Raise):
            pass
        elif isinstance(st, ast.For) and is_name(st.iter, "schedule"):
            _check_behavior_loop(st)
            order.append("behaviors")
        elif isinstance(st, ast.Expr) and _call_name(st.value) == "self.actionSequence.append":
            expect(isinstance(nxt, ast.Expr) and _call_name(nxt.value) == "self.executeActions",
                   "_run: executeActions after actionSequence.append")
            order.append("actions")
            i += 1
        elif isinstance(st, ast.Expr) and _call_name(st.value) == "self.step":
            order.append("simStep")
        elif isinstance(st, ast.AugAssign) and _attr_chain(st.target) == "self.currentTime":
            expect(isinstance(st.op, ast.Add) and isinstance(st.value, ast.Constant) and st.value.value == 1,
                   "_run: currentTime += 1")
            order.append("clock")
        elif isinstance(st, ast.Expr) and _call_name(st.value) == "self.updateObjects":
            order.append("update")
        else:
            raise TemplateMismatch("_run: unrecognised statement: " + ast.unparse(st)[:100])
        i += 1
    expect(sorted(order) == sorted(PHASES), f"_run: phases found {order}")
    return order, ops


def extract_step():
    src, tree = load(SCN)
    fn = get_def(tree, "DynamicScenario._step", SCN)
    order, ops = [], {}
    for st in body_nodoc(fn):
        if isinstance(st, (ast.Import, ast.ImportFrom)):
            continue
        d = ast.dump(st)
        if isinstance(st, ast.Expr) and "super" in d:
            continue
        if isinstance(st, ast.For) and _attr_chain(st.iter) == "self._requirementMonitors":
            expect("RejectSimulationException" in d and "FALSE" in d, "_step: requirement check")
            order.append("requirements")
        elif isinstance(st, ast.If) and "_timeLimitInSteps" in ast.dump(st.test):
            cmps = [n for n in ast.walk(st.test) if isinstance(n, ast.Compare)
                    and _attr_chain(n.left) == "self._elapsedTime"]
            expect(len(cmps) == 1 and _attr_chain(cmps[0].comparators[0]) == "self._timeLimitInSteps",
                   "_step: self._elapsedTime <op> self._timeLimitInSteps")
            expect(isinstance(st.body[0], ast.Return) and _call_name(st.body[0].value) == "self._stop",
                   "_step: time limit returns self._stop(...)")
            ops["opScenarioTimeLimit"] = _opname(cmps[0].ops[0])
            order.append("timeLimit")
        elif isinstance(st, ast.AugAssign) and _attr_chain(st.target) == "self._elapsedTime":
            expect(isinstance(st.op, ast.Add) and isinstance(st.value, ast.Constant) and st.value.value == 1,
                   "_step: _elapsedTime += 1")
            order.append("elapsed")
        elif isinstance(st, ast.Assign) and is_name(st.targets[0], "composeDone"):
            continue
        elif isinstance(st, ast.If) and "_runningIterator" in ast.dump(st.test):
            expect("send" in d and "StopIteration" in d and "_EndSimulationAction" in d and "_EndScenarioAction" in d,
                   "_step: compose block stepping")
            order.append("compose")
        elif isinstance(st, ast.If) and "composeDone" in ast.dump(st.test):
            expect("_compose" in ast.dump(st.test) and _call_name(st.body[0].value) == "self._stop",
                   "_step: stop when the compose block has finished")
            order.append("composeDone")
        elif isinstance(st, ast.If) and "_endWithBehaviors" in ast.dump(st.test):
            continue
        elif isinstance(st, ast.For) and _attr_chain(st.iter) == "self._terminationConditions":
            expect("evaluate" in d and "_stop" in d, "_step: terminate-when loop")
            order.append("terminateWhen")
        elif isinstance(st, ast.Return) and isinstance(st.value, ast.Constant) and st.value.value is None:
            continue
        else:
            raise TemplateMismatch("_step: unrecognised statement: " + ast.unparse(st)[:100])
    # _start: seconds are divided by the timestep
    st_fn = get_def(tree, "DynamicScenario._start", SCN)
    div = any(isinstance(n, ast.AugAssign) and isinstance(n.op, ast.Div)
              and _attr_chain(n.target) == "self._timeLimitInSteps" and is_name(n.value, "timestep")
              for n in ast.walk(st_fn))
    # _addDynamicRequirement: is there a dispatch on the statement kind `ty` that sends the non-temporal
    # kinds (terminate when, terminate simulation when, record …) to `_registerCompiledRequirement`?
    fn = get_def(tree, "DynamicScenario._addDynamicRequirement", SCN)
    body = body_nodoc(fn)
    calls = [_call_name(n) for n in ast.walk(fn) if isinstance(n, ast.Call)]
    expect("self._temporalRequirements.append" in calls, "_addDynamicRequirement: appends to _temporalRequirements")
    dispatch = [n for n in ast.walk(fn) if isinstance(n, ast.If)
                and any(isinstance(x, ast.Name) and x.id == "ty" for x in ast.walk(n.test))]
    unconditional = any(isinstance(n, ast.Expr) and _call_name(n.value) == "self._temporalRequirements.append" for n in body)
    if "self._registerCompiledRequirement" in calls and dispatch and not unconditional:
        dyn = False
    elif "self._registerCompiledRequirement" not in calls and not dispatch and unconditional:
        dyn = True
    else:
        raise TemplateMismatch("_addDynamicRequirement: unknown shape")
    # _runMonitors
    fn = get_def(tree, "DynamicScenario._runMonitors", SCN)
    loops = [n for n in body_nodoc(fn) if isinstance(n, ast.For) and _attr_chain(n.iter) == "self._subScenarios"]
    expect(len(loops) == 1, "_runMonitors: loop over self._subScenarios")
    ifs = [n for n in loops[0].body if isinstance(n, ast.If)]
    expect(len(ifs) == 1, "_runMonitors: one test of subreason")
    t = ifs[0].test
    if isinstance(t, ast.Compare) and is_name(t.left, "subreason") and isinstance(t.ops[0], ast.IsNot):
        prop = True
    elif (isinstance(t, ast.Call) and is_name(t.func, "isinstance") and is_name(t.args[0], "subreason")
          and is_name(t.args[1], "_EndSimulationAction")):
        prop = False
    else:
        raise TemplateMismatch("_runMonitors: unknown test of subreason")
    # the scenario's own endScenario is handled after the sub-scenarios and returned
    last = body_nodoc(fn)[-1]
    expect(isinstance(last, ast.Return) and isinstance(last.value, ast.BoolOp) and isinstance(last.value.op, ast.Or),
           "_runMonitors: return terminationReason or endScenario")
    return order, ops, div, dyn, prop


def extract_for():
    src, tree = load(INV)
    cls = get_def(tree, "Invocable", INV)
    lambdas = [n for n in ast.walk(cls) if isinstance(n, ast.Lambda) and isinstance(n.body, ast.Compare)
               and "startTime" in ast.dump(n.body)]
    expect(len(lambdas) == 1, "Invocable: one time-limit lambda of `do … for`")
    cmp = lambdas[0].body
    expect(isinstance(cmp.left, ast.BinOp) and isinstance(cmp.left.op, ast.Sub)
           and _attr_chain(cmp.left.left) == "veneer.currentSimulation.currentTime"
           and is_name(cmp.left.right, "startTime") and is_name(cmp.comparators[0], "timeLimit"),
           "do-for: currentTime - startTime <op> timeLimit")
    div = [n for n in ast.walk(cls) if isinstance(n, ast.AugAssign) and is_name(n.target, "timeLimit")]
    expect(len(div) == 1 and isinstance(div[0].op, ast.Div)
           and _attr_chain(div[0].value) == "veneer.currentSimulation.timestep",
           "do-for: timeLimit /= timestep")
    start = [n for n in ast.walk(cls) if isinstance(n, ast.Assign) and is_name(n.targets[0], "startTime")]
    expect(len(start) == 1 and _attr_chain(start[0].value) == "veneer.currentSimulation.currentTime",
           "do-for: startTime = currentTime")
    return _opname(cmp.ops[0])


DOC_KEYS = [
    ("scenarios", r"Execute all currently-running :term:`modular scenarios`"),
    ("record", r"Save the values of all :keyword:`record` statements"),
    ("monitors", r"Run each :term:`monitor`"),
    ("terminationChecks", r"termination flag is set.*terminate simulation when.*time limit"),
    ("behaviors", r"Execute the :term:`dynamic behavior` of each agent"),
    ("actions", r"execute the :term:`actions`"),
    ("simulatorStep", r"Run the simulator for one time step"),
    ("clock", r"Increment the simulation clock"),
    ("update", r"Update every :term:`dynamic property`"),
    ("finish", r"If the simulation is stopping"),
]
DOC_SUB = [
    ("requirements", r":term:`temporal requirements` have already been violated"),
    ("timeLimit", r"scenario's time limit"),
    ("invariants", r"check its invariants"),
    ("compose", r"has a :keyword:`compose` block, run it for one time step"),
    ("stop", r"If the scenario is stopping"),
]


def extract_doc():
    import os
    from vlib.ctx import REPO
    try:
        text = open(os.path.join(REPO, DOC)).read()
    except OSError as e:
        raise TemplateMismatch(f"cannot read {DOC}: {e}")
    items = re.findall(r"^(\d+)\. (.*?)(?=^\d+\. |^\.\. rubric)", text, re.M | re.S)
    expect(len(items) >= 9, f"{DOC}: numbered procedure not found")
    order = []
    for num, body in items:
        flat = " ".join(body.split())
        hit = [k for k, pat in DOC_KEYS if re.search(pat, flat)]
        expect(len(hit) == 1, f"{DOC}: item {num} matches {hit}")
        order.append(hit[0])
    expect([int(n) for n, _ in items] == list(range(1, len(items) + 1)), f"{DOC}: item numbers")
    first = items[0][1]
    subs = re.findall(r"^\t([a-e])\. (.*?)(?=^\t[a-e]\. |\Z)", first, re.M | re.S)
    sub_order = []
    for let, body in subs:
        flat = " ".join(body.split())
        hit = [k for k, pat in DOC_SUB if re.search(pat, flat)]
        expect(len(hit) == 1, f"{DOC}: item 1{let} matches {hit}")
        sub_order.append(hit[0])
    return order, sub_order


def extract():
    run_order, ops = extract_run()
    step_order, ops2, div, dyn, prop = extract_step()
    ops.update(ops2)
    ops["opDoFor"] = extract_for()
    # terminate_after: seconds unless the unit is "steps"
    src, tree = load(VEN)
    fn = get_def(tree, "terminate_after", VEN)
    secs = any(isinstance(n, ast.Assign) and is_name(n.targets[0], "inSeconds") and isinstance(n.value, ast.Compare)
               and isinstance(n.value.ops[0], ast.NotEq) and isinstance(n.value.comparators[0], ast.Constant)
               and n.value.comparators[0].value == "steps" for n in ast.walk(fn))
    doc, doc_sub = extract_doc()
    return {"runOrder": run_order, "stepOrder": step_order, "docOrder": doc, "docStepOrder": doc_sub, "ops": ops,
            "secondsDivide": bool(div and secs), "dynReqAsTemporal": dyn, "monTermPropagates": prop}


def _strs(xs):
    return "[" + ", ".join(f'"{x}"' for x in xs) + "]"


def to_lean(d):
    return f"""import ScenicModel.Model.SimLoop
namespace Scenic.Gen
open Scenic.SimLoop

/-- phases of one iteration of `Simulation._run`, in source order (simulators.py) -/
def runOrder : List Phase :=
  [{", ".join("." + p for p in d["runOrder"])}]

/-- checks of `DynamicScenario._step`, in source order (scenarios.py) -/
def stepOrder : List String :=
  {_strs(d["stepOrder"])}

/-- the numbered procedure of docs/reference/dynamic_scenarios.rst, by keyword -/
def docOrder : List String :=
  {_strs(d["docOrder"])}

/-- sub-items (a)-(e) of item 1 of the documented procedure -/
def docStepOrder : List String :=
  {_strs(d["docStepOrder"])}

/-- comparison operators of the time-limit tests -/
def opScenarioTimeLimit : String := "{d["ops"]["opScenarioTimeLimit"]}"   -- self._elapsedTime <op> self._timeLimitInSteps
def opMaxSteps : String := "{d["ops"]["opMaxSteps"]}"            -- self.currentTime <op> maxSteps
def opDoFor : String := "{d["ops"]["opDoFor"]}"               -- currentTime - startTime <op> timeLimit
/-- limits given in seconds are divided by the time step -/
def secondsDivide : Bool := {str(d["secondsDivide"]).lower()}

/-- `_addDynamicRequirement` files every statement kind under the temporal requirements -/
def dynReqAsTemporal : Bool := {str(d["dynReqAsTemporal"]).lower()}
/-- `_runMonitors` hands a sub-scenario monitor's `terminate` up as a termination reason -/
def monTermPropagates : Bool := {str(d["monTermPropagates"]).lower()}

def sem : Sem := ⟨runOrder, dynReqAsTemporal, monTermPropagates⟩
end Scenic.Gen
"""
