"""C05: distributions.py / vectors.py / geometry.py -> Gen/ExprTables.lean

Extracted (template matching on the AST; anything unexpected raises TemplateMismatch):
  * the identity simplifications of `makeOperatorHandler` (operator, constant, type guard);
  * `allowedOperators`, `allowedReversibleOperators`;
  * the Vector operators installed on VectorDistribution by `vectorOperator` & friends, with their
    zeroIdentity / preservesZero flags, and the shape of the zero test in `makeVectorOperatorHandler`;
  * whether `OperatorDistribution.sampleGiven` treats a missing attribute like NotImplemented;
  * the functions declared `monotonicDistributionFunction` in geometry.py;
  * `distributionMethod(identity=...)` uses.
"""
import ast

from translate.astutil import TemplateMismatch, body_nodoc, expect, get_def, is_name, load

DIST = "src/scenic/core/distributions.py"
VECT = "src/scenic/core/vectors.py"
GEOM = "src/scenic/core/geometry.py"

BINOPS = ["add", "sub", "mul", "truediv", "floordiv", "mod", "pow"]


def _str_tuple(node, what):
    expect(isinstance(node, (ast.Tuple, ast.List)), f"{what}: expected a tuple of names")
    out = []
    for e in node.elts:
        expect(isinstance(e, ast.Constant) and isinstance(e.value, str), f"{what}: non-string element")
        out.append(e.value)
    return out


def _is_call(node, name, nargs=None):
    return (isinstance(node, ast.Call) and is_name(node.func, name) and (nargs is None or len(node.args) == nargs))


def _conjuncts(test):
    if isinstance(test, ast.BoolOp) and isinstance(test.op, ast.And):
        out = []
        for v in test.values:
            out += _conjuncts(v)
        return out
    return [test]


def _classify_conjunct(c):
    """-> ('notlazy',) | ('type', 'Number'|'Orientation') | ('eq', int|'globalOrientation')"""
    if isinstance(c, ast.UnaryOp) and isinstance(c.op, ast.Not) and _is_call(c.operand, "isLazy", 1) and is_name(c.operand.args[0], "arg"):
        return ("notlazy",)
    if _is_call(c, "issubclass", 2):
        a, b = c.args
        expect(isinstance(a, ast.Attribute) and a.attr == "_valueType" and is_name(a.value, "self"),
               "issubclass first argument is not self._valueType")
        if isinstance(b, ast.Attribute) and b.attr == "Number" and is_name(b.value, "numbers"):
            return ("type", "Number")
        if is_name(b, "Orientation"):
            return ("type", "Orientation")
        raise TemplateMismatch("issubclass against an unknown type: " + ast.dump(b)[:60])
    if isinstance(c, ast.Compare) and len(c.ops) == 1 and isinstance(c.ops[0], ast.Eq) and is_name(c.left, "arg"):
        r = c.comparators[0]
        if isinstance(r, ast.Constant) and isinstance(r.value, int) and not isinstance(r.value, bool):
            return ("eq", r.value)
        if is_name(r, "globalOrientation"):
            return ("eq", "globalOrientation")
        raise TemplateMismatch("identity constant is not an int literal / globalOrientation")
    raise TemplateMismatch("unexpected condition in a simplification: " + ast.dump(c)[:80])


def _return_self_sites(stmts, outer):
    """all `if <cond>: return self` sites (conditions accumulated through enclosing ifs)"""
    sites = []
    for st in stmts:
        if isinstance(st, ast.If):
            conds = outer + _conjuncts(st.test)
            if len(st.body) == 1 and isinstance(st.body[0], ast.Return) and is_name(st.body[0].value, "self"):
                expect(not st.orelse, "simplification with an else branch")
                sites.append(conds)
            else:
                sites += _return_self_sites(st.body, conds)
                expect(not st.orelse, "unexpected else in an operator handler")
        elif isinstance(st, (ast.ImportFrom, ast.Import)):
            continue
        elif isinstance(st, ast.Return):
            continue
        else:
            raise TemplateMismatch("unexpected statement in an operator handler: " + type(st).__name__)
    return sites


def _check_general_return(handler, star):
    last = handler.body[-1]
    expect(isinstance(last, ast.Return) and _is_call(last.value, "OperatorDistribution"), "handler does not end in OperatorDistribution(...)")
    call = last.value
    expect(len(call.args) == 4 and is_name(call.args[0], "op") and is_name(call.args[1], "self"), "OperatorDistribution(op, self, ...)")
    a2 = call.args[2]
    if star:
        expect(is_name(a2, "args"), "general handler passes args")
    else:
        expect(isinstance(a2, ast.Tuple) and len(a2.elts) == 1 and is_name(a2.elts[0], "arg"), "handler passes (arg,)")
    expect(isinstance(call.args[3], ast.Dict) and not call.args[3].keys, "handler passes {} kwoperands")
    expect(len(call.keywords) == 1 and call.keywords[0].arg == "valueType" and is_name(call.keywords[0].value, "ty"), "valueType=ty")


def extract_handlers(tree):
    fn = get_def(tree, "makeOperatorHandler", DIST)
    body = body_nodoc(fn)
    expect(len(body) == 2 and isinstance(body[0], ast.If) and isinstance(body[1], ast.Return) and is_name(body[1].value, "handler"),
           "makeOperatorHandler: expected an if-chain followed by `return handler`")
    entries = []   # (dunder, guard type, const)
    node = body[0]
    seen = set()
    while True:
        test = node.test
        expect(isinstance(test, ast.Compare) and is_name(test.left, "op") and len(test.ops) == 1 and isinstance(test.ops[0], ast.In),
               "makeOperatorHandler: branch test is not `op in (...)`")
        names = _str_tuple(test.comparators[0], "makeOperatorHandler branch")
        expect(len(node.body) == 1 and isinstance(node.body[0], ast.FunctionDef) and node.body[0].name == "handler", "branch does not define handler")
        h = node.body[0]
        argnames = [a.arg for a in h.args.args]
        expect(argnames == ["self", "arg"] and h.args.vararg is None, "special-case handler signature is not (self, arg)")
        _check_general_return(h, star=False)
        for conds in _return_self_sites(h.body, []):
            kinds = [_classify_conjunct(c) for c in conds]
            expect(("notlazy",) in kinds, "simplification not guarded by `not isLazy(arg)`")
            tys = [k[1] for k in kinds if k[0] == "type"]
            eqs = [k[1] for k in kinds if k[0] == "eq"]
            expect(len(tys) == 1 and len(eqs) == 1 and len(kinds) == 3, "simplification guard is not (not lazy, type, == const)")
            for n in names:
                expect(n not in seen or True, "")
                entries.append((n, tys[0], eqs[0]))
        seen.update(names)
        if len(node.orelse) == 1 and isinstance(node.orelse[0], ast.If):
            node = node.orelse[0]
            continue
        # the general case
        expect(len(node.orelse) == 1 and isinstance(node.orelse[0], ast.FunctionDef), "general handler missing")
        g = node.orelse[0]
        expect([a.arg for a in g.args.args] == ["self"] and g.args.vararg is not None and g.args.vararg.arg == "args",
               "general handler signature is not (self, *args)")
        expect(len(g.body) == 1, "general handler has extra statements")
        _check_general_return(g, star=True)
        break
    return entries


def extract_operator_lists(tree):
    allowed, rev = None, None
    for st in tree.body:
        if isinstance(st, ast.Assign) and len(st.targets) == 1 and isinstance(st.targets[0], ast.Name):
            if st.targets[0].id == "allowedOperators":
                expect(isinstance(st.value, ast.Tuple), "allowedOperators is not a tuple")
                allowed = []
                for e in st.value.elts:
                    if isinstance(e, ast.Constant) and isinstance(e.value, str):
                        allowed.append((e.value, None))
                    elif isinstance(e, ast.Tuple) and len(e.elts) == 2 and isinstance(e.elts[0], ast.Constant) and isinstance(e.elts[1], ast.Name):
                        allowed.append((e.elts[0].value, e.elts[1].id))
                    else:
                        raise TemplateMismatch("allowedOperators: unexpected element")
            elif st.targets[0].id == "allowedReversibleOperators":
                expect(isinstance(st.value, ast.Dict), "allowedReversibleOperators is not a dict")
                rev = []
                for k, v in zip(st.value.keys, st.value.values):
                    expect(isinstance(k, ast.Constant) and isinstance(v, ast.Constant), "allowedReversibleOperators: non-literal entry")
                    rev.append((k.value, v.value))
    expect(allowed is not None and rev is not None, "operator lists not found")
    # installation loop: setattr(Distribution, op, makeOperatorHandler(op, ty)) for both lists
    n_setattr = 0
    for st in tree.body:
        if isinstance(st, ast.For):
            for sub in ast.walk(st):
                if _is_call(sub, "setattr", 3) and is_name(sub.args[0], "Distribution") and _is_call(sub.args[2], "makeOperatorHandler"):
                    n_setattr += 1
    expect(n_setattr == 2, "operator handlers are not installed by the two expected loops")
    return allowed, rev


OPERATOR_FUNCTIONS = {"+": "operator.add", "-": "operator.sub", "*": "operator.mul", "/": "operator.truediv",
                      "//": "operator.floordiv", "%": "operator.mod", "divmod()": "divmod", "**": "operator.pow"}


def extract_sample_given(tree):
    """-> True if binary operators are applied to the sampled operands with operator.add & co. (Python's own
    dispatch), False for the getattr / NotImplemented emulation."""
    fn = get_def(tree, "OperatorDistribution.sampleGiven", DIST)
    body = body_nodoc(fn)
    heads = [ast.unparse(s) for s in body[:3]]
    expect(heads == ["first = value[self.object]", "rest = [value[child] for child in self.operands]",
                     "kwargs = {key: value[child] for key, child in self.kwoperands.items()}"], "sampleGiven: prologue changed")
    rest = body[3:]
    getattrs = [n for n in ast.walk(fn) if _is_call(n, "getattr")]
    if len(getattrs) == 2:
        want = [
            "op = getattr(first, self.operator)",
            "result = op(*rest, **kwargs)",
            "if result is NotImplemented and self.reverse:\n    assert len(rest) == 1 and len(kwargs) == 0\n    rop = getattr(rest[0], self.reverse)\n    result = rop(first)",
        ]
        got = [ast.unparse(s) for s in rest]
        expect(len(got) == 5 and got[:3] == want and got[3].startswith("if result is NotImplemented and self.symbol:\n    raise TypeError(")
               and got[4] == "return result", "sampleGiven: the getattr/NotImplemented emulation changed shape")
        return False
    if len(getattrs) == 1:
        got = [ast.unparse(s) for s in rest]
        want_if = ("if self.symbol:\n    assert len(rest) == 1 and len(kwargs) == 0\n    function = binaryOperatorFunctions[self.symbol]\n"
                   "    if self.operator.startswith('__r'):\n        return function(rest[0], first)\n    return function(first, rest[0])")
        expect(got == [want_if, "op = getattr(first, self.operator)", "return op(*rest, **kwargs)"], "sampleGiven: operator-function form changed shape")
        table = None
        for st in tree.body:
            if isinstance(st, ast.Assign) and len(st.targets) == 1 and is_name(st.targets[0], "binaryOperatorFunctions"):
                expect(isinstance(st.value, ast.Dict), "binaryOperatorFunctions is not a dict literal")
                table = {k.value: ast.unparse(v) for k, v in zip(st.value.keys, st.value.values)}
        expect(table == OPERATOR_FUNCTIONS, "binaryOperatorFunctions does not map each symbol to its operator function")
        return True
    raise TemplateMismatch("sampleGiven: unrecognised shape")


def extract_vector_ops(tree):
    # decorators
    defs = {}
    for name in ("zeroPreservingVectorOperator", "zeroIdentityVectorOperator"):
        fn = get_def(tree, name, VECT)
        b = body_nodoc(fn)
        expect(len(b) == 1 and isinstance(b[0], ast.Return) and _is_call(b[0].value, "vectorOperator"), f"{name}: shape")
        kws = {k.arg: k.value for k in b[0].value.keywords}
        expect(len(kws) == 1 and isinstance(list(kws.values())[0], ast.Constant) and list(kws.values())[0].value is True, f"{name}: keywords")
        defs[name] = list(kws)[0]
    expect(defs == {"zeroPreservingVectorOperator": "preservesZero", "zeroIdentityVectorOperator": "zeroIdentity"}, "vector operator decorators changed")
    # the handler installed on VectorDistribution
    mk = get_def(tree, "makeVectorOperatorHandler", VECT)
    h = body_nodoc(mk)[0]
    expect(isinstance(h, ast.FunctionDef) and h.name == "handler", "makeVectorOperatorHandler: handler")
    hb = body_nodoc(h)
    WRAP = "args = tuple((toDistribution(arg) for arg in args))"
    wraps_handler = len(hb) == 3 and ast.unparse(hb[0]) == WRAP
    if wraps_handler:
        hb = hb[1:]
    helper = [n for n in ast.walk(get_def(tree, "vectorOperator", VECT)) if isinstance(n, ast.FunctionDef) and n.name == "helper"]
    expect(len(helper) == 1, "vectorOperator: helper")
    wraps_helper = ast.unparse(body_nodoc(helper[0])[0]) == WRAP
    expect(wraps_handler == wraps_helper, "vector operators wrap their operands in only one of handler / helper")
    expect(len(hb) == 2 and isinstance(hb[0], ast.If) and isinstance(hb[1], ast.Return), "vector handler: shape")
    expect(_is_call(hb[1].value, "VectorOperatorDistribution", 3), "vector handler: general case")
    conds = _conjuncts(hb[0].test)
    expect(len(hb[0].body) == 1 and isinstance(hb[0].body[0], ast.Return) and is_name(hb[0].body[0].value, "self"), "vector handler: return self")
    expect(is_name(conds[0], "zeroIdentity"), "vector handler: zeroIdentity conjunct")
    expect(isinstance(conds[1], ast.UnaryOp) and _is_call(conds[1].operand, "isLazy", 1), "vector handler: not isLazy(args[0])")
    # the zero test: over args[0].coordinates (AttributeError for tuples) or isinstance-guarded iteration
    txt = ast.unparse(hb[0].test)
    if ".coordinates" in txt and "isinstance" not in txt and len(conds) == 3:
        accepts_seq = False
    elif "isinstance" in txt and ".coordinates" not in txt and len(conds) == 4:
        accepts_seq = True
    else:
        raise TemplateMismatch("vector handler: unrecognised zero test")
    # Vector methods
    cls = get_def(tree, "Vector", VECT)
    ops = []
    for st in cls.body:
        if isinstance(st, ast.FunctionDef) and st.name.startswith("__") and st.decorator_list:
            for d in st.decorator_list:
                if isinstance(d, ast.Name) and d.id in ("vectorOperator", "zeroIdentityVectorOperator", "zeroPreservingVectorOperator"):
                    ops.append((st.name, d.id == "zeroIdentityVectorOperator", d.id == "zeroPreservingVectorOperator"))
    named = []
    for st in cls.body:
        if isinstance(st, ast.FunctionDef) and not st.name.startswith("__"):
            for d in st.decorator_list:
                if isinstance(d, ast.Name) and d.id in ("vectorOperator", "zeroIdentityVectorOperator", "zeroPreservingVectorOperator", "scalarOperator"):
                    named.append((st.name, d.id))
    plain_dunders = [st.name for st in cls.body if isinstance(st, ast.FunctionDef) and st.name.startswith("__")
                     and st.name[2:-2].lstrip("r") in BINOPS and not st.decorator_list]
    return ops, named, plain_dunders, accepts_seq, wraps_handler


def extract_scalar_operator(tree):
    """-> True when scalarOperator's helper builds a FunctionDistribution over (self, *args) for a random self"""
    fn = get_def(tree, "scalarOperator", VECT)
    helper = [n for n in ast.walk(fn) if isinstance(n, ast.FunctionDef) and n.name == "helper"]
    expect(len(helper) == 1, "scalarOperator: helper")
    b = body_nodoc(helper[0])
    expect(len(b) == 1 and isinstance(b[0], ast.If), "scalarOperator helper: expected one if-chain")
    first = b[0]
    if ast.unparse(first.test) == "needsSampling(self)":
        expect(ast.unparse(first.body[-1]) == "return FunctionDistribution(method, (self, *args), kwargs)",
               "scalarOperator helper: random self is not turned into FunctionDistribution(method, (self, *args), kwargs)")
        expect(len(first.orelse) == 1 and isinstance(first.orelse[0], ast.If), "scalarOperator helper: elif missing")
        rest = first.orelse[0]
        samples_self = True
    else:
        rest, samples_self = first, False
    expect(ast.unparse(rest.test) == "any((needsSampling(arg) for arg in itertools.chain(args, kwargs.values())))",
           "scalarOperator helper: argument test changed")
    expect(ast.unparse(rest.body[-1]) == "return MethodDistribution(method, self, args, kwargs)"
           and len(rest.orelse) == 1 and ast.unparse(rest.orelse[0]) == "return method(self, *args, **kwargs)",
           "scalarOperator helper: general cases changed")
    return samples_self


def extract_mux_selector(tree):
    """the attribute in which MultiplexerDistribution keeps its selector"""
    init = get_def(tree, "MultiplexerDistribution.__init__", DIST)
    first = body_nodoc(init)[0]
    expect(isinstance(first, ast.Assign) and len(first.targets) == 1 and isinstance(first.targets[0], ast.Attribute)
           and is_name(first.targets[0].value, "self") and is_name(first.value, "index"),
           "MultiplexerDistribution.__init__ does not start by storing its selector")
    attr = first.targets[0].attr
    sg = get_def(tree, "MultiplexerDistribution.sampleGiven", DIST)
    expect(ast.unparse(body_nodoc(sg)[0]) == f"idx = value[self.{attr}]", "MultiplexerDistribution.sampleGiven does not read the selector")
    return attr


def extract_monotone(tree):
    out = []
    for st in tree.body:
        if isinstance(st, ast.FunctionDef):
            for d in st.decorator_list:
                if is_name(d, "monotonicDistributionFunction"):
                    out.append(st.name)
    return sorted(out)


def extract_identity_methods(tree):
    out = []
    for st in ast.walk(tree):
        if _is_call(st, "distributionMethod"):
            for k in st.keywords:
                if k.arg == "identity":
                    out.append((ast.unparse(st.args[0]) if st.args else "?", ast.unparse(k.value)))
    # the helper itself
    fn = get_def(tree, "distributionMethod", DIST) if False else None
    return out


def extract_distribution_method(tree):
    fn = get_def(tree, "distributionMethod", DIST)
    helper = [n for n in ast.walk(fn) if isinstance(n, ast.FunctionDef) and n.name == "helper"]
    expect(len(helper) == 1, "distributionMethod: helper")
    first = body_nodoc(helper[0])[0]
    expect(isinstance(first, ast.If) and ast.unparse(first.test) == "identity is not None and self == identity"
           and ast.unparse(first.body[0]) == "return toDistribution(args[0])", "distributionMethod: identity shortcut changed")
    return True


def extract():
    _, dist = load(DIST)
    _, vect = load(VECT)
    _, geom = load(GEOM)
    simp = extract_handlers(dist)
    allowed, rev = extract_operator_lists(dist)
    guard = extract_sample_given(dist)
    vops, named, plain, accepts_seq, wraps = extract_vector_ops(vect)
    mono = extract_monotone(geom)
    extract_distribution_method(dist)
    ident = extract_identity_methods(vect)
    scalar_self = extract_scalar_operator(vect)
    mux = extract_mux_selector(dist)
    return {"scalarSamplesSelf": scalar_self, "muxSelector": mux, "simp": simp, "allowed": allowed, "reversible": rev, "guard": guard, "vecOps": vops, "vecNamed": named,
            "vecPlain": plain, "vecAcceptsSeq": accepts_seq, "vecWrapsOperands": wraps, "monotone": mono, "identityMethods": ident}


def _dunder_to_lean(name):
    core = name[2:-2]
    refl = False
    if core not in BINOPS and core.startswith("r") and core[1:] in BINOPS:
        core, refl = core[1:], True
    if core not in BINOPS:
        return None
    return f".{core}", ("true" if refl else "false")


def to_lean(d):
    simp_rows, ori_rows = [], []
    for name, ty, const in d["simp"]:
        r = _dunder_to_lean(name)
        if r is None:
            raise TemplateMismatch(f"simplification on an operator outside the model: {name}")
        if ty == "Number" and isinstance(const, int):
            simp_rows.append(f"⟨{r[0]}, {r[1]}, {const}⟩")
        elif ty == "Orientation" and const == "globalOrientation":
            ori_rows.append(f"({r[0]}, {r[1]})")
        else:
            raise TemplateMismatch(f"simplification with an unexpected guard/constant: {name} {ty} {const}")
    vec_rows = []
    for name, zi, zp in d["vecOps"]:
        r = _dunder_to_lean(name)
        if r is None:
            raise TemplateMismatch(f"vector operator outside the model: {name}")
        if zp:
            raise TemplateMismatch(f"zero-preserving dunder operator {name}")
        vec_rows.append(f"({r[0]}, {r[1]}, {'true' if zi else 'false'})")
    q = lambda xs: "[" + ", ".join('"' + x + '"' for x in xs) + "]"
    allowed_names = [a for a, _ in d["allowed"]]
    return f"""import ScenicModel.Model.Expr
namespace Scenic.Gen
open Scenic.Expr

/-- tables of src/scenic/core/distributions.py (makeOperatorHandler, OperatorDistribution.sampleGiven) and
    src/scenic/core/vectors.py (vectorOperator decorators) -/
def exprTables : Tables :=
  {{ simp := [{", ".join(simp_rows)}],
    vecOps := [{", ".join(vec_rows)}],
    pythonDispatch := {"true" if d["guard"] else "false"},
    vecHandlerAcceptsSeq := {"true" if d["vecAcceptsSeq"] else "false"},
    vecOpsWrapOperands := {"true" if d["vecWrapsOperands"] else "false"} }}

/-- `X * globalOrientation -> X` style simplifications on Orientation-typed values: (operator, reflected) -/
def orientationIdentityOps : List (BinOp × Bool) := [{", ".join(ori_rows)}]
/-- distributionMethod(identity=...) uses in vectors.py: (method, identity) -/
def identityMethods : List (String × String) := [{", ".join('("%s", "%s")' % im for im in d["identityMethods"])}]

def allowedOperators : List String := {q(allowed_names)}
def reversibleOperators : List String := {q([a for a, _ in d["reversible"]])}
/-- Vector dunder operators defined without a lifting decorator -/
def vectorPlainDunders : List String := {q(d["vecPlain"])}
/-- named Vector methods with their lifting decorator -/
def vectorNamedOps : List (String × String) := [{", ".join('("%s", "%s")' % x for x in d["vecNamed"])}]
/-- `scalarOperator` (distanceTo, angleTo, norm, dot, ...) samples a Vector with random coordinates it is applied to
    (3b90c565); these operators are outside the Lean model, the flag is re-decided by `gen_scalar_operator_samples_self` -/
def scalarOperatorSamplesSelf : Bool := {"true" if d["scalarSamplesSelf"] else "false"}
/-- MultiplexerDistribution keeps its selector in a private attribute (e1aeac6d: `self.index` shadowed the `index`
    method of the sampled tuples/lists/strings) -/
def multiplexerSelectorAttr : String := "{d["muxSelector"]}"
def multiplexerSelectorPrivate : Bool := {"true" if d["muxSelector"].startswith("_") else "false"}
/-- functions of geometry.py declared `monotonicDistributionFunction` -/
def monotoneDeclared : List String := {q(d["monotone"])}

end Scenic.Gen
"""


if __name__ == "__main__":
    import json
    d = extract()
    print(json.dumps(d, indent=1, default=str))
    print(to_lean(d))
