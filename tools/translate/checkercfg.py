"""sample_checking.py (+ two sites of scenarios.py) -> Gen/CheckerCfg.lean.

Template extraction: every function of the sample checkers is matched against the shape the Lean model
`ScenicModel/Model/Checker.lean` interprets.  Choice points the model is parametric in (filter predicate, pop loop,
loop source, polarity of the rejection test, thresholds, ...) are extracted as data; the parts the model hard-wires
(updateMetrics, getRequirementCost, the buffers' initialisation) must match a canonical form exactly, modulo
docstrings and the names of local variables.  Anything else raises TemplateMismatch.
"""
import ast

from translate.astutil import TemplateMismatch, body_nodoc, const_int, expect, get_def, is_name, load

REL = "src/scenic/core/sample_checking.py"
REL_SC = "src/scenic/core/scenarios.py"


# --------------------------------------------------------------------------- canonical dumps
class _Renamer(ast.NodeTransformer):
    def __init__(self, locals_):
        self.map = {}
        self.locals = locals_

    def _n(self, name):
        if name not in self.locals:
            return name
        if name not in self.map:
            self.map[name] = f"v{len(self.map)}"
        return self.map[name]

    def visit_Name(self, node):
        return ast.copy_location(ast.Name(id=self._n(node.id), ctx=node.ctx), node)

    def visit_arg(self, node):
        return ast.copy_location(ast.arg(arg=self._n(node.arg), annotation=None), node)


def local_names(fn):
    names = {a.arg for a in fn.args.args + fn.args.kwonlyargs if a.arg != "self"}
    for n in ast.walk(fn):
        if isinstance(n, ast.Name) and isinstance(n.ctx, ast.Store):
            names.add(n.id)
    return names


def canon(fn):
    """ast.dump of a function without docstring, with local names renamed in order of first appearance."""
    fn2 = ast.parse(ast.unparse(fn)).body[0]
    fn2.body = body_nodoc(fn2) or [ast.Pass()]
    fn2.decorator_list = []
    fn2.returns = None
    _Renamer(local_names(fn2)).visit(fn2)
    return ast.dump(fn2)


def expect_same(fn, canonical_src, what):
    want = ast.parse(canonical_src.strip("\n")).body[0]
    if canon(fn) != canon(want):
        raise TemplateMismatch(f"{what} differs from the form the model hard-wires")


# --------------------------------------------------------------------------- predicates on a requirement
def req_pred(node, subject):
    """`<subject>.active` / `not <subject>.optional` ... ; subject is a predicate on the AST of the object."""
    neg = False
    if isinstance(node, ast.UnaryOp) and isinstance(node.op, ast.Not):
        neg, node = True, node.operand
    expect(isinstance(node, ast.Attribute) and subject(node.value) and node.attr in ("active", "optional"),
           f"unsupported predicate {ast.unparse(node)}")
    return {("active", False): "active", ("active", True): "notActive",
            ("optional", False): "optional", ("optional", True): "notOptional"}[(node.attr, neg)]


def index_end(node, lst):
    """reqs[-1] -> 'last', reqs[0] -> 'first'"""
    expect(isinstance(node, ast.Subscript) and is_name(node.value, lst), f"expected {lst}[...]")
    i = const_int(node.slice)
    expect(i in (0, -1), "index other than 0/-1")
    return "last" if i == -1 else "first"


def self_attr(node, attr):
    return isinstance(node, ast.Attribute) and is_name(node.value, "self") and node.attr == attr


def self_call(node, meth, nargs=None):
    return (isinstance(node, ast.Call) and self_attr(node.func, meth) and not node.keywords
            and (nargs is None or len(node.args) == nargs))


# --------------------------------------------------------------------------- the functions
def x_sorted(tree):
    fn = get_def(tree, "WeightedAcceptanceChecker.sortedRequirements", REL)
    body = list(body_nodoc(fn))
    expect(len(body) in (3, 4), "sortedRequirements: statement count")
    a = body.pop(0)
    expect(isinstance(a, ast.Assign) and len(a.targets) == 1 and isinstance(a.targets[0], ast.Name)
           and isinstance(a.value, ast.ListComp), "sortedRequirements: first statement is not `x = [...]`")
    lst = a.targets[0].id
    lc = a.value
    expect(len(lc.generators) == 1 and isinstance(lc.generators[0].target, ast.Name)
           and self_attr(lc.generators[0].iter, "requirements") and is_name(lc.elt, lc.generators[0].target.id)
           and not lc.generators[0].is_async, "sortedRequirements: comprehension shape")
    var = lc.generators[0].target.id
    ifs = lc.generators[0].ifs
    expect(len(ifs) <= 1, "sortedRequirements: several filters")
    wfilter = req_pred(ifs[0], lambda n: is_name(n, var)) if ifs else "always"
    s = body.pop(0)
    expect(isinstance(s, ast.Expr) and isinstance(s.value, ast.Call) and isinstance(s.value.func, ast.Attribute)
           and is_name(s.value.func.value, lst) and s.value.func.attr == "sort" and not s.value.args,
           "sortedRequirements: `.sort(...)`")
    kws = {k.arg: k.value for k in s.value.keywords}
    expect(set(kws) <= {"key", "reverse"} and "key" in kws and self_attr(kws["key"], "getRequirementCost"),
           "sortedRequirements: sort key")
    reverse = False
    if "reverse" in kws:
        expect(isinstance(kws["reverse"], ast.Constant) and isinstance(kws["reverse"].value, bool), "reverse=")
        reverse = kws["reverse"].value
    pop = None
    if len(body) == 2:
        w = body.pop(0)
        expect(isinstance(w, ast.While) and not w.orelse and isinstance(w.test, ast.BoolOp)
               and isinstance(w.test.op, ast.And) and len(w.test.values) == 2 and is_name(w.test.values[0], lst),
               "sortedRequirements: while-loop shape")
        cond = w.test.values[1]
        holder = {}

        def subj(n):
            holder["end"] = index_end(n, lst)
            return True
        pred = req_pred(cond, subj)
        expect(len(w.body) == 1 and isinstance(w.body[0], ast.Expr) and isinstance(w.body[0].value, ast.Call)
               and isinstance(w.body[0].value.func, ast.Attribute) and is_name(w.body[0].value.func.value, lst)
               and w.body[0].value.func.attr == "pop" and not w.body[0].value.keywords
               and len(w.body[0].value.args) <= 1, "sortedRequirements: loop body is not a single pop")
        args = w.body[0].value.args
        frm = "last"
        if args:
            i = const_int(args[0])
            expect(i in (0, -1), "pop index")
            frm = "last" if i == -1 else "first"
        pop = (pred, holder["end"], frm)
    r = body.pop(0)
    expect(isinstance(r, ast.Return) and is_name(r.value, lst), "sortedRequirements: return")
    return wfilter, reverse, pop


def x_weighted_loop(tree):
    fn = get_def(tree, "WeightedAcceptanceChecker.checkRequirementsInner", REL)
    expect([a.arg for a in fn.args.args] == ["self", "sample"], "checkRequirementsInner args")
    sample = "sample"
    body = body_nodoc(fn)
    expect(len(body) in (1, 2) and isinstance(body[0], ast.For) and not body[0].orelse
           and isinstance(body[0].target, ast.Name), "weighted checkRequirementsInner: for-loop")
    f = body[0]
    req = f.target.id
    if self_call(f.iter, "sortedRequirements", 0):
        loop_sorted = True
    elif self_attr(f.iter, "requirements"):
        loop_sorted = False
    else:
        raise TemplateMismatch("weighted loop iterates over something else")
    fallthrough = False
    if len(body) == 2:
        expect(isinstance(body[1], ast.Return) and (body[1].value is None or
               (isinstance(body[1].value, ast.Constant) and body[1].value.value is None)), "final return None")
        fallthrough = True
    else:
        fallthrough = True  # falling off the end returns None as well
    st = f.body
    expect(len(st) == 5, "weighted loop body: statement count")
    perf = lambda n: (isinstance(n, ast.Call) and isinstance(n.func, ast.Attribute) and is_name(n.func.value, "time")
                      and n.func.attr == "perf_counter" and not n.args and not n.keywords)
    expect(isinstance(st[0], ast.Assign) and isinstance(st[0].targets[0], ast.Name) and perf(st[0].value), "start = time.perf_counter()")
    start = st[0].targets[0].id
    expect(isinstance(st[1], ast.Assign) and isinstance(st[1].targets[0], ast.Name) and isinstance(st[1].value, ast.Call)
           and isinstance(st[1].value.func, ast.Attribute) and is_name(st[1].value.func.value, req)
           and st[1].value.func.attr == "falsifiedBy" and len(st[1].value.args) == 1
           and is_name(st[1].value.args[0], sample) and not st[1].value.keywords, "rejected = req.falsifiedBy(sample)")
    rej = st[1].targets[0].id
    expect(isinstance(st[2], ast.Assign) and isinstance(st[2].targets[0], ast.Name) and isinstance(st[2].value, ast.Tuple)
           and len(st[2].value.elts) == 2, "metrics = (…, …)")
    metrics = st[2].targets[0].id
    acc, dt = st[2].value.elts
    expect(isinstance(acc, ast.Call) and is_name(acc.func, "int") and len(acc.args) == 1, "int(...)")
    a = acc.args[0]
    if isinstance(a, ast.UnaryOp) and isinstance(a.op, ast.Not) and is_name(a.operand, rej):
        acc_not = True
    elif is_name(a, rej):
        acc_not = False
    else:
        raise TemplateMismatch("accepted flag of the metrics")
    expect(isinstance(dt, ast.BinOp) and isinstance(dt.op, ast.Sub) and perf(dt.left) and is_name(dt.right, start),
           "time.perf_counter() - start")
    expect(isinstance(st[3], ast.Expr) and self_call(st[3].value, "updateMetrics", 2)
           and is_name(st[3].value.args[0], req) and is_name(st[3].value.args[1], metrics), "self.updateMetrics(req, metrics)")
    i = st[4]
    expect(isinstance(i, ast.If) and not i.orelse and len(i.body) == 1 and isinstance(i.body[0], ast.Return)
           and isinstance(i.body[0].value, ast.Attribute) and is_name(i.body[0].value.value, req)
           and i.body[0].value.attr == "violationMsg", "if rejected: return req.violationMsg")
    if is_name(i.test, rej):
        reject_when = True
    elif isinstance(i.test, ast.UnaryOp) and isinstance(i.test.op, ast.Not) and is_name(i.test.operand, rej):
        reject_when = False
    else:
        raise TemplateMismatch("rejection test")
    return loop_sorted, reject_when, fallthrough, acc_not


def x_basic(tree):
    fn = get_def(tree, "BasicChecker.checkRequirementsInner", REL)
    body = body_nodoc(fn)
    expect(len(body) in (1, 2) and isinstance(body[0], ast.For) and isinstance(body[0].target, ast.Name)
           and self_attr(body[0].iter, "requirements") and not body[0].orelse, "basic loop")
    if len(body) == 2:
        expect(isinstance(body[1], ast.Return) and (body[1].value is None or
               (isinstance(body[1].value, ast.Constant) and body[1].value.value is None)), "basic: final return None")
    req = body[0].target.id
    expect(len(body[0].body) == 1 and isinstance(body[0].body[0], ast.If) and not body[0].body[0].orelse, "basic: if")
    i = body[0].body[0]
    expect(len(i.body) == 1 and isinstance(i.body[0], ast.Return) and isinstance(i.body[0].value, ast.Attribute)
           and is_name(i.body[0].value.value, req) and i.body[0].value.attr == "violationMsg", "basic: return msg")

    def fals(n):
        neg = False
        if isinstance(n, ast.UnaryOp) and isinstance(n.op, ast.Not):
            neg, n = True, n.operand
        expect(isinstance(n, ast.Call) and isinstance(n.func, ast.Attribute) and is_name(n.func.value, req)
               and n.func.attr == "falsifiedBy" and len(n.args) == 1 and is_name(n.args[0], "sample"), "falsifiedBy(sample)")
        return not neg
    t = i.test
    if isinstance(t, ast.BoolOp) and isinstance(t.op, ast.And) and len(t.values) == 2:
        expect(isinstance(t.values[0], ast.Attribute) and is_name(t.values[0].value, req) and t.values[0].attr == "active",
               "basic: guard is not req.active")
        guard, reject_when = True, fals(t.values[1])
    else:
        guard, reject_when = False, fals(t)
    # setRequirements
    fn = get_def(tree, "BasicChecker.setRequirements", REL)
    canonical = """
def setRequirements(self, requirements):
    target_reqs = []
    for req in requirements:
        if req.optional:
            if (isinstance(req, BlanketCollisionRequirement) and self.initialCollisionCheck
                    and sum(isinstance(r, IntersectionRequirement) for r in requirements) >= THRESHOLD):
                target_reqs.append(req)
        else:
            KEEP
    super().setRequirements(target_reqs)
"""
    body = body_nodoc(fn)
    expect(len(body) == 3 and isinstance(body[1], ast.For) and len(body[1].body) == 1 and isinstance(body[1].body[0], ast.If),
           "BasicChecker.setRequirements shape")
    outer = body[1].body[0]
    expect(len(outer.body) == 1 and isinstance(outer.body[0], ast.If) and isinstance(outer.body[0].test, ast.BoolOp)
           and len(outer.body[0].test.values) == 3 and isinstance(outer.body[0].test.values[2], ast.Compare)
           and isinstance(outer.body[0].test.values[2].ops[0], ast.GtE), "BasicChecker.setRequirements: blanket condition")
    thr = const_int(outer.body[0].test.values[2].comparators[0])
    expect(thr >= 0, "negative threshold")
    reqname = body[1].target.id if isinstance(body[1].target, ast.Name) else "req"
    tgt = body[0].targets[0].id if isinstance(body[0], ast.Assign) and isinstance(body[0].targets[0], ast.Name) else "?"
    keep_stmt = f"{tgt}.append({reqname})"
    if len(outer.orelse) == 1 and ast.unparse(outer.orelse[0]) == keep_stmt:
        keep = True
    elif len(outer.orelse) == 0 or (len(outer.orelse) == 1 and isinstance(outer.orelse[0], ast.Pass)):
        keep = False
    else:
        raise TemplateMismatch("BasicChecker.setRequirements: else branch")
    src = canonical.replace("THRESHOLD", str(thr)).replace("KEEP", "target_reqs.append(req)" if keep else "pass")
    if not keep and len(outer.orelse) == 0:
        src = src.replace("        else:\n            pass\n", "")
    expect_same(fn, src, "BasicChecker.setRequirements")
    return guard, reject_when, keep, thr


def x_fixed(tree):
    """parts the model hard-wires"""
    expect_same(get_def(tree, "SampleChecker.setRequirements", REL), """
def setRequirements(self, requirements):
    assert self.requirements is None
    self.requirements = tuple(requirements)
""", "SampleChecker.setRequirements")
    expect_same(get_def(tree, "WeightedAcceptanceChecker.setRequirements", REL), """
def setRequirements(self, requirements):
    super().setRequirements(requirements)
    self.buffers = {req: deque() for req in self.requirements}
    self.bufferSums = {req: (0, 0) for req in self.requirements}
    for req in self.requirements:
        self.buffers[req].extend([(0, 0)] * self.bufferSize)
""", "WeightedAcceptanceChecker.setRequirements")
    expect_same(get_def(tree, "WeightedAcceptanceChecker.updateMetrics", REL), """
def updateMetrics(self, req, new_metrics):
    target_buffer = self.buffers[req]
    old_metrics = target_buffer.popleft()
    target_buffer.append(new_metrics)
    sum_acc, sum_time = self.bufferSums[req]
    old_acc, old_time = old_metrics
    new_acc, new_time = new_metrics
    sum_acc += new_acc - old_acc
    sum_time += new_time - old_time
    self.bufferSums[req] = (sum_acc, sum_time)
""", "WeightedAcceptanceChecker.updateMetrics")
    expect_same(get_def(tree, "WeightedAcceptanceChecker.getRequirementCost", REL), """
def getRequirementCost(self, req):
    sum_acc, sum_time = self.bufferSums[req]
    runtime = sum_time / self.bufferSize
    rej_prob = 1 - (sum_acc / self.bufferSize)
    if rej_prob > 0:
        return (runtime / rej_prob, 0)
    else:
        return (float("inf"), runtime)
""", "WeightedAcceptanceChecker.getRequirementCost")


def x_outer(tree):
    fn = get_def(tree, "SampleChecker.checkRequirements", REL)
    body = body_nodoc(fn)
    stmts = [s for s in body if not isinstance(s, ast.Assert)]
    expect(len(stmts) == 1 and isinstance(stmts[0], ast.Try) and len(stmts[0].handlers) == 1
           and not stmts[0].orelse and not stmts[0].finalbody, "checkRequirements: try/except")
    t = stmts[0]
    expect(len(t.body) == 1 and isinstance(t.body[0], ast.Return) and self_call(t.body[0].value, "checkRequirementsInner", 1),
           "checkRequirements: return self.checkRequirementsInner(sample)")
    h = t.handlers[0]
    expect(is_name(h.type, "RejectionException") and h.name and len(h.body) == 1 and isinstance(h.body[0], ast.Return),
           "checkRequirements: handler")
    v = h.body[0].value
    if is_name(v, h.name):
        return True
    if v is None or (isinstance(v, ast.Constant) and v.value is None):
        return False
    raise TemplateMismatch("checkRequirements: handler returns something else")


def x_scenarios():
    src, tree = load(REL_SC)
    init = get_def(tree, "Scenario.__init__", REL_SC)
    buf = None
    for n in ast.walk(init):
        if isinstance(n, ast.Call) and self_attr(n.func, "setSampleChecker"):
            expect(len(n.args) == 1 and isinstance(n.args[0], ast.Call) and is_name(n.args[0].func, "WeightedAcceptanceChecker"),
                   "default checker is not WeightedAcceptanceChecker(...)")
            c = n.args[0]
            if not c.args and not c.keywords:
                buf = 10
            else:
                expect(not c.args and len(c.keywords) == 1 and c.keywords[0].arg == "bufferSize", "bufferSize=")
                buf = const_int(c.keywords[0].value)
    expect(buf is not None and buf >= 1, "default buffer size")
    expect_same(get_def(tree, "Scenario.setSampleChecker", REL_SC), """
def setSampleChecker(self, checker):
    self.checker = checker
    self.checker.setRequirements(self.defaultRequirements + self.userRequirements)
""", "Scenario.setSampleChecker")
    gi = get_def(tree, "Scenario._generateInner", REL_SC)
    cmp_le = None
    for n in ast.walk(gi):
        if (isinstance(n, ast.If) and isinstance(n.test, ast.Compare) and len(n.test.ops) == 1
                and ast.unparse(n.test.left) == "random.random()"):
            expect(isinstance(n.test.comparators[0], ast.Attribute) and n.test.comparators[0].attr == "prob", "activation rhs")
            expect(len(n.body) == 1 and ast.unparse(n.body[0]).endswith(".active = True")
                   and len(n.orelse) == 1 and ast.unparse(n.orelse[0]).endswith(".active = False"), "activation branches")
            if isinstance(n.test.ops[0], ast.LtE):
                cmp_le = True
            elif isinstance(n.test.ops[0], ast.Lt):
                cmp_le = False
            else:
                raise TemplateMismatch("activation comparison is neither <= nor <")
    expect(cmp_le is not None, "activation of user requirements not found")
    # the rejection loop: the sample that is checked is the sample the scene is built from
    whiles = [n for n in gi.body if isinstance(n, ast.While)]
    expect(len(whiles) == 1 and ast.unparse(whiles[0].test) == "rejection is not None", "rejection loop")
    w = whiles[0]
    texts = [ast.unparse(s) for s in w.body]
    expect("rejection = self.checker.checkRequirements(sample)" in texts, "checker call")
    expect("rejection = None" in texts and texts.index("rejection = None") < texts.index("rejection = self.checker.checkRequirements(sample)"),
           "rejection reset before the check")
    assigns = [s for s in ast.walk(w) if isinstance(s, ast.Assign) and any(is_name(t, "sample") for t in s.targets)]
    expect(len(assigns) == 1 and ast.unparse(assigns[0].value) == "Samplable.sampleAll(self.dependencies)", "sample = sampleAll(...)")
    after = gi.body[gi.body.index(w) + 1:]
    expect(any(ast.unparse(s) == "scene = self._makeSceneFromSample(sample)" for s in after), "scene built from the checked sample")
    return buf, cmp_le


REFERENCE = dict(wFilter="active", wSortReverse=False, pop=("optional", "last", "last"), wLoopSorted=True, wRejectWhen=True,
                 wFallthroughAccepts=True, wAccNotRejected=True, bGuardActive=True, bRejectWhen=True, bFallthroughAccepts=True,
                 bKeepMandatory=True, bBlanketMin=3, catchRejects=True, bufferSize=100, cmpLe=True)


def extract_parts():
    """-> (data, errors).  Every part of the source is matched separately; a part that no longer has the expected shape
    contributes an error message and the REFERENCE values (the configuration the model documents), so that the
    theorems stay instantiated on meaningful data while the tie for that part rests on the correspondence run."""
    d, errors = dict(REFERENCE), []
    try:
        src, tree = load(REL)
    except TemplateMismatch as e:
        return d, [str(e)]

    def part(f):
        try:
            f()
        except TemplateMismatch as e:
            errors.append(str(e))

    def p_sorted():
        d["wFilter"], d["wSortReverse"], d["pop"] = x_sorted(tree)

    def p_loop():
        d["wLoopSorted"], d["wRejectWhen"], d["wFallthroughAccepts"], d["wAccNotRejected"] = x_weighted_loop(tree)

    def p_basic():
        d["bGuardActive"], d["bRejectWhen"], d["bKeepMandatory"], d["bBlanketMin"] = x_basic(tree)

    def p_outer():
        d["catchRejects"] = x_outer(tree)

    def p_scen():
        d["bufferSize"], d["cmpLe"] = x_scenarios()
    for f in (p_sorted, p_loop, p_basic, lambda: x_fixed(tree), p_outer, p_scen):
        part(f)
    return d, errors


def extract():
    d, errors = extract_parts()
    if errors:
        raise TemplateMismatch("; ".join(errors))
    return d


def b(x):
    return "true" if x else "false"


def to_lean(d):
    pop = d["pop"]
    return f"""import ScenicModel.Model.Checker
namespace Scenic.Gen
open Scenic.Checker
/-- choice points of src/scenic/core/sample_checking.py -/
def checkerCfg : Cfg := {{
  wFilter := .{d['wFilter']}
  wSortReverse := {b(d['wSortReverse'])}
  wPopPred := {('some .' + pop[0]) if pop else 'none'}
  wPopTest := .{pop[1] if pop else 'last'}
  wPopFrom := .{pop[2] if pop else 'last'}
  wLoopSorted := {b(d['wLoopSorted'])}
  wRejectWhen := {b(d['wRejectWhen'])}
  wFallthroughAccepts := {b(d['wFallthroughAccepts'])}
  wAccNotRejected := {b(d['wAccNotRejected'])}
  bGuardActive := {b(d['bGuardActive'])}
  bRejectWhen := {b(d['bRejectWhen'])}
  bFallthroughAccepts := {b(d['bFallthroughAccepts'])}
  bKeepMandatory := {b(d['bKeepMandatory'])}
  bBlanketMin := {d['bBlanketMin']}
  catchRejects := {b(d['catchRejects'])}
}}
/-- `WeightedAcceptanceChecker(bufferSize=…)` in Scenario.__init__ -/
def defaultBufferSize : Nat := {d['bufferSize']}
/-- `random.random() <= req.prob` -/
def activationCmpLe : Bool := {b(d['cmpLe'])}
end Scenic.Gen
"""
