"""serialization.py writeInt/readInt  ->  Gen/IntCodec.lean  (an `IntTable`).

Template (shape of the code; the numbers are what is extracted):

  def writeInt(value, stream):
      if A <= value <= B:            stream.write(bytes([value]))
      elif C <= value <= D:          stream.write(bytes([T2])); stream.write(value.to_bytes(length=L2, byteorder="little", signed=True))
      elif E <= value <= F:          ... T4, L4
      else:
          stream.write(bytes([TB]))
          length = max(M, math.ceil((value.bit_length() + S) / P))
          if length >= CAP: raise SerializationError(...)
          stream.write(bytes([length])); stream.write(value.to_bytes(length=length, ...))

  def readInt(stream):
      first = <read 1 byte>[0]
      if first <= R:  return first
      elif first == T2: return int.from_bytes(<read L2 checked>, byteorder="little", signed=True)
      elif first == T4: ...
      else: length = <read 1 byte>[0]; return int.from_bytes(<read length checked>, ...)

<read n checked> must be a call whose short-read behaviour is an error: `_readExactly(stream, n)`.
A bare `stream.read(n)` is extracted as *unchecked* (`checked = False`), which makes the generated
side condition `readsChecked = true` fail — the truncation theorem does not apply to such code.
"""
import ast

from translate.astutil import (TemplateMismatch, body_nodoc, const_int, expect, get_def,
                               is_name, lean_int, load)

REL = "src/scenic/core/serialization.py"


def _chain(cmp, var):
    """A <= var <= B  ->  (A, B)"""
    expect(isinstance(cmp, ast.Compare) and len(cmp.ops) == 2
           and all(isinstance(o, ast.LtE) for o in cmp.ops)
           and is_name(cmp.comparators[0], var), "writeInt: range test is not `A <= value <= B`")
    return const_int(cmp.left), const_int(cmp.comparators[1])


def _write_bytes_const(stmt):
    """stream.write(bytes([X])) -> X (int literal or Name)"""
    expect(isinstance(stmt, ast.Expr) and isinstance(stmt.value, ast.Call)
           and isinstance(stmt.value.func, ast.Attribute) and stmt.value.func.attr == "write"
           and is_name(stmt.value.func.value, "stream"), "expected stream.write(...)")
    arg = stmt.value.args[0]
    expect(isinstance(arg, ast.Call) and is_name(arg.func, "bytes") and isinstance(arg.args[0], ast.List)
           and len(arg.args[0].elts) == 1, "expected bytes([x])")
    return arg.args[0].elts[0]


def _to_bytes(stmt, var):
    """stream.write(value.to_bytes(length=L, byteorder="little", signed=True)) -> L node"""
    expect(isinstance(stmt, ast.Expr) and isinstance(stmt.value, ast.Call), "expected stream.write(value.to_bytes(..))")
    call = stmt.value.args[0]
    expect(isinstance(call, ast.Call) and isinstance(call.func, ast.Attribute) and call.func.attr == "to_bytes"
           and is_name(call.func.value, var), "expected value.to_bytes(...)")
    kw = {k.arg: k.value for k in call.keywords}
    expect(set(kw) == {"length", "byteorder", "signed"} and not call.args, "to_bytes keywords changed")
    expect(isinstance(kw["byteorder"], ast.Constant) and kw["byteorder"].value == "little", "byteorder is not little")
    expect(isinstance(kw["signed"], ast.Constant) and kw["signed"].value is True, "to_bytes is not signed")
    return kw["length"]


def _read_call(node):
    """-> (length node, checked?)  for `_readExactly(stream, n)` / `stream.read(n)`"""
    expect(isinstance(node, ast.Call), "expected a read call")
    if isinstance(node.func, ast.Name) and node.func.id == "_readExactly":
        expect(len(node.args) == 2 and is_name(node.args[0], "stream"), "_readExactly args")
        return node.args[1], True
    if isinstance(node.func, ast.Attribute) and node.func.attr == "read" and is_name(node.func.value, "stream"):
        return node.args[0], False
    raise TemplateMismatch("unknown read call " + ast.dump(node)[:80])


def _from_bytes(ret):
    """return int.from_bytes(<read>, byteorder="little", signed=True) -> (len node, checked)"""
    expect(isinstance(ret, ast.Return) and isinstance(ret.value, ast.Call), "expected return int.from_bytes(..)")
    call = ret.value
    expect(isinstance(call.func, ast.Attribute) and call.func.attr == "from_bytes" and is_name(call.func.value, "int"),
           "expected int.from_bytes")
    kw = {k.arg: k.value for k in call.keywords}
    expect(set(kw) == {"byteorder", "signed"} and len(call.args) == 1, "from_bytes arguments changed")
    expect(kw["byteorder"].value == "little" and kw["signed"].value is True, "from_bytes not little/signed")
    return _read_call(call.args[0])


def _first_byte(stmt, name):
    """name = <read 1>[0] -> checked?"""
    expect(isinstance(stmt, ast.Assign) and is_name(stmt.targets[0], name) and isinstance(stmt.value, ast.Subscript)
           and const_int(stmt.value.slice) == 0, f"expected `{name} = <read>[0]`")
    n, checked = _read_call(stmt.value.value)
    expect(const_int(n) == 1, "first read is not 1 byte")
    return checked


def extract():
    src, tree = load(REL)
    w = get_def(tree, "writeInt", REL)
    r = get_def(tree, "readInt", REL)
    expect([a.arg for a in w.args.args] == ["value", "stream"], "writeInt signature")
    t = {}
    # ---- writer
    body = body_nodoc(w)
    expect(len(body) == 1 and isinstance(body[0], ast.If), "writeInt: body is not a single if-chain")
    if1 = body[0]
    t["wSmallLo"], t["wSmallHi"] = _chain(if1.test, "value")
    expect(len(if1.body) == 1 and is_name(_write_bytes_const(if1.body[0]), "value"), "small branch")
    expect(len(if1.orelse) == 1 and isinstance(if1.orelse[0], ast.If), "elif 2 missing")
    if2 = if1.orelse[0]
    t["wLo2"], t["wHi2"] = _chain(if2.test, "value")
    expect(len(if2.body) == 2, "2-byte branch")
    t["wTag2"] = const_int(_write_bytes_const(if2.body[0]))
    t["wLen2"] = const_int(_to_bytes(if2.body[1], "value"))
    expect(len(if2.orelse) == 1 and isinstance(if2.orelse[0], ast.If), "elif 4 missing")
    if3 = if2.orelse[0]
    t["wLo4"], t["wHi4"] = _chain(if3.test, "value")
    expect(len(if3.body) == 2, "4-byte branch")
    t["wTag4"] = const_int(_write_bytes_const(if3.body[0]))
    t["wLen4"] = const_int(_to_bytes(if3.body[1], "value"))
    big = if3.orelse
    expect(len(big) == 5, "big branch has changed shape")
    t["wTagBig"] = const_int(_write_bytes_const(big[0]))
    asg = big[1]
    expect(isinstance(asg, ast.Assign) and is_name(asg.targets[0], "length") and isinstance(asg.value, ast.Call)
           and is_name(asg.value.func, "max") and len(asg.value.args) == 2, "length = max(..)")
    t["wMinLen"] = const_int(asg.value.args[0])
    ceil = asg.value.args[1]
    expect(isinstance(ceil, ast.Call) and isinstance(ceil.func, ast.Attribute) and ceil.func.attr == "ceil"
           and isinstance(ceil.args[0], ast.BinOp) and isinstance(ceil.args[0].op, ast.Div), "math.ceil(x / P)")
    num, den = ceil.args[0].left, ceil.args[0].right
    t["wBitsPerByte"] = const_int(den)
    expect(isinstance(num, ast.BinOp) and isinstance(num.op, ast.Add) and isinstance(num.left, ast.Call)
           and isinstance(num.left.func, ast.Attribute) and num.left.func.attr == "bit_length"
           and is_name(num.left.func.value, "value"), "value.bit_length() + S")
    t["wSignBits"] = const_int(num.right)
    chk = big[2]
    expect(isinstance(chk, ast.If) and isinstance(chk.test, ast.Compare) and is_name(chk.test.left, "length")
           and len(chk.test.ops) == 1 and isinstance(chk.test.ops[0], ast.GtE)
           and isinstance(chk.body[0], ast.Raise) and not chk.orelse, "if length >= CAP: raise")
    t["wLenCap"] = const_int(chk.test.comparators[0])
    expect(is_name(_write_bytes_const(big[3]), "length"), "length byte")
    expect(is_name(_to_bytes(big[4], "value"), "length"), "big payload length")
    # ---- reader
    body = body_nodoc(r)
    expect(len(body) == 2, "readInt: body shape")
    checked = [_first_byte(body[0], "first")]
    i1 = body[1]
    expect(isinstance(i1, ast.If) and isinstance(i1.test, ast.Compare) and is_name(i1.test.left, "first")
           and isinstance(i1.test.ops[0], ast.LtE), "first <= R")
    t["rSmallHi"] = const_int(i1.test.comparators[0])
    expect(isinstance(i1.body[0], ast.Return) and is_name(i1.body[0].value, "first"), "return first")
    i2 = i1.orelse[0]
    expect(isinstance(i2, ast.If) and isinstance(i2.test.ops[0], ast.Eq) and is_name(i2.test.left, "first"), "first == T2")
    t["rTag2"] = const_int(i2.test.comparators[0])
    n, c = _from_bytes(i2.body[0]); t["rLen2"] = const_int(n); checked.append(c)
    i3 = i2.orelse[0]
    expect(isinstance(i3, ast.If) and isinstance(i3.test.ops[0], ast.Eq) and is_name(i3.test.left, "first"), "first == T4")
    t["rTag4"] = const_int(i3.test.comparators[0])
    n, c = _from_bytes(i3.body[0]); t["rLen4"] = const_int(n); checked.append(c)
    els = i3.orelse
    expect(len(els) == 2, "readInt else branch")
    checked.append(_first_byte(els[0], "length"))
    n, c = _from_bytes(els[1]); expect(is_name(n, "length"), "big read length"); checked.append(c)
    t["readsChecked"] = all(checked)
    # ---- readBytes
    rb = get_def(tree, "readBytes", REL)
    b = body_nodoc(rb)
    neg_checked = any(isinstance(s, ast.If) and isinstance(s.test, ast.Compare) and is_name(s.test.left, "length")
                      and isinstance(s.test.ops[0], ast.Lt) and const_int(s.test.comparators[0]) == 0
                      and isinstance(s.body[0], ast.Raise) for s in b)
    ret = b[-1]
    expect(isinstance(ret, ast.Return), "readBytes: last statement is not a return")
    n, c = _read_call(ret.value)
    expect(is_name(n, "length"), "readBytes length")
    t["bytesChecked"] = bool(neg_checked and c)
    return t


INT_FIELDS = ["wSmallLo", "wSmallHi", "wTag2", "wLo2", "wHi2", "wLen2", "wTag4", "wLo4", "wHi4", "wLen4",
              "wTagBig", "wLenCap", "wSignBits", "wBitsPerByte", "wMinLen", "rSmallHi", "rTag2", "rLen2",
              "rTag4", "rLen4"]
NAT_FIELDS = {"wTag2", "wLen2", "wTag4", "wLen4", "wTagBig", "wLenCap", "wSignBits", "wBitsPerByte", "wMinLen",
              "rSmallHi", "rTag2", "rLen2", "rTag4", "rLen4"}


def to_lean(t):
    for f in NAT_FIELDS:
        if t[f] < 0:
            raise TemplateMismatch(f"{f} is negative")
    fields = ",\n    ".join(f"{f} := {lean_int(t[f])}" for f in INT_FIELDS)
    return f"""import ScenicModel.Model.Codec
namespace Scenic.Gen
open Scenic.Codec

/-- constants of `writeInt` / `readInt` in {REL} -/
def intTable : IntTable :=
  {{ {fields} }}

/-- every read in `readInt` is length-checked (`_readExactly`) -/
def readsChecked : Bool := {str(t['readsChecked']).lower()}
/-- `readBytes` rejects negative lengths and short payloads -/
def bytesChecked : Bool := {str(t['bytesChecked']).lower()}

end Scenic.Gen
"""
