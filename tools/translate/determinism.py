"""scenarios.py / requirements.py / dynamics/scenarios.py / sample_checking.py / utils.py / visibility.py /
regions.py  ->  Gen/Determinism.lean   (data for the C15 theorems)

What is extracted (whitelist templates; anything unexpected raises TemplateMismatch):

1. *Order sites*: every container through which a random value travels on its way into
   `Scenario.dependencies`, with the verdict of a small local type tracker: is its iteration order
   the insertion order (list / tuple / dict / generator over such) or address dependent (set,
   frozenset)?  Sites:
     scenario.dependencies      Scenario.__init__: the `+` chain assigned to self.dependencies
     scenario.instances         self._instances
     scenario.paramDeps         paramDeps (generator over self.params.values())
     scenario.behaviorDeps      behaviorDeps (appends inside loops over dict values)
     dynamic.toScenario         the arguments DynamicScenario._toScenario passes for instances / params /
                                requirementDeps / behaviorNamespaces
     dynamic.requirementDeps    DynamicScenario._compileRequirements: accumulation of compiled dependencies
     requirement.compile.deps   PendingRequirement.compile: `deps`
     requirement.init.cells     PendingRequirement.__init__: self.cells (filled from `closures`)
     requirement.init.bindings  PendingRequirement.__init__: self.globalBindings / closureBindings
     requirement.getNameBindings.closures   third value returned by getNameBindings
2. *Bracket*: in the rejection loop of Scenario._generateInner, which generator states are saved before
   `self.checker.checkRequirements(sample)` and restored (from the saved variables) after it.
3. *Activation*: comparator of `random.random() <op> req.prob` and that it runs once per user requirement
   before the loop.
4. *Private generator sites*: findMeshInteriorPoint and the ray shuffle of visibility.canSee must build
   a private `default_rng(<literal seed>)`; MeshRegion.mesh must not call `apply_transform`.
5. *Checker*: WeightedAcceptanceChecker.checkRequirementsInner iterates `self.sortedRequirements()` and
   returns at the first rejected requirement; sortedRequirements = filter active, sort, pop trailing optional.
6. *Dependency segments*: the operands of the `+` chain assigned to `Scenario.dependencies`, each resolved to
   its role (instances / params / reqDeps / behaviors) whatever the names of the locals; *compile sources*: the
   places where PendingRequirement.compile adds a dependency, in source order, each resolved to its role
   (bindings / cells, both filtered by needsSampling; objects if `CanSee`; ego).  The Lean model of the
   construction of the tuple (Model/DepOrder.lean) is parametric in both orders.
7. *Sample sites*: where the dependency graph walked by `Samplable.sampleAll` is built and iterated, judged by
   the same tracker: the list `Samplable.__init__` hands to `super().__init__` (filled by `append` of the loop
   variable under `isLazy(<loop variable>)` in a loop over `dependencies`), what `LazilyEvaluable.__init__`
   stores in `self._dependencies`, the iterable of the loop of `Samplable.sample` that calls
   `<child>.sample(subsamples)`, and the iterable of the loop of `Samplable.sampleAll` that calls `<q>.sample(..)`.
   The model of the walk (Model/SampleOrder.lean) is parametric in the four kinds.
"""
import ast

from translate.astutil import TemplateMismatch, expect, get_def, is_name, load

SCEN = "src/scenic/core/scenarios.py"
REQ = "src/scenic/core/requirements.py"
DYN = "src/scenic/core/dynamics/scenarios.py"
CHK = "src/scenic/core/sample_checking.py"
UTL = "src/scenic/core/utils.py"
VIS = "src/scenic/core/visibility.py"
REG = "src/scenic/core/regions.py"
DIST = "src/scenic/core/distributions.py"
LAZY = "src/scenic/core/lazy_eval.py"

ORDERED_CTORS = {"tuple", "list", "dict", "reversed", "enumerate", "zip", "iter"}
UNORDERED_CTORS = {"set", "frozenset"}
VIEW_METHODS = {"values", "keys", "items", "copy"}
MUTATORS = {"append", "extend", "add", "update", "setdefault", "insert"}


def _src(node):
    try:
        return ast.unparse(node)
    except Exception:
        return ast.dump(node)[:60]


def _key(node):
    """tracked container identity: Name -> 'x', self.attr -> 'self.x'"""
    if isinstance(node, ast.Name):
        return node.id
    if isinstance(node, ast.Attribute) and is_name(node.value, "self"):
        return "self." + node.attr
    return None


class Tracker:
    """Local container-kind tracker for one function (plus the `self.x = ...` initialisers of other
    methods given in `extra`).  `opaque` maps source text of expressions whose order is established
    elsewhere to True/False (ordered / unordered)."""

    def __init__(self, fns, opaque=None, params=None):
        self.fns = fns if isinstance(fns, list) else [fns]
        self.opaque = opaque or {}
        self.params = params or {}
        self.assign = {}
        self.why = []
        self.active = set()
        self.parents = {}
        for fn in self.fns:
            for node in ast.walk(fn):
                for ch in ast.iter_child_nodes(node):
                    self.parents[ch] = node
            for node in ast.walk(fn):
                if isinstance(node, ast.Assign):
                    for t in node.targets:
                        self._bind(t, node.value)
                elif isinstance(node, ast.AnnAssign) and node.value is not None:
                    self._bind(node.target, node.value)

    def _bind(self, target, value):
        k = _key(target)
        if k is not None:
            self.assign.setdefault(k, []).append(value)
        elif isinstance(target, (ast.Tuple, ast.List)):
            for idx, t in enumerate(target.elts):
                k = _key(t)
                if k is not None:
                    self.assign.setdefault(k, []).append(("unpack", idx, value))

    # ------------------------------------------------------------------ order of an expression
    def ordered(self, e, depth=0):
        expect(depth < 40, "container tracker: recursion too deep")
        s = _src(e) if not isinstance(e, tuple) else None
        if isinstance(e, tuple):  # ("unpack", idx, call)
            key = f"{_src(e[2])}[{e[1]}]"
            if key in self.opaque:
                return self.opaque[key]
            raise TemplateMismatch(f"container tracker: cannot resolve unpacked value {key}")
        if s in self.opaque:
            return self.opaque[s]
        if isinstance(e, (ast.List, ast.Tuple, ast.Dict, ast.Constant)):
            return True
        if isinstance(e, (ast.Set, ast.SetComp)):
            self.why.append(f"set display `{s}`")
            return False
        if isinstance(e, (ast.ListComp, ast.GeneratorExp, ast.DictComp)):
            return all(self.ordered(g.iter, depth + 1) for g in e.generators)
        if isinstance(e, ast.BinOp) and isinstance(e.op, ast.Add):
            return self.ordered(e.left, depth + 1) and self.ordered(e.right, depth + 1)
        if isinstance(e, ast.Call):
            f = e.func
            if isinstance(f, ast.Name):
                if f.id in UNORDERED_CTORS:
                    self.why.append(f"`{s}`")
                    return False
                if f.id in ORDERED_CTORS:
                    return all(self.ordered(a, depth + 1) for a in e.args)
                if f.id == "sorted":
                    raise TemplateMismatch(f"container tracker: sorted() with unknown key: {s}")
            if isinstance(f, ast.Attribute):
                if f.attr in VIEW_METHODS and not e.args:
                    return self.ordered(f.value, depth + 1)
                if f.attr == "chain" and is_name(f.value, "itertools"):
                    return all(self.ordered(a, depth + 1) for a in e.args)
            raise TemplateMismatch(f"container tracker: unknown call `{s}`")
        k = _key(e)
        if k is not None:
            if k in self.params:
                return self.params[k]
            vals = self.assign.get(k)
            if not vals:
                raise TemplateMismatch(f"container tracker: `{k}` has no visible initialiser")
            if k in self.active:  # a container refilled while iterating over itself: decided by the outer visit
                return True
            self.active.add(k)
            try:
                ok = all(self.ordered(v, depth + 1) for v in vals)
                return ok and self.mutations_ordered(k, depth + 1)
            finally:
                self.active.discard(k)
        raise TemplateMismatch(f"container tracker: unknown expression `{s}`")

    def mutations_ordered(self, key, depth=0):
        """every mutation of container `key` happens inside loops over ordered iterables
        (a helper function defined in the same function body that mutates it counts through its calls)"""
        ok = True
        for fn in self.fns:
            helpers = {}
            for node in ast.walk(fn):
                if isinstance(node, ast.FunctionDef) and node is not fn:
                    for sub in ast.walk(node):
                        if self._mutates(sub, key):
                            helpers[node.name] = node
            for node in ast.walk(fn):
                hit = self._mutates(node, key) or (
                    isinstance(node, ast.Call) and isinstance(node.func, ast.Name) and node.func.id in helpers)
                if not hit:
                    continue
                p = self.parents.get(node)
                while p is not None and p is not fn:
                    if isinstance(p, (ast.For, ast.AsyncFor)):
                        if not self.ordered(p.iter, depth + 1):
                            self.why.append(f"`{key}` filled inside `for {_src(p.target)} in {_src(p.iter)}`")
                            ok = False
                    elif isinstance(p, (ast.ListComp, ast.GeneratorExp, ast.SetComp, ast.DictComp)):
                        for g in p.generators:
                            if not self.ordered(g.iter, depth + 1):
                                ok = False
                    p = self.parents.get(p)
        return ok

    @staticmethod
    def _mutates(node, key):
        if isinstance(node, ast.Call) and isinstance(node.func, ast.Attribute) and node.func.attr in MUTATORS:
            return _key(node.func.value) == key
        if isinstance(node, ast.Assign):
            return any(isinstance(t, ast.Subscript) and _key(t.value) == key for t in node.targets)
        return False


def _find_assign(fn, key):
    for node in ast.walk(fn):
        if isinstance(node, ast.Assign) and any(_key(t) == key for t in node.targets):
            return node.value
    raise TemplateMismatch(f"{fn.name}: no assignment to {key}")


# --------------------------------------------------------------------------- 1. order sites
def order_sites(local=False):
    """local=True: judge every site assuming the containers it reads from are ordered (finds root causes)"""
    sites = []  # (name, ordered, why)
    up = (lambda v: True) if local else (lambda v: bool(v))

    def add(name, tr, expr_or_key):
        tr.why = []
        if isinstance(expr_or_key, str):
            e = ast.parse(expr_or_key, mode="eval").body
        else:
            e = expr_or_key
        ok = tr.ordered(e)
        sites.append((name, bool(ok), "; ".join(dict.fromkeys(tr.why))))

    # requirements.getNameBindings: the three returned values
    _, rtree = load(REQ)
    gnb = get_def(rtree, "getNameBindings", REQ)
    rets = sorted((n for n in ast.walk(gnb) if isinstance(n, ast.Return) and isinstance(n.value, ast.Tuple)),
                  key=lambda n: n.lineno)
    expect(len(rets) == 2 and all(len(r.value.elts) == 3 for r in rets), "getNameBindings: return shape changed")
    final = rets[-1].value
    tr = Tracker(gnb, opaque={"externals.builtins": True, "externals.globals": True, "externals.nonlocals": True,
                              # the recursive call returns the same kind of dict (ordered if this one is)
                              "getNameBindings(value, restrictTo=namespace)[0]": True},
                 params={"bindings": True})  # handleFunctions(externals.globals / externals.nonlocals)
    add("requirement.getNameBindings.globals", tr, final.elts[0])
    add("requirement.getNameBindings.closures", tr, final.elts[2])
    closures_ordered = up(sites[-1][1])
    early = rets[0].value.elts[2]
    expect(isinstance(early, (ast.Tuple, ast.List)) and not early.elts, "getNameBindings: early return changed")

    # PendingRequirement.__init__
    pinit = get_def(rtree, "PendingRequirement.__init__", REQ)
    call_txt = None
    for node in ast.walk(pinit):
        if (isinstance(node, ast.Assign) and isinstance(node.targets[0], ast.Tuple) and isinstance(node.value, ast.Call)
                and is_name(node.value.func, "getNameBindings")):
            call_txt = _src(node.value)
            names = [_key(t) for t in node.targets[0].elts]
    expect(call_txt is not None and names == ["gbindings", "cbindings", "closures"],
           "PendingRequirement.__init__: `gbindings, cbindings, closures = getNameBindings(..)` not found")
    tr = Tracker(pinit, opaque={f"{call_txt}[0]": up(sites[0][1]), f"{call_txt}[1]": True, f"{call_txt}[2]": closures_ordered,
                                "condition.atomics()": True, "closure.__closure__": True},
                 params={"condition": True})
    add("requirement.init.cells", tr, "self.cells")
    cells_ordered = up(sites[-1][1])
    add("requirement.init.bindings", tr, "self.globalBindings")
    tr.why = []
    ok2 = tr.ordered(ast.parse("self.closureBindings", mode="eval").body)
    sites[-1] = (sites[-1][0], sites[-1][1] and ok2, sites[-1][2])
    bindings_ordered = up(sites[-1][1])

    # PendingRequirement.compile
    comp = get_def(rtree, "PendingRequirement.compile", REQ)
    tr = Tracker(comp, opaque={"self.globalBindings": bindings_ordered, "self.closureBindings": bindings_ordered,
                               "self.cells": cells_ordered, "scenario.objects": True})
    # `globalBindings, closureBindings = self.globalBindings, self.closureBindings` etc. are tuple-to-tuple assigns
    for node in ast.walk(comp):
        if isinstance(node, ast.Assign) and isinstance(node.targets[0], ast.Tuple) and isinstance(node.value, ast.Tuple):
            for t, v in zip(node.targets[0].elts, node.value.elts):
                k = _key(t)
                if k:
                    tr.assign[k] = [x for x in tr.assign.get(k, []) if not isinstance(x, tuple)] + [v]
    # the dependencies handed to CompiledRequirement(self, closure, <deps>, condition)
    ctor = [n for n in ast.walk(comp) if isinstance(n, ast.Call) and is_name(n.func, "CompiledRequirement")]
    expect(len(ctor) == 1 and len(ctor[0].args) == 4, "PendingRequirement.compile: CompiledRequirement(...) call changed")
    add("requirement.compile.deps", tr, ctor[0].args[2])
    compile_ordered = up(sites[-1][1])

    # DynamicScenario
    _, dtree = load(DYN)
    dinit = get_def(dtree, "DynamicScenario.__init__", DYN)
    dcomp = get_def(dtree, "DynamicScenario._compileRequirements", DYN)
    # name of the accumulator: whatever _toScenario passes as requirementDeps
    tos = get_def(dtree, "DynamicScenario._toScenario", DYN)
    call = None
    for node in ast.walk(tos):
        if isinstance(node, ast.Call) and is_name(node.func, "Scenario"):
            call = node
    expect(call is not None and not call.keywords, "_toScenario: Scenario(...) call not found / uses keywords")
    _, stree = load(SCEN)
    sinit = get_def(stree, "Scenario.__init__", SCEN)
    pnames = [a.arg for a in sinit.args.args][1:]
    expect(len(call.args) == len(pnames), "_toScenario: number of arguments of Scenario(...) changed")
    argof = dict(zip(pnames, call.args))
    for need in ("instances", "params", "requirementDeps", "behaviorNamespaces", "objects"):
        expect(need in argof, f"Scenario.__init__ has no parameter {need}")
    tr = Tracker([dcomp, dinit], opaque={"compiledReq.dependencies": compile_ordered,
                                         "self._pendingRequirements": True})
    acc = argof["requirementDeps"]
    add("dynamic.requirementDeps", tr, acc)
    reqdeps_ordered = up(sites[-1][1])
    tr = Tracker([tos, dinit], opaque={_src(acc): reqdeps_ordered,
                                       "self._globalParameters": True,  # dict built by veneer.param (insertion order)
                                       "self._behaviorNamespaces": True})  # dict built by gatherBehaviorNamespacesFrom
    oks, whys = [], []
    for need in ("instances", "objects", "params", "requirementDeps", "behaviorNamespaces"):
        tr.why = []
        oks.append(tr.ordered(argof[need]))
        whys += tr.why
    sites.append(("dynamic.toScenario", all(oks), "; ".join(whys)))
    passed = dict(zip(("instances", "objects", "params", "requirementDeps", "behaviorNamespaces"), oks))

    # Scenario.__init__
    dep = _find_assign(sinit, "self.dependencies")
    terms = []

    def flat(e):
        if isinstance(e, ast.BinOp) and isinstance(e.op, ast.Add):
            flat(e.left)
            flat(e.right)
        else:
            terms.append(e)
    flat(dep)
    # `namespace` iterates over the values of behaviorNamespaces: module __dict__s (insertion ordered)
    tr = Tracker(sinit, params={k: up(v) for k, v in passed.items()}, opaque={"namespace.values()": True})
    roles = segment_roles(sinit, terms)
    term_of = {r: _strip_tuple(t) for r, t in zip(roles, terms)}  # the names of the locals are irrelevant
    add("scenario.instances", tr, term_of["instances"])
    add("scenario.paramDeps", tr, term_of["params"])
    add("scenario.behaviorDeps", tr, term_of["behaviors"])
    add("scenario.dependencies", tr, dep)
    return sites, [_src(t) for t in terms], roles


# --------------------------------------------------------------------------- 6. segments and compile sources
def _strip_tuple(e):
    while isinstance(e, ast.Call) and isinstance(e.func, ast.Name) and e.func.id in ("tuple", "list") and len(e.args) == 1 \
            and not e.keywords:
        e = e.args[0]
    return e


def _assignments(fn, key):
    return [n.value for n in ast.walk(fn) if isinstance(n, ast.Assign) and any(_key(t) == key for t in n.targets)]


def _is_samplable_test(test, var):
    return (isinstance(test, ast.Call) and is_name(test.func, "isinstance") and len(test.args) == 2
            and is_name(test.args[0], var) and is_name(test.args[1], "Samplable"))


def segment_roles(sinit, terms):
    """role of each operand of `self.dependencies = a + b + ...` (names of locals are irrelevant)"""
    params = [a.arg for a in sinit.args.args]
    roles = []
    for t in terms:
        e = _strip_tuple(t)
        k = _key(e)
        expect(k is not None, f"Scenario.__init__: dependency segment `{_src(t)}` is not a plain container")
        if k in params:
            expect(k == "requirementDeps", f"Scenario.__init__: parameter `{k}` used directly as a dependency segment")
            roles.append("reqDeps")
            continue
        vals = _assignments(sinit, k)
        expect(len(vals) == 1, f"Scenario.__init__: `{k}` is assigned {len(vals)} times")
        v = _strip_tuple(vals[0])
        if is_name(v, "instances"):
            roles.append("instances")
        elif isinstance(v, (ast.GeneratorExp, ast.ListComp)):
            expect(len(v.generators) == 1, f"Scenario.__init__: `{k}`: nested comprehension")
            g = v.generators[0]
            expect(_src(g.iter) == "self.params.values()" and isinstance(g.target, ast.Name) and is_name(v.elt, g.target.id)
                   and len(g.ifs) == 1 and _is_samplable_test(g.ifs[0], g.target.id),
                   f"Scenario.__init__: `{k}` is not the Samplable values of self.params")
            pv = _assignments(sinit, "self.params")
            expect(len(pv) == 1 and _src(pv[0]) == "dict(params)", "Scenario.__init__: self.params is not dict(params)")
            roles.append("params")
        elif isinstance(v, ast.List) and not v.elts:
            # filled by append inside `for ns in self.behaviorNamespaces.values(): for value in ns.values(): if isinstance(..)`
            hits = []
            for outer in ast.walk(sinit):
                if isinstance(outer, ast.For) and _src(outer.iter) == "self.behaviorNamespaces.values()" \
                        and isinstance(outer.target, ast.Name):
                    for inner in outer.body:
                        if isinstance(inner, ast.For) and _src(inner.iter) == f"{outer.target.id}.values()" \
                                and isinstance(inner.target, ast.Name) and len(inner.body) == 1 \
                                and isinstance(inner.body[0], ast.If) and _is_samplable_test(inner.body[0].test, inner.target.id) \
                                and not inner.body[0].orelse and len(inner.body[0].body) == 1 \
                                and _src(inner.body[0].body[0]) == f"{k}.append({inner.target.id})":
                            hits.append(inner)
            muts = [n for n in ast.walk(sinit) if Tracker._mutates(n, k)]
            expect(len(hits) == 1 and len(muts) == 1, f"Scenario.__init__: `{k}` is not the Samplable values of the behavior namespaces")
            bn = _assignments(sinit, "self.behaviorNamespaces")
            expect(len(bn) == 1 and is_name(bn[0], "behaviorNamespaces"), "Scenario.__init__: self.behaviorNamespaces changed")
            roles.append("behaviors")
        else:
            raise TemplateMismatch(f"Scenario.__init__: cannot tell what dependency segment `{_src(t)}` holds")
    expect(sorted(roles) == ["behaviors", "instances", "params", "reqDeps"],
           f"Scenario.__init__: dependency segments are {roles}, expected each of instances/params/reqDeps/behaviors once")
    return roles


def compile_sources():
    """the places where PendingRequirement.compile adds a dependency, in source order, as roles"""
    _, rtree = load(REQ)
    comp = get_def(rtree, "PendingRequirement.compile", REQ)
    adder = acc = None
    for node in comp.body:
        if isinstance(node, ast.FunctionDef) and len(node.body) == 1 and isinstance(node.body[0], ast.Expr):
            c = node.body[0].value
            if (isinstance(c, ast.Call) and isinstance(c.func, ast.Attribute) and c.func.attr == "setdefault"
                    and isinstance(c.func.value, ast.Name) and len(node.args.args) == 1 and len(c.args) == 2):
                a = node.args.args[0].arg
                if _src(c.args[0]) == f"id({a})" and is_name(c.args[1], a):
                    adder, acc = node.name, c.func.value.id
    expect(adder is not None, "PendingRequirement.compile: the identity-keyed `setdefault(id(value), value)` helper was not found")
    init = [n.value for n in comp.body if isinstance(n, ast.Assign) and any(is_name(t, acc) for t in n.targets)]
    expect(len(init) == 1 and isinstance(init[0], ast.Dict) and not init[0].keys, f"compile: `{acc}` is not initialised to an empty dict")
    ctor = [n for n in ast.walk(comp) if isinstance(n, ast.Call) and is_name(n.func, "CompiledRequirement")]
    expect(len(ctor) == 1 and len(ctor[0].args) == 4, "PendingRequirement.compile: CompiledRequirement(...) call changed")
    dv = ctor[0].args[2]
    if isinstance(dv, ast.Name):
        vs = [n.value for n in comp.body if isinstance(n, ast.Assign) and any(is_name(t, dv.id) for t in n.targets)]
        expect(len(vs) == 1, f"compile: `{dv.id}` assigned {len(vs)} times")
        dv = vs[0]
    expect(_src(_strip_tuple(dv)) == f"{acc}.values()", f"compile: the dependencies are not the values of `{acc}`")
    # where the cell values and the merged bindings come from
    cellvals = allb = None
    for n in comp.body:
        if isinstance(n, ast.Assign) and len(n.targets) == 1 and isinstance(n.targets[0], ast.Name):
            v = n.value
            if isinstance(v, ast.GeneratorExp) and len(v.generators) == 1 and _src(v.generators[0].iter) == "cells" \
                    and isinstance(v.generators[0].target, ast.Tuple) and len(v.generators[0].target.elts) == 2 \
                    and is_name(v.elt, getattr(v.generators[0].target.elts[1], "id", None)) and not v.generators[0].ifs:
                cellvals = n.targets[0].id
            if _src(v) == "dict(globalBindings)":
                allb = n.targets[0].id
    expect(cellvals is not None, "compile: generator over the values of `cells` not found")
    expect(allb is not None and any(_src(n) == f"{allb}.update(closureBindings)" for n in comp.body),
           "compile: allBindings = dict(globalBindings); allBindings.update(closureBindings) not found")
    roles = []

    def calls_adder(node):
        return [c for c in ast.walk(node) if isinstance(c, ast.Call) and is_name(c.func, adder)]
    for st in comp.body:
        if isinstance(st, ast.FunctionDef) or not calls_adder(st):
            continue
        if isinstance(st, ast.For) and isinstance(st.target, ast.Name):
            v = st.target.id
            it = st.iter
            parts = it.args if (isinstance(it, ast.Call) and _src(it.func) == "itertools.chain") else [it]
            got = []
            for part in parts:
                if _src(part) == f"{allb}.values()":
                    got.append("bindings")
                elif is_name(part, cellvals):
                    got.append("cells")
                else:
                    raise TemplateMismatch(f"compile: unknown source of dependencies `{_src(part)}`")
            ifs = [b for b in st.body if isinstance(b, ast.If) and calls_adder(b)]
            expect(len(ifs) == 1 and _src(ifs[0].test) == f"needsSampling({v})" and len(ifs[0].body) == 1
                   and _src(ifs[0].body[0]) == f"{adder}({v})" and not ifs[0].orelse,
                   "compile: `if needsSampling(value): addDep(value)` changed")
            roles += got
        elif isinstance(st, ast.If) and _src(st.test) in ("'CanSee' in globalBindings", '"CanSee" in globalBindings'):
            expect(len(st.body) == 1 and isinstance(st.body[0], ast.For) and _src(st.body[0].iter) == "scenario.objects"
                   and isinstance(st.body[0].target, ast.Name) and len(st.body[0].body) == 1
                   and _src(st.body[0].body[0]) == f"{adder}({st.body[0].target.id})" and not st.orelse,
                   "compile: the CanSee branch changed")
            roles.append("objectsIfCanSee")
        elif isinstance(st, ast.If) and _src(st.test) == "ego is not None":
            cs = calls_adder(st)
            expect(len(cs) == 1 and _src(cs[0]) == f"{adder}(ego)" and not st.orelse, "compile: the ego branch changed")
            roles.append("ego")
        else:
            raise TemplateMismatch(f"compile: a dependency is added in an unexpected place: `{_src(st)[:80]}`")
    expect(sorted(roles) == ["bindings", "cells", "ego", "objectsIfCanSee"],
           f"compile: dependency sources are {roles}, expected each of bindings/cells/objectsIfCanSee/ego once")
    return roles


# --------------------------------------------------------------------------- 2./3. _generateInner
def _is_call_to(node, dotted):
    return isinstance(node, ast.Call) and _src(node.func) == dotted


def bracket():
    _, tree = load(SCEN)
    fn = get_def(tree, "Scenario._generateInner", SCEN)
    # activation loop before the while loop
    loops = [n for n in fn.body if isinstance(n, ast.For)]
    whiles = [n for n in fn.body if isinstance(n, ast.While)]
    expect(len(loops) == 1 and len(whiles) == 1 and fn.body.index(loops[0]) < fn.body.index(whiles[0]),
           "_generateInner: expected one activation `for` before one `while`")
    act = loops[0]
    expect(_src(act.iter) == "self.userRequirements" and len(act.body) == 1 and isinstance(act.body[0], ast.If),
           "_generateInner: activation loop shape changed")
    test = act.body[0].test
    expect(isinstance(test, ast.Compare) and len(test.ops) == 1 and _is_call_to(test.left, "random.random")
           and _src(test.comparators[0]) == "req.prob", "_generateInner: activation test is not random.random() <op> req.prob")
    if isinstance(test.ops[0], ast.LtE):
        le = True
    elif isinstance(test.ops[0], ast.Lt):
        le = False
    else:
        raise TemplateMismatch("_generateInner: activation comparator is neither <= nor <")
    thenv, elsev = act.body[0].body, act.body[0].orelse
    expect(len(thenv) == 1 and _src(thenv[0]) == "req.active = True" and len(elsev) == 1
           and _src(elsev[0]) == "req.active = False", "_generateInner: activation assignments changed")
    # bracket inside the while loop (top level statements of the loop body)
    w = whiles[0]
    saved = {}  # var -> 'py' | 'np'
    check_at, events = None, []
    for idx, st in enumerate(w.body):
        if isinstance(st, ast.Assign):
            tg, val = st.targets[0], st.value
            pairs = list(zip(tg.elts, val.elts)) if isinstance(tg, ast.Tuple) and isinstance(val, ast.Tuple) else [(tg, val)]
            for t, v in pairs:
                if _is_call_to(v, "random.getstate") and isinstance(t, ast.Name):
                    saved[t.id] = "py"
                    events.append(("save", "py", idx))
                elif _is_call_to(v, "numpy.random.get_state") and isinstance(t, ast.Name):
                    saved[t.id] = "np"
                    events.append(("save", "np", idx))
                elif isinstance(v, ast.Call) and _src(v.func) == "self.checker.checkRequirements":
                    expect(check_at is None and _src(t) == "rejection" and [_src(a) for a in v.args] == ["sample"],
                           "_generateInner: checkRequirements call shape changed")
                    check_at = idx
        elif isinstance(st, ast.Expr) and isinstance(st.value, ast.Call):
            c = st.value
            if _is_call_to(c, "random.setstate") and len(c.args) == 1 and isinstance(c.args[0], ast.Name):
                events.append(("restore", "py" if saved.get(c.args[0].id) == "py" else "wrong", idx))
            elif _is_call_to(c, "numpy.random.set_state") and len(c.args) == 1 and isinstance(c.args[0], ast.Name):
                events.append(("restore", "np" if saved.get(c.args[0].id) == "np" else "wrong", idx))
    expect(check_at is not None, "_generateInner: self.checker.checkRequirements(sample) not found at loop level")
    # any other statement calling random/numpy.random or the checker between save and restore is unexpected
    for n in ast.walk(fn):
        if isinstance(n, ast.Call) and _src(n.func) in ("random.seed", "numpy.random.seed"):
            raise TemplateMismatch("_generateInner reseeds a generator")
    b = {
        "savePy": any(k == "save" and g == "py" and i < check_at for k, g, i in events),
        "saveNp": any(k == "save" and g == "np" and i < check_at for k, g, i in events),
        "restorePy": any(k == "restore" and g == "py" and i > check_at for k, g, i in events),
        "restoreNp": any(k == "restore" and g == "np" and i > check_at for k, g, i in events),
    }
    # sampleAll over self.dependencies inside the loop, before the check
    found_sample = False
    for n in ast.walk(w):
        if isinstance(n, ast.Call) and _src(n.func) == "Samplable.sampleAll":
            expect([_src(a) for a in n.args] == ["self.dependencies"], "sampleAll is not called on self.dependencies")
            found_sample = True
    expect(found_sample, "_generateInner: Samplable.sampleAll(self.dependencies) not found")
    return b, le


# --------------------------------------------------------------------------- 4. private generators
def _private_rng(fn, what):
    """`rng = <np>.random.default_rng(<int literal>)` present, and no call on the global numpy/random generators"""
    private, seed = False, None
    globals_used = []
    for n in ast.walk(fn):
        if isinstance(n, ast.Call):
            f = _src(n.func)
            if f.endswith("random.default_rng"):
                arg = n.args[0] if n.args else (n.keywords[0].value if n.keywords else None)
                if isinstance(arg, ast.Constant) and isinstance(arg.value, int):
                    private, seed = True, arg.value
                else:
                    globals_used.append(f + "(non-literal seed)")
            elif f.startswith(("random.", "numpy.random.", "np.random.")):
                globals_used.append(f)
    return private and not globals_used, seed, globals_used


def private_sites():
    out = []
    _, ut = load(UTL)
    ok, seed, used = _private_rng(get_def(ut, "findMeshInteriorPoint", UTL), "findMeshInteriorPoint")
    out.append(("utils.findMeshInteriorPoint", ok, f"seed={seed} global={used}"))
    _, vt = load(VIS)
    cs = get_def(vt, "canSee", VIS)
    ok, seed, used = _private_rng(cs, "canSee")
    shuffles = [n for n in ast.walk(cs) if isinstance(n, ast.Call) and isinstance(n.func, ast.Attribute) and n.func.attr == "shuffle"]
    expect(len(shuffles) == 1, "visibility.canSee: expected exactly one shuffle")
    ok = ok and is_name(shuffles[0].func.value, "rng")
    out.append(("visibility.canSee.shuffle", ok, f"seed={seed} global={used}"))
    _, rt = load(REG)
    mesh = get_def(rt, "MeshRegion.mesh", REG)
    bad = [n for n in ast.walk(mesh) if isinstance(n, ast.Attribute) and n.attr == "apply_transform"]
    out.append(("regions.MeshRegion.mesh.no_apply_transform", not bad, ""))
    return out


# --------------------------------------------------------------------------- 5. checker shape
def checker_shape():
    _, ct = load(CHK)
    fn = get_def(ct, "WeightedAcceptanceChecker.checkRequirementsInner", CHK)
    loops = [n for n in fn.body if isinstance(n, ast.For)]
    expect(len(loops) == 1 and _src(loops[0].iter) == "self.sortedRequirements()", "weighted checker: loop changed")
    body = loops[0].body
    rej = [n for n in body if isinstance(n, ast.Assign) and _src(n.targets[0]) == "rejected"]
    expect(len(rej) == 1 and _src(rej[0].value) == "req.falsifiedBy(sample)", "weighted checker: rejected = req.falsifiedBy(sample)")
    last = body[-1]
    expect(isinstance(last, ast.If) and _src(last.test) == "rejected" and isinstance(last.body[0], ast.Return),
           "weighted checker: `if rejected: return`")
    expect(isinstance(fn.body[-1], ast.Return) and _src(fn.body[-1].value) == "None", "weighted checker: final return None")
    sr = get_def(ct, "WeightedAcceptanceChecker.sortedRequirements", CHK)
    txt = [_src(s) for s in sr.body if not (isinstance(s, ast.Expr) and isinstance(s.value, ast.Constant))]
    expect(txt[0] == "reqs = [req for req in self.requirements if req.active]", "sortedRequirements: active filter changed")
    expect(txt[1].startswith("reqs.sort("), "sortedRequirements: sort changed")
    expect(txt[2].replace("\n", " ").startswith("while reqs and reqs[-1].optional:") and "reqs.pop()" in txt[2],
           "sortedRequirements: trailing optional pop changed")
    expect(txt[3] == "return reqs", "sortedRequirements: return changed")
    return True


# --------------------------------------------------------------------------- graph construction and walk
def _loops_sampling(fn):
    """the `for` loops of fn whose body calls `<loop variable>.sample(...)`"""
    out = []
    for node in ast.walk(fn):
        if isinstance(node, ast.For) and isinstance(node.target, ast.Name):
            v = node.target.id
            for sub in ast.walk(node):
                if (isinstance(sub, ast.Call) and isinstance(sub.func, ast.Attribute) and sub.func.attr == "sample"
                        and is_name(sub.func.value, v)):
                    out.append(node)
                    break
    return out


def sample_sites():
    dist, lazy = load(DIST)[1], load(LAZY)[1]
    sinit = get_def(dist, "Samplable.__init__", DIST)
    linit = get_def(lazy, "LazilyEvaluable.__init__", LAZY)
    samp = get_def(dist, "Samplable.sample", DIST)
    sall = get_def(dist, "Samplable.sampleAll", DIST)
    sites = []

    def judge(name, tr, e):
        tr.why = []
        ok = tr.ordered(e)
        sites.append((name, bool(ok), "; ".join(dict.fromkeys(tr.why))))
        return bool(ok)

    # Samplable.__init__: what is handed to LazilyEvaluable.__init__ as `dependencies`
    supers = [n for n in ast.walk(sinit)
              if isinstance(n, ast.Call) and isinstance(n.func, ast.Attribute) and n.func.attr == "__init__"
              and isinstance(n.func.value, ast.Call) and is_name(n.func.value.func, "super")]
    expect(len(supers) == 1 and len(supers[0].args) == 2 and not supers[0].keywords,
           "Samplable.__init__: super().__init__(props, deps) changed")
    passed = supers[0].args[1]
    key = _key(passed)
    expect(key is not None, f"Samplable.__init__: dependencies passed as `{_src(passed)}`")
    appends = [n for n in ast.walk(sinit) if Tracker._mutates(n, key)]
    expect(len(appends) == 1 and isinstance(appends[0], ast.Call) and appends[0].func.attr == "append"
           and len(appends[0].args) == 1, f"Samplable.__init__: `{key}` is not filled by a single append")
    tr = Tracker(sinit, params={"dependencies": True})
    p, loopvar, guard = tr.parents.get(appends[0]), None, None
    while p is not None and p is not sinit:
        if isinstance(p, ast.If) and guard is None:
            guard = p
        if isinstance(p, ast.For):
            expect(loopvar is None, "Samplable.__init__: nested loops around the append")
            expect(isinstance(p.target, ast.Name) and is_name(p.iter, "dependencies"),
                   f"Samplable.__init__: the append is not inside `for <dep> in dependencies` (`{_src(p.iter)}`)")
            loopvar = p.target.id
        p = tr.parents.get(p)
    expect(loopvar is not None and is_name(appends[0].args[0], loopvar),
           "Samplable.__init__: what is appended is not the loop variable")
    expect(guard is not None and _src(guard.test) == f"isLazy({loopvar})" and not guard.orelse,
           "Samplable.__init__: the append is not guarded by `isLazy(<dep>)` alone")
    judge("samplable.init.deps", tr, passed)

    # LazilyEvaluable.__init__: self._dependencies
    judge("lazy.init.dependencies", Tracker(linit, params={"dependencies": True}),
          _find_assign(linit, "self._dependencies"))

    # Samplable.sample: the loop over the children
    loops = _loops_sampling(samp)
    expect(len(loops) == 1, "Samplable.sample: expected one loop sampling the children")
    stored = {"self._conditioned._dependencies": True, "self._dependencies": True}
    expect(any(k in _src(loops[0].iter) for k in stored),
           f"Samplable.sample: the children are not taken from `_dependencies` (`{_src(loops[0].iter)}`)")
    judge("samplable.sample.children", Tracker(samp, opaque=stored), loops[0].iter)

    # Samplable.sampleAll: the loop over the roots
    loops = _loops_sampling(sall)
    expect(len(loops) == 1, "Samplable.sampleAll: expected one loop sampling the quantities")
    judge("samplable.sampleAll.quantities", Tracker(sall, params={"quantities": True}), loops[0].iter)
    return sites


# --------------------------------------------------------------------------- output
def extract():
    sites, terms, segs = order_sites()
    local, _, _ = order_sites(local=True)
    b, le = bracket()
    priv = private_sites()
    checker_shape()
    roots = [n for n, o, _ in local if not o]
    return {"sites": sites, "local": local, "roots": roots, "why": {n: w for n, o, w in local if not o},
            "terms": terms, "segments": segs, "sources": compile_sources(), "bracket": b, "le": le, "private": priv,
            "sample_sites": sample_sites()}


def _b(x):
    return "true" if x else "false"


def _s(x):
    return '"' + x.replace("\\", "\\\\").replace('"', '\\"') + '"'


def to_lean(d):
    sites = ",\n    ".join(f"({_s(n)}, {_b(o)})" for n, o, _ in d["sites"])
    local = ",\n    ".join(f"({_s(n)}, {_b(o)})" for n, o, _ in d["local"])
    why = "\n".join(f"--   {n}: {w}" for n, w in d["why"].items())
    priv = ",\n    ".join(f"({_s(n)}, {_b(o)})" for n, o, _ in d["private"])
    samp = ",\n    ".join(f"({_s(n)}, {_b(o)})" for n, o, _ in d["sample_sites"])
    swhy = "\n".join(f"--   {n}: {w}" for n, o, w in d["sample_sites"] if not o)
    terms = ", ".join(_s(t) for t in d["terms"])
    roots = ", ".join(_s(t) for t in d["roots"])
    segs = ", ".join("." + r for r in d["segments"])
    srcs = ", ".join("." + r for r in d["sources"])
    b = d["bracket"]
    return f"""import ScenicModel.Model.SampleOrder
namespace Scenic.Gen
open Scenic.Det

/-- containers through which random values reach `Scenario.dependencies`
    (site, iteration order = insertion order, taking the containers it is filled from into account) -/
def detOrderSites : List (String × Bool) :=
  [ {sites} ]

/-- the same sites judged on their own (their inputs assumed ordered): the kind of each container -/
def detSiteKinds : List (String × Bool) :=
  [ {local} ]

/-- sites that are themselves iterated in an address-dependent order (root causes) -/
def detUnorderedRoots : List String := [{roots}]
{why}

def detSiteOrdered (name : String) : Bool := (detSiteKinds.lookup name).getD false

/-- the container kinds as the model of the construction of `Scenario.dependencies` takes them -/
def detKinds : Kinds :=
  {{ bindings := detSiteOrdered "requirement.getNameBindings.globals" && detSiteOrdered "requirement.init.bindings",
    closures := detSiteOrdered "requirement.getNameBindings.closures",
    cells := detSiteOrdered "requirement.init.cells",
    compileDeps := detSiteOrdered "requirement.compile.deps",
    dynDeps := detSiteOrdered "dynamic.requirementDeps",
    passed := detSiteOrdered "dynamic.toScenario",
    instances := detSiteOrdered "scenario.instances",
    paramDeps := detSiteOrdered "scenario.paramDeps",
    behaviorDeps := detSiteOrdered "scenario.behaviorDeps",
    dependencies := detSiteOrdered "scenario.dependencies",
    size := 8 }}

/-- the segments concatenated into `Scenario.dependencies`, in source order: as written, and by role -/
def detDependencyTerms : List String := [{terms}]
def detDependencySegs : List Seg := [{segs}]

/-- where `PendingRequirement.compile` adds dependencies, in source order -/
def detCompileSources : List DepSrc := [{srcs}]

/-- generator states saved before / restored after `self.checker.checkRequirements(sample)`
    in `Scenario._generateInner` -/
def detBracket : Bracket :=
  {{ savePy := {_b(b['savePy'])}, saveNp := {_b(b['saveNp'])}, restorePy := {_b(b['restorePy'])}, restoreNp := {_b(b['restoreNp'])} }}

/-- soft-requirement activation compares with `<=` -/
def detActivationLe : Bool := {_b(d['le'])}

/-- internal sampling sites and whether they use a private, constant-seeded generator -/
def detPrivateSites : List (String × Bool) :=
  [ {priv} ]

/-- where the dependency graph walked by `Samplable.sampleAll` is built and iterated
    (site, iteration order = insertion order) -/
def detSampleSites : List (String × Bool) :=
  [ {samp} ]
{swhy}

def detSampleSiteOrdered (name : String) : Bool := (detSampleSites.lookup name).getD false

/-- the iteration kinds as the model of graph construction and of the walk takes them -/
def detSampleKinds : SampleKinds :=
  {{ initDeps := detSampleSiteOrdered "samplable.init.deps",
    stored := detSampleSiteOrdered "lazy.init.dependencies",
    children := detSampleSiteOrdered "samplable.sample.children",
    quantities := detSampleSiteOrdered "samplable.sampleAll.quantities",
    size := 8 }}
end Scenic.Gen
"""


if __name__ == "__main__":
    print(to_lean(extract()))
