"""C09 translator: src/scenic/syntax/scenic.gram -> lean/ScenicModel/Gen/Grammar.lean

The grammar file is read with pegen's own grammar parser (the code that generates scenic/syntax/parser.py), the
nullable / left-recursion / leader flags are computed by pegen's own functions, and every rule is transcribed into
the PEG expression type of Model/Peg.lean:

    item kinds    NAME -> name | other token names -> tok <token number> | 'lit' and "lit" -> lit <id in the literal table>
                  rule name -> ref <index> | (..) group -> alt chain | [x] / x? -> opt | x* x+ s.x+ -> star plus gather
                  &x !x -> pos neg | ~ -> cut | &&x -> forced
    alternative   act <label> (seq item (seq item ... eps)), wrapped in `inv` when it mentions an invalid_ rule
                  (pegen guards those alternatives with self.call_invalid_rules)
    rule body     alt a1 (alt a2 (... fail))

Also generated (and re-checked by the kernel, never trusted): the set F of rules that cannot succeed on a stream without
Scenic-only words, the set S of rules from which no forced item (&&) is reachable, the list R of Scenic-only words,
and the list of Scenic-specific alternatives that survive the erasure (compared with the allow-list in Props/C09Peg.lean).
"""
import ast
import keyword
import os
import token as tokmod

from vlib.ctx import REPO, TemplateMismatch

REL = "src/scenic/syntax/scenic.gram"

# what counts as Python's own words (everything else that looks like an identifier in the grammar is Scenic's)
PY_HARD = set(keyword.kwlist)
PY_SOFT = set(keyword.softkwlist)


def load_grammar(path=None):
    path = path or os.path.join(REPO, REL)
    try:
        from pegen.build import build_parser
        from pegen.parser_generator import compute_left_recursives, compute_nullables
        grammar, _parser, _tok = build_parser(path)
        compute_nullables(grammar.rules)
        compute_left_recursives(grammar.rules)
    except Exception as e:  # pegen refuses the grammar: nothing can be extracted
        raise TemplateMismatch(f"pegen cannot read {REL}: {type(e).__name__}: {e}")
    return grammar


class Conv:
    def __init__(self, grammar):
        from pegen import grammar as G
        from pegen.python_generator import InvalidNodeVisitor
        self.G = G
        self.grammar = grammar
        self.names = list(grammar.rules)
        self.index = {n: i for i, n in enumerate(self.names)}
        self.lits = []
        self.lit_id = {}
        self.hard, self.soft = set(), set()
        self.labels = []          # label -> (rule name, path of alternative)
        self.invalid = InvalidNodeVisitor()
        self.forced_sites = []

    def lit(self, raw):
        val = ast.literal_eval(raw)
        if val not in self.lit_id:
            self.lit_id[val] = len(self.lits)
            self.lits.append(val)
        if val.isidentifier():
            (self.hard if raw.endswith("'") else self.soft).add(val)
        return ("lit", self.lit_id[val])

    def item(self, node, where):
        G = self.G
        if isinstance(node, G.NamedItem):
            return self.item(node.item, where)
        if isinstance(node, G.NameLeaf):
            v = node.value
            if v in self.index:
                return ("ref", self.index[v])
            if v == "NAME":
                return ("name",)
            if v == "SOFT_KEYWORD":
                return ("softkw",)
            if v == "ENDMARKER":
                return ("tok", tokmod.ENDMARKER)
            num = getattr(tokmod, v, None)
            if not isinstance(num, int):
                raise TemplateMismatch(f"unknown token name {v}")
            return ("tok", num)
        if isinstance(node, G.StringLeaf):
            return self.lit(node.value)
        if isinstance(node, G.Group):
            return self.rhs(node.rhs, where)
        if isinstance(node, G.Rhs):
            return self.rhs(node, where)
        if isinstance(node, G.Opt):
            return ("opt", self.item(node.node, where))
        if isinstance(node, G.Gather):
            return ("gather", self.item(node.separator, where), self.item(node.node, where))
        if isinstance(node, G.Repeat0):
            return ("star", self.item(node.node, where))
        if isinstance(node, G.Repeat1):
            return ("plus", self.item(node.node, where))
        if isinstance(node, G.PositiveLookahead):
            return ("pos", self.item(node.node, where))
        if isinstance(node, G.NegativeLookahead):
            return ("neg", self.item(node.node, where))
        if isinstance(node, G.Forced):
            self.forced_sites.append(where)
            return ("forced", self.item(node.node, where))
        if isinstance(node, G.Cut):
            return ("cut",)
        raise TemplateMismatch(f"unknown grammar node {type(node).__name__}")

    def alt(self, alt, where):
        label = len(self.labels)
        self.labels.append(where)
        e = ("eps",)
        for it in reversed(alt.items):
            e = ("seq", self.item(it, where), e)
        e = ("act", label, e)
        if self.invalid.visit(alt):
            e = ("inv", e)
        return e

    def rhs(self, rhs, where):
        e = ("fail",)
        for k in reversed(range(len(rhs.alts))):
            e = ("alt", self.alt(rhs.alts[k], where + (k,)), e)
        return e

    def rule(self, name):
        r = self.grammar.rules[name]
        return self.rhs(r.flatten() if hasattr(r, "flatten") else r.rhs, (name,))


# ------------------------------------------------------------------ analysis (Python mirror of Peg.lean's checkers)
def refs_of(e, acc):
    if e[0] == "ref":
        acc.add(e[1])
    for x in e[1:]:
        if isinstance(x, tuple):
            refs_of(x, acc)
    return acc


def has_forced(e):
    if e[0] == "forced":
        return True
    return any(isinstance(x, tuple) and has_forced(x) for x in e[1:])


def no_err(S, e):
    k = e[0]
    if k == "forced":
        return False
    if k == "ref":
        return e[1] in S
    return all(no_err(S, x) for x in e[1:] if isinstance(x, tuple))


def spine_no_cut(e):
    if e[0] == "cut":
        return False
    if e[0] == "seq":
        return spine_no_cut(e[1]) and spine_no_cut(e[2])
    if e[0] == "act":
        return spine_no_cut(e[2])
    if e[0] == "inv":
        return spine_no_cut(e[1])
    return True


def plain(S, e):
    return no_err(S, e) and spine_no_cut(e)


def must_fail(F, S, R, ci, e):
    k = e[0]
    if k == "lit":
        return e[1] in R
    if k == "ref":
        return e[1] in F
    if k == "seq":
        return must_fail(F, S, R, ci, e[1]) or (plain(S, e[1]) and must_fail(F, S, R, ci, e[2]))
    if k == "alt":
        return must_fail(F, S, R, ci, e[1]) and must_fail(F, S, R, ci, e[2])
    if k == "fail":
        return True
    if k in ("plus", "pos"):
        return must_fail(F, S, R, ci, e[1])
    if k == "gather":
        return must_fail(F, S, R, ci, e[2])
    if k == "act":
        return must_fail(F, S, R, ci, e[2])
    if k == "inv":
        return (not ci) or must_fail(F, S, R, ci, e[1])
    return False


def erase(F, S, R, ci, e):
    k = e[0]
    if k == "alt":
        if must_fail(F, S, R, ci, e[1]):
            return erase(F, S, R, ci, e[2])
        return ("alt", erase(F, S, R, ci, e[1]), erase(F, S, R, ci, e[2]))
    if k in ("seq", "gather"):
        return (k, erase(F, S, R, ci, e[1]), erase(F, S, R, ci, e[2]))
    if k in ("opt", "star", "plus", "pos", "neg", "forced", "inv"):
        return (k, erase(F, S, R, ci, e[1]))
    if k == "act":
        return ("act", e[1], erase(F, S, R, ci, e[2]))
    return e


def mentions(e, scenic_rules, R):
    """does the expression mention a Scenic rule or a Scenic-only word"""
    if e[0] == "ref":
        return e[1] in scenic_rules
    if e[0] == "lit":
        return e[1] in R
    return any(isinstance(x, tuple) and mentions(x, scenic_rules, R) for x in e[1:])


def alts_of(e):
    out = []
    while e[0] == "alt":
        out.append(e[1])
        e = e[2]
    return out


def analyse(conv, bodies, ci=False):
    n = len(bodies)
    lit_id = conv.lit_id
    words = conv.hard | conv.soft
    scenic_words = sorted(w for w in words if w not in PY_HARD and w not in PY_SOFT)
    R = {lit_id[w] for w in scenic_words}
    # S: greatest set of rules from which no forced item is reachable
    S = set(range(n))
    changed = True
    while changed:
        changed = False
        for r in list(S):
            if not no_err(S, bodies[r]):
                S.discard(r)
                changed = True
    # F: least set closed under "the body cannot succeed"
    F = set()
    changed = True
    while changed:
        changed = False
        for r in range(n):
            if r not in F and must_fail(F, S, R, ci, bodies[r]):
                F.add(r)
                changed = True
    return sorted(S), sorted(F), sorted(R), scenic_words


def reachable(bodies, start):
    seen, todo = set(), [start]
    while todo:
        r = todo.pop()
        if r in seen:
            continue
        seen.add(r)
        todo.extend(refs_of(bodies[r], set()) - seen)
    return seen


def residue(conv, bodies, erased, F, R):
    """Scenic-specific alternatives that are still present after the erasure, in rules reachable from `file`"""
    scenic_rules = {i for i, nm in enumerate(conv.names) if nm.startswith("scenic_") or nm.startswith("invalid_scenic_")}
    start = conv.index["file"]
    reach = reachable(erased, start)
    out = []
    for r in sorted(reach):
        for a in alts_of(erased[r]):
            if mentions_top(a, scenic_rules, R):
                label = a[1][1] if a[0] == "inv" else a[1]
                out.append((r, label))
    return out


def mentions_top(a, scenic_rules, R):
    """the alternative itself (not nested rules) mentions a Scenic rule / Scenic-only word"""
    return mentions(a, scenic_rules, R)


def extract(path=None):
    grammar = load_grammar(path)
    conv = Conv(grammar)
    bodies = [conv.rule(nm) for nm in conv.names]
    flags = []
    for nm in conv.names:
        r = grammar.rules[nm]
        flags.append((bool(r.left_recursive), bool(r.leader)))
    S, F, R, scenic_words = analyse(conv, bodies, ci=False)
    Sset, Fset, Rset = set(S), set(F), set(R)
    erased = [erase(Fset, Sset, Rset, False, b) for b in bodies]
    res = residue(conv, bodies, erased, Fset, Rset)
    return {
        "names": conv.names, "bodies": bodies, "flags": flags, "lits": conv.lits,
        "hard": sorted(conv.hard), "soft": sorted(conv.soft),
        "scenic_hard": sorted(conv.hard - PY_HARD), "scenic_soft": sorted(conv.soft - PY_SOFT - PY_HARD),
        "scenic_words": scenic_words, "R": R, "S": S, "F": F, "labels": conv.labels,
        "residue": res, "start": conv.index["file"], "erased": erased,
    }


# ------------------------------------------------------------------ Lean text
def lean_expr(e):
    k = e[0]
    if k in ("eps", "fail", "cut", "name", "softkw"):
        return "." + k
    if k in ("tok", "lit", "ref"):
        return f"(.{k} {e[1]})"
    if k in ("seq", "alt", "gather"):
        return f"(.{k} {lean_expr(e[1])} {lean_expr(e[2])})"
    if k == "act":
        return f"(.act {e[1]} {lean_expr(e[2])})"
    return f"(.{k} {lean_expr(e[1])})"


def to_lean(d):
    out = ["import ScenicModel.Model.Peg",
           "/-! The PEG grammar of src/scenic/syntax/scenic.gram, transcribed rule by rule (actions abstracted to labels).",
           "    rule index = position in `ruleNames`; literal id = position in `lits`; label = running number of the alternative. -/",
           "namespace Scenic.Gen.Grammar", "open Scenic.Peg", "set_option maxRecDepth 100000", ""]
    for i, (nm, b) in enumerate(zip(d["names"], d["bodies"])):
        out.append(f"def r{i} : Expr := {lean_expr(b)}  -- {nm}")
    out.append("")
    rules = ", ".join(f"⟨r{i}, {'true' if d['flags'][i][1] else 'false'}⟩" for i in range(len(d["names"])))
    out.append(f"def rules : Array Rule := #[{rules}]")
    out.append("def ruleNames : List String := [" + ", ".join('"%s"' % n for n in d["names"]) + "]")
    out.append("def lits : Array String := #[" + ", ".join(lean_str(s) for s in d["lits"]) + "]")
    lit_id = {s: i for i, s in enumerate(d["lits"])}

    def ids(ws):
        return "[" + ", ".join(str(lit_id[w]) for w in ws) + "]"

    def nats(xs):
        return "[" + ", ".join(map(str, xs)) + "]"
    out.append("/-- literal ids of the hard keywords ('xxx' in the grammar): such a NAME token is not an identifier -/")
    out.append(f"def keywordIds : List Nat := {ids(d['hard'])}")
    out.append('/-- literal ids of the soft keywords ("xxx" in the grammar) -/')
    out.append(f"def softKeywordIds : List Nat := {ids(d['soft'])}")
    out.append("def grammar : Grammar := ⟨rules, Mask.ofList keywordIds, Mask.ofList softKeywordIds⟩")
    out.append(f"def start : Nat := {d['start']}  -- file")
    out.append("/-- Scenic-only words (keywords of the grammar that are not Python's): " + " ".join(d["scenic_words"]) + " -/")
    out.append(f"def scenicWordIds : List Nat := {nats(d['R'])}")
    out.append("def scenicWordMask : Mask := Mask.ofList scenicWordIds")
    out.append("def scenicHard : List String := [" + ", ".join('"%s"' % w for w in d["scenic_hard"]) + "]")
    out.append("def scenicSoft : List String := [" + ", ".join('"%s"' % w for w in d["scenic_soft"]) + "]")
    out.append("/-- rules claimed unable to succeed on a stream without Scenic-only words (re-checked: `gen_F_ok`) -/")
    out.append(f"def mustFailRules : List Nat := {nats(d['F'])}")
    out.append("def mustFailMask : Mask := Mask.ofList mustFailRules")
    out.append("/-- rules claimed unable to reach a forced item (re-checked: `gen_S_ok`) -/")
    out.append(f"def noForcedRules : List Nat := {nats(d['S'])}")
    out.append("def noForcedMask : Mask := Mask.ofList noForcedRules")
    sc = [i for i, nm in enumerate(d["names"]) if nm.startswith("scenic_") or nm.startswith("invalid_scenic_")]
    out.append("/-- rules whose name starts with scenic_ / invalid_scenic_ -/")
    out.append(f"def scenicRules : List Nat := {nats(sc)}")
    out.append("def scenicRuleMask : Mask := Mask.ofList scenicRules")
    out.append("/-- (rule, label) of the Scenic-specific alternatives that survive the erasure (re-computed: `gen_residue`) -/")
    out.append("def residueIdx : List (Nat × Nat) := [" + ", ".join(f"({r}, {l})" for r, l in d["residue"]) + "]")
    out.append("/-- the same by name: (rule name, index of the alternative in the rule) -/")
    out.append("def residueNames : List (String × Nat) := [" + ", ".join(
        '("%s", %d)' % (d["names"][r], alt_index(d, lab)) for r, lab in d["residue"]) + "]")
    out.append("/-- index of the alternative (within its rule or group) of every label that appears in `residueIdx` -/")
    out.append("def residueAlt : List (Nat × Nat) := [" + ", ".join(
        f"({lab}, {alt_index(d, lab)})" for r, lab in d["residue"]) + "]")
    out.append("")
    out.append("end Scenic.Gen.Grammar")
    return "\n".join(out) + "\n"


def alt_index(d, label):
    path = d["labels"][label]
    return path[1] if len(path) > 1 else 0


def lean_str(s):
    return '"' + s.replace("\\", "\\\\").replace('"', '\\"') + '"'
