"""C09 helper: canonical, location-carrying form of Python syntax trees shared by the Lean model
(Model/Rewrites.lean), its line protocol, and the Python mirror of the documented rewrites.

canonical tree
    node : ("N", tag, loc, [children])      loc = None (node type has no location attributes)
                                                 | "?"  (location missing: only inside the rewrite, before fixLoc)
                                                 | (lineno, end_lineno)
    list : ("L", [children])
    atom : str   "~" None | "s:<ascii identifier>" | "h:<hex of utf-8 identifier>" | "i:<int>" | "c:<hash of a constant>"
token form (one tree per line, tokens separated by one blank; this is what the Lean driver reads and writes)
    "(Tag" loc child* ")"   with loc = "-" | "?" | "<lineno> <end_lineno>"
    "[" child* "]"
    atom

mirror_compile(cfg, tree) is a line-by-line port of Scenic.Rewrites.compile (rw, post, fixLoc); the check
compares the two on every tree it sends to the driver.
"""
import ast
import hashlib


def atom(x, vals=None):
    if x is None:
        return "~"
    if isinstance(x, str) and x.isidentifier():
        return "s:" + x if x.isascii() else "h:" + x.encode("utf8", "surrogatepass").hex()
    if isinstance(x, bool) or not isinstance(x, int):
        a = "c:" + hashlib.blake2b(repr((type(x).__name__, x)).encode("utf8", "surrogatepass"), digest_size=6).hexdigest()
        if vals is not None:
            vals[a] = x
        return a
    return "i:%d" % x


def canon(node, vals=None):
    if isinstance(node, ast.AST):
        if "lineno" in node._attributes:
            l, el = getattr(node, "lineno", None), getattr(node, "end_lineno", None)
            loc = "?" if l is None or el is None else (l, el)
        else:
            loc = None
        return ("N", type(node).__name__, loc, [canon(getattr(node, f, None), vals) for f in node._fields])
    if isinstance(node, list):
        return ("L", [canon(x, vals) for x in node])
    return atom(node, vals)


def tokens(t, out=None):
    out = [] if out is None else out
    if isinstance(t, str):
        out.append(t)
    elif t[0] == "L":
        out.append("[")
        for x in t[1]:
            tokens(x, out)
        out.append("]")
    else:
        out.append("(" + t[1])
        loc = t[2]
        if loc is None:
            out.append("-")
        elif loc == "?":
            out.append("?")
        else:
            out.append(str(loc[0]))
            out.append(str(loc[1]))
        for x in t[3]:
            tokens(x, out)
        out.append(")")
    return out


def parse_tokens(toks):
    pos = 0

    def val():
        nonlocal pos
        t = toks[pos]
        pos += 1
        if t == "[":
            items = []
            while toks[pos] != "]":
                items.append(val())
            pos += 1
            return ("L", items)
        if t.startswith("("):
            tag = t[1:]
            l = toks[pos]
            pos += 1
            if l == "-":
                loc = None
            elif l == "?":
                loc = "?"
            else:
                loc = (int(l), int(toks[pos]))
                pos += 1
            kids = []
            while toks[pos] != ")":
                kids.append(val())
            pos += 1
            return ("N", tag, loc, kids)
        return t
    v = val()
    if pos != len(toks):
        raise ValueError("trailing tokens")
    return v


# ------------------------------------------------------------------ the mirror of Scenic.Rewrites
class Rejected(Exception):
    pass


LOAD = ("N", "Load", None, [])
STORE = ("N", "Store", None, [])


def ident(a):
    """identifier text of an atom, or None"""
    if isinstance(a, str):
        if a.startswith("s:"):
            return a[2:]
        if a.startswith("h:"):
            return bytes.fromhex(a[2:]).decode("utf8", "surrogatepass")
    return None


def is_node(t, tag):
    return isinstance(t, tuple) and t[0] == "N" and t[1] == tag


def mk_name(nm, ctx=LOAD):
    return ("N", "Name", "?", [atom(nm), ctx])


def post_name(cfg, loc, fs):
    nm = ident(fs[0]) if fs else None
    ctx = fs[1] if len(fs) > 1 else None
    is_load = is_node(ctx, "Load")
    if nm is not None and nm in cfg["builtin"]:
        if not is_load:
            raise Rejected("builtin-name-bound")
        if nm == cfg["globalParams"]:
            return ("N", "Call", loc, [mk_name(nm), ("L", []), ("L", [])])
        return ("N", "Name", loc, fs)
    if nm is not None and nm in cfg["tracked"]:
        if not is_load:
            raise Rejected("tracked-name-bound")
        return ("N", "Call", loc, [mk_name(nm), ("L", []), ("L", [])])
    if nm is not None and nm in cfg.get("behaviorLocals", ()):
        # only inside behaviors (not part of the Lean model): a local of the behavior lives on the behavior object
        return ("N", "Attribute", loc, [mk_name("_Scenic_current_behavior"), fs[0], ctx])
    return ("N", "Name", loc, fs)


def bound_names(t, acc):
    """identifiers of Name nodes in Store/Del context (what compiler.LocalFinder collects in an expression)"""
    if isinstance(t, tuple):
        if t[0] == "L":
            for x in t[1]:
                bound_names(x, acc)
        else:
            if t[1] == "Name" and len(t[3]) == 2 and not is_node(t[3][1], "Load") and ident(t[3][0]) is not None:
                acc.add(ident(t[3][0]))
            for x in t[3]:
                bound_names(x, acc)
    return acc


def lineno_of(t):
    if isinstance(t, tuple) and t[0] == "N" and isinstance(t[2], tuple):
        return t[2][0]
    return 0


def post_call(cfg, loc, fs2):
    if len(fs2) != 3 or not (isinstance(fs2[1], tuple) and fs2[1][0] == "L"):
        return ("N", "Call", loc, fs2)
    func, args, kws = fs2
    wrapped = False
    new_args = []
    for a in args[1]:
        if is_node(a, "Starred") and len(a[3]) == 2 and not cfg.get("inBehavior"):
            wrapped = True
            v = a[3][0]
            cv = ("N", "Call", "?", [mk_name(cfg["wrapStar"]),
                                     ("L", [v, ("N", "Constant", "?", ["i:%d" % lineno_of(v), "~"])]), ("L", [])])
            new_args.append(("N", "Starred", "?", [cv, LOAD]))
        else:
            new_args.append(a)
    lifted = dict(cfg["lifted"])
    if is_node(func, "Name") and len(func[3]) == 2 and ident(func[3][0]) in lifted:
        func = ("N", "Name", func[2], [atom(lifted[ident(func[3][0])]), func[3][1]])
    if wrapped:
        return ("N", "Call", loc, [mk_name(cfg["callStar"]), ("L", [func] + new_args), kws])
    return ("N", "Call", loc, [func, ("L", new_args), kws])


def post_class(cfg, loc, fs, fs2):
    # fields: name bases keywords body decorator_list [type_params]
    if len(fs) < 5 or not all(isinstance(fs[i], tuple) and fs[i][0] == "L" for i in (1, 3)):
        return ("N", "ClassDef", loc, fs2)
    if cfg["annAssignRejected"] and any(is_node(st, "AnnAssign") for st in fs[3][1]):
        raise Rejected("class-annotation")
    out = list(fs2)
    if not fs[1][1]:
        out[1] = ("L", [post_name(cfg, "?", [atom(cfg["defaultBase"]), LOAD])])
    table = ("N", "Assign", "?", [("L", [post_name(cfg, "?", [atom(cfg["propTable"]), STORE])]),
                                  ("N", "Dict", "?", [("L", []), ("L", [])]), "~"])
    out[3] = ("L", list(fs2[3][1]) + [table])
    return ("N", "ClassDef", loc, out)


def rw(cfg, t):
    if isinstance(t, str):
        return t
    if t[0] == "L":
        return ("L", [rw(cfg, x) for x in t[1]])
    _, tag, loc, fs = t
    fs2 = [rw(cfg, x) for x in fs]
    if tag == "Name":
        return post_name(cfg, loc, fs)
    if tag == "Call":
        return post_call(cfg, loc, fs2)
    if tag == "ClassDef":
        return post_class(cfg, loc, fs, fs2)
    return ("N", tag, loc, fs2)


def fix_loc(cur, t):
    if isinstance(t, str):
        return t
    if t[0] == "L":
        return ("L", [fix_loc(cur, x) for x in t[1]])
    _, tag, loc, fs = t
    if loc is None:
        return ("N", tag, None, [fix_loc(cur, x) for x in fs])
    if loc == "?":
        return ("N", tag, cur, [fix_loc(cur, x) for x in fs])
    return ("N", tag, loc, [fix_loc(loc, x) for x in fs])


def mirror_compile(cfg, t):
    """-> rewritten tree, or raises Rejected"""
    return fix_loc((1, 1), rw(cfg, t))
