"""simulators.py / dynamics/scenarios.py / object_types.py  ->  Gen/SimCleanup.lean

Extracts (template matching on the AST, never guessing):

  * the order of the statements of the `finally` block of `Simulation.__init__`           -> simCfg.order
  * whether `self.agents` is assigned before the `try` of `Simulation.__init__`           -> simCfg.agentsEarly
  * whether the statements after `self.destroy()` are protected by a nested try/finally  -> simCfg.destroyGuarded
  * how `DynamicScenario._override` merges the old values of an object overridden twice  -> simCfg.merge
  * whether `DynamicScenario._stop` forgets the overrides it has reverted                -> simCfg.stopClears
  * `DynamicScenario._stop` stops sub-scenarios before reverting its own overrides       -> subsStoppedBeforeRevert
  * `Simulation._createObject` enables the dynamic proxy before the fallible simulator call,
    `Simulation.setup` creates every scene object through it                              -> proxyBeforeCreate
  * `Object.__getattribute__/__setattr__/__delattr__` go through `_dynamicProxy`; `enable/disableDynamicProxyFor`
    and `_override/_revert` have the modelled shape                                       (template only)
"""
import ast

from translate.astutil import TemplateMismatch, body_nodoc, expect, get_def, is_name, load

SIM = "src/scenic/core/simulators.py"
DYN = "src/scenic/core/dynamics/scenarios.py"
OBJ = "src/scenic/core/object_types.py"


def _is_self_attr(node, attr):
    return isinstance(node, ast.Attribute) and is_name(node.value, "self") and node.attr == attr


def _call_name(node):
    """dotted name of the callee of an expression statement / call node"""
    if isinstance(node, ast.Expr):
        node = node.value
    if not isinstance(node, ast.Call):
        return None
    f = node.func
    parts = []
    while isinstance(f, ast.Attribute):
        parts.append(f.attr)
        f = f.value
    if isinstance(f, ast.Name):
        parts.append(f.id)
        return ".".join(reversed(parts))
    return None


def _classify_finally_stmt(st):
    name = _call_name(st)
    if name == "self.destroy":
        return "destroy"
    if name == "veneer.endSimulation":
        expect(len(st.value.args) == 1 and is_name(st.value.args[0], "self"), "endSimulation(self)")
        return "endSimulation"
    if isinstance(st, ast.For) and not st.orelse:
        it = st.iter
        if _is_self_attr(it, "objects"):
            expect(len(st.body) == 1 and _call_name(st.body[0]) == "disableDynamicProxyFor" and isinstance(st.target, ast.Name)
                   and is_name(st.body[0].value.args[0], st.target.id), "for obj in self.objects: disableDynamicProxyFor(obj)")
            return "disableProxies"
        if _is_self_attr(it, "agents"):
            expect(len(st.body) == 1 and isinstance(st.body[0], ast.If) and not st.body[0].orelse
                   and len(st.body[0].body) == 1 and (_call_name(st.body[0].body[0]) or "").endswith(".behavior._stop"),
                   "for agent in self.agents: if …: agent.behavior._stop()")
            return "stopBehaviors"
        # for scenario in tuple(reversed(veneer.runningScenarios)): scenario._stop("exception", quiet=True)
        if (isinstance(it, ast.Call) and is_name(it.func, "tuple") and len(it.args) == 1
                and isinstance(it.args[0], ast.Call) and is_name(it.args[0].func, "reversed")
                and isinstance(it.args[0].args[0], ast.Attribute) and it.args[0].args[0].attr == "runningScenarios"):
            expect(len(st.body) == 1 and (_call_name(st.body[0]) or "").endswith("._stop"), "scenario._stop(…)")
            kws = {k.arg: k.value for k in st.body[0].value.keywords}
            expect("quiet" in kws and isinstance(kws["quiet"], ast.Constant) and kws["quiet"].value is True,
                   "running scenarios are not stopped quietly in the finally block")
            return "stopScenarios"
    raise TemplateMismatch(f"unexpected statement in the finally block of Simulation.__init__: {ast.unparse(st)[:80]}")


def _extract_init(tree):
    fn = get_def(tree, "Simulation.__init__", SIM)
    body = body_nodoc(fn)
    tries = [i for i, st in enumerate(body) if isinstance(st, ast.Try)]
    expect(len(tries) == 1, "Simulation.__init__ no longer has exactly one try statement")
    ti = tries[0]
    tr = body[ti]
    expect(tr.finalbody and ti == len(body) - 1, "the try/finally is not the last statement of Simulation.__init__")
    fin = tr.finalbody
    guarded = False
    if len(fin) == 1 and isinstance(fin[0], ast.Try):
        # try: self.destroy()  finally: <the other clean-up statements>   (they run even if destroy() raises)
        inner = fin[0]
        expect(not inner.handlers and not inner.orelse and len(inner.body) == 1 and _call_name(inner.body[0]) == "self.destroy"
               and inner.finalbody, "nested try in the finally block of Simulation.__init__ is not `try: self.destroy() finally: …`")
        fin = inner.body + inner.finalbody
        guarded = True
    order = [_classify_finally_stmt(st) for st in fin]
    expect(len(set(order)) == len(order), "a clean-up step occurs twice in the finally block")
    # beginSimulation is the first call inside the try (after the import)
    first_calls = [_call_name(st) for st in tr.body if _call_name(st)]
    expect(first_calls and first_calls[0] == "veneer.beginSimulation", "veneer.beginSimulation is not the first call in the try block")
    expect("self.setup" in first_calls and first_calls.index("self.setup") == 1, "self.setup() does not directly follow beginSimulation")
    agents_early = False
    for st in body[:ti]:
        for n in ast.walk(st):
            if isinstance(n, ast.Assign) and any(_is_self_attr(t, "agents") for t in n.targets):
                agents_early = True
    # rejections are re-raised (not swallowed) by the except clause
    for h in tr.handlers:
        expect(isinstance(h.body[-1], ast.Raise) and h.body[-1].exc is None, "an except clause of Simulation.__init__ does not re-raise")
    return order, agents_early, guarded


def _extract_create(tree):
    fn = get_def(tree, "Simulation._createObject", SIM)
    names = [_call_name(st) for st in body_nodoc(fn)]
    names = [n for n in names if n]
    for need in ("self.objects.append", "enableDynamicProxyFor", "self.createObjectInSimulator"):
        expect(need in names, f"_createObject no longer calls {need}")
    before = (names.index("self.objects.append") < names.index("self.createObjectInSimulator")
              and names.index("enableDynamicProxyFor") < names.index("self.createObjectInSimulator"))
    setup = get_def(tree, "Simulation.setup", SIM)
    ok = False
    for st in body_nodoc(setup):
        if (isinstance(st, ast.For) and isinstance(st.iter, ast.Attribute) and st.iter.attr == "objects"
                and len(st.body) == 1 and _call_name(st.body[0]) == "self._createObject"):
            ok = True
    expect(ok, "Simulation.setup no longer creates every scene object through _createObject")
    return before


def _norm(node):
    """source of a node with every variable name (except self) replaced by v0, v1, … in order of first appearance,
    so that renaming a local or a parameter does not break a template"""
    import copy
    node = copy.deepcopy(node)
    names = {}

    def nm(x):
        if x == "self":
            return x
        if x not in names:
            names[x] = f"v{len(names)}"
        return names[x]
    for n in ast.walk(node):
        if isinstance(n, ast.arg):
            n.arg = nm(n.arg)
    for n in ast.walk(node):
        if isinstance(n, ast.Name):
            n.id = nm(n.id)
    if isinstance(node, (ast.FunctionDef, ast.AsyncFunctionDef)):
        return [ast.unparse(s) for s in body_nodoc(node)]
    return ast.unparse(node)


def _tmpl(src):
    return _norm(ast.parse(src).body[0])


_OVERRIDE_TEMPLATES = {
    "keepOldest": """def _override(self, obj, specifiers):
    oldVals = obj._override(specifiers)
    if obj not in self._overrides:
        self._overrides[obj] = oldVals
    else:
        saved = self._overrides[obj]
        for prop, val in oldVals.items():
            saved.setdefault(prop, val)
""",
    "firstDictOnly": """def _override(self, obj, specifiers):
    oldVals = obj._override(specifiers)
    if obj not in self._overrides:
        self._overrides[obj] = oldVals
""",
    "overwriteDict": """def _override(self, obj, specifiers):
    oldVals = obj._override(specifiers)
    self._overrides[obj] = oldVals
""",
    "overwriteDict2": """def _override(self, obj, specifiers):
    self._overrides[obj] = obj._override(specifiers)
""",
}


def _extract_override(tree):
    fn = get_def(tree, "DynamicScenario._override", DYN)
    got = _norm(fn)
    for mode, src in _OVERRIDE_TEMPLATES.items():
        if got == _tmpl(src):
            return mode.rstrip("2")
    raise TemplateMismatch("DynamicScenario._override has an unknown shape: " + "; ".join(got)[:200])


def _extract_stop(tree):
    fn = get_def(tree, "DynamicScenario._stop", DYN)
    body = body_nodoc(fn)
    revert = subs = end = None
    clears = False
    for i, st in enumerate(body):
        if isinstance(st, ast.For):
            it = ast.unparse(st.iter)
            if it == "self._overrides.items()":
                # for a, b in self._overrides.items(): a._revert(b)
                ok = (isinstance(st.target, ast.Tuple) and len(st.target.elts) == 2
                      and all(isinstance(e, ast.Name) for e in st.target.elts) and len(st.body) == 1
                      and ast.unparse(st.body[0]) == f"{st.target.elts[0].id}._revert({st.target.elts[1].id})")
                expect(ok, "the revert loop of _stop changed")
                revert = i
            elif it == "self._subScenarios":
                v = st.target.id if isinstance(st.target, ast.Name) else "?"
                expect(len(st.body) == 1 and isinstance(st.body[0], ast.If)
                       and ast.unparse(st.body[0].test) == f"{v}._isRunning" and not st.body[0].orelse
                       and len(st.body[0].body) == 1
                       and (_call_name(st.body[0].body[0]) or "") == f"{v}._stop", "the sub-scenario loop of _stop changed")
                subs = i
        elif _call_name(st) == "veneer.endScenario":
            end = i
        elif isinstance(st, ast.Assign) and any(_is_self_attr(t, "_overrides") for t in st.targets):
            expect(isinstance(st.value, ast.Dict) and not st.value.keys, "self._overrides assigned something else than {} in _stop")
            expect(revert is not None and i > revert, "self._overrides is cleared before it is reverted")
            clears = True
        elif _call_name(st) == "self._overrides.clear":
            expect(revert is not None and i > revert, "self._overrides is cleared before it is reverted")
            clears = True
    expect(revert is not None, "DynamicScenario._stop no longer reverts self._overrides")
    expect(subs is not None and end is not None, "DynamicScenario._stop: sub-scenario loop / endScenario call not found")
    return clears, subs < revert


def _check_object_proxy(tree):
    for meth, src in (("__getattribute__", "def f(self, name):\n    proxy = object.__getattribute__(self, '_dynamicProxy')\n    return object.__getattribute__(proxy, name)\n"),
                      ("__setattr__", "def f(self, name, value):\n    proxy = object.__getattribute__(self, '_dynamicProxy')\n    object.__setattr__(proxy, name, value)\n"),
                      ("__delattr__", "def f(self, name):\n    proxy = object.__getattribute__(self, '_dynamicProxy')\n    object.__delattr__(proxy, name)\n")):
        fn = get_def(tree, f"Object.{meth}", OBJ)
        expect(_norm(fn) == _tmpl(src), f"Object.{meth} no longer goes through _dynamicProxy")
    for name, val in (("enableDynamicProxyFor", "obj._copyWith()"), ("disableDynamicProxyFor", "obj")):
        fn = get_def(tree, name, OBJ)
        expect(_norm(fn) == _tmpl(f"def f(obj):\n    object.__setattr__(obj, '_dynamicProxy', {val})\n"), f"{name} changed shape")
    rv = get_def(tree, "Constructible._revert", OBJ)
    expect(_norm(rv) == _tmpl("def f(self, oldVals):\n    for prop, val in oldVals.items():\n        object.__setattr__(self, prop, val)\n"),
           "Constructible._revert changed")
    ov = get_def(tree, "Constructible._override", OBJ)
    reads = [n.lineno for n in ast.walk(ov) if isinstance(n, ast.Assign) and isinstance(n.targets[0], ast.Subscript)
             and isinstance(n.value, ast.Call) and is_name(n.value.func, "getattr") and is_name(n.value.args[0], "self")]
    writes = [n.lineno for n in ast.walk(ov) if isinstance(n, ast.Call) and ast.unparse(n.func) == "object.__setattr__"
              and is_name(n.args[0], "self")]
    expect(len(reads) == 1 and len(writes) == 1 and reads[0] < writes[0],
           "Constructible._override no longer reads the old values before assigning the new ones")


def extract():
    _, sim = load(SIM)
    _, dyn = load(DYN)
    _, obj = load(OBJ)
    order, agents_early, guarded = _extract_init(sim)
    proxy_first = _extract_create(sim)
    merge = _extract_override(dyn)
    clears, subs_first = _extract_stop(dyn)
    _check_object_proxy(obj)
    return {"order": order, "agentsEarly": agents_early, "destroyGuarded": guarded, "merge": merge, "stopClears": clears,
            "subsFirst": subs_first, "proxyBeforeCreate": proxy_first}


def to_lean(d):
    b = lambda x: "true" if x else "false"
    order = ", ".join("." + s for s in d["order"])
    return f"""import ScenicModel.Model.Overrides
namespace Scenic.Gen
open Scenic.Overrides
/-- `Simulation.__init__` (order of the `finally` block, `self.agents` before the `try`),
    `DynamicScenario._override` (merge of old values) and `DynamicScenario._stop` (forgets reverted overrides) -/
def simCfg : Cfg :=
  {{ order := [{order}],
    merge := .{d['merge']},
    stopClears := {b(d['stopClears'])},
    agentsEarly := {b(d['agentsEarly'])},
    destroyGuarded := {b(d['destroyGuarded'])} }}
/-- `DynamicScenario._stop` stops its sub-scenarios before it reverts its own overrides -/
def subsStoppedBeforeRevert : Bool := {b(d['subsFirst'])}
/-- `Simulation._createObject` registers the object and enables its proxy before calling the simulator -/
def proxyBeforeCreate : Bool := {b(d['proxyBeforeCreate'])}
end Scenic.Gen
"""
