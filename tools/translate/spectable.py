"""veneer.py specifier functions + docs/reference/specifiers.rst  ->  Gen/SpecTable.lean

(T) for C06.  Two independent extractions:

* `extract_code()`: a small symbolic walk over every module-level function of veneer.py that returns
  `Specifier(...)` / `ModifyingSpecifier(...)` (directly or through a helper such as
  `directionalSpecHelper`), forking on every `if`; yields, per function and argument-kind variant, the
  name, the priorities dictionary (in insertion order), the statically known dependencies, the
  modifying flag and the modifiable set.
* `extract_docs()`: the "Specifies / Dependencies" blocks of the reference.

Whitelist based: anything the walker does not understand where it matters raises TemplateMismatch.
The association "which documentation section describes which function/variant" (DOC_OF) is part of
the trusted base.
"""
import ast
import os
import re

from translate.astutil import TemplateMismatch, load
from vlib.ctx import REPO

VENEER = "src/scenic/syntax/veneer.py"
DOCS = "docs/reference/specifiers.rst"

# condition text -> label of the variant selected when the condition is true
VARIANT_CONDS = {
    "alwaysProvidesOrientation(region)": "oriented",
    "isA(target, Region) and alwaysProvidesOrientation(target)": "oriented",
    "isA(pos, Object)": "object",
    "isA(pos, OrientedPoint)": "orientedPoint",
    "isA(heading, VectorField)": "field",
}
# label when none of the whitelisted conditions holds
DEFAULT_LABEL = {
    "In": "plain", "ContainedIn": "plain", "On": "plain", "Facing": "value",
    "LeftSpec": "vector", "RightSpec": "vector", "Ahead": "vector", "Behind": "vector",
    "Above": "vector", "Below": "vector",
}

_LR = "(left | right) of "
_AB = "(ahead of | behind) "
_UD = "(above | below) "
_VIS = "visible [from (*Point* | *OrientedPoint*)]"


def _dir(prefix):
    return {"vector": prefix + ("(*vector*)" if prefix == _LR else "*vector*") + " [by *scalar*]",
            "orientedPoint": prefix + "*OrientedPoint* [by *scalar*]",
            "object": prefix + "*Object* [by *scalar*]"}


# (function, variant) -> (documentation section title, do the "(if ...)" bullets apply)
DOC_OF = {
    ("With", ""): ("with *property* *value*", False),
    ("At", ""): ("at *vector*", False),
    ("In", "plain"): ("in *region*", False),
    ("In", "oriented"): ("in *region*", True),
    ("ContainedIn", "plain"): ("contained in *region*", False),
    ("ContainedIn", "oriented"): ("contained in *region*", True),
    ("On", "plain"): ("on (*region* | *Object* | *vector*)", False),
    ("On", "oriented"): ("on (*region* | *Object* | *vector*)", True),
    ("OffsetBy", ""): ("offset by *vector*", False),
    ("OffsetAlongSpec", ""): ("offset along *direction* by *vector*", False),
    ("Beyond", ""): ("beyond *vector* by (*vector* | *scalar*) [from (*vector* | *OrientedPoint*)]", False),
    ("VisibleFrom", ""): (_VIS, False),
    ("VisibleSpec", ""): (_VIS, False),
    ("NotVisibleFrom", ""): ("not " + _VIS, False),
    ("NotVisibleSpec", ""): ("not " + _VIS, False),
    ("Following", ""): ("following *vectorField* [from *vector*] for *scalar*", False),
    ("Facing", "value"): ("facing *orientation*", False),
    ("Facing", "field"): ("facing *vectorField*", False),
    ("FacingToward", ""): ("facing (toward | away from) *vector*", False),
    ("FacingAwayFrom", ""): ("facing (toward | away from) *vector*", False),
    ("FacingDirectlyToward", ""): ("facing directly (toward | away from) *vector*", False),
    ("FacingDirectlyAwayFrom", ""): ("facing directly (toward | away from) *vector*", False),
    ("ApparentlyFacing", ""): ("apparently facing *heading* [from *vector*]", False),
}
for _f, _p in (("LeftSpec", _LR), ("RightSpec", _LR), ("Ahead", _AB), ("Behind", _AB), ("Above", _UD), ("Below", _UD)):
    for _v, _t in _dir(_p).items():
        DOC_OF[(_f, _v)] = (_t, False)

SPEC_CLASSES = ("Specifier", "ModifyingSpecifier")


class _Dead(Exception):
    pass


def _is_spec_call(node):
    return isinstance(node, ast.Call) and isinstance(node.func, ast.Name) and node.func.id in SPEC_CLASSES


class Walker:
    def __init__(self, tree):
        self.funcs = {n.name: n for n in tree.body if isinstance(n, ast.FunctionDef)}
        # functions that build specifiers, directly or through another such function
        direct = {name for name, fn in self.funcs.items()
                  if any(isinstance(r, ast.Return) and _is_spec_call(r.value) for r in ast.walk(fn))}
        self.spec_funcs = set(direct)
        changed = True
        while changed:
            changed = False
            for name, fn in self.funcs.items():
                if name in self.spec_funcs:
                    continue
                for r in ast.walk(fn):
                    if (isinstance(r, ast.Return) and isinstance(r.value, ast.Call)
                            and isinstance(r.value.func, ast.Name) and r.value.func.id in self.spec_funcs):
                        self.spec_funcs.add(name)
                        changed = True

    # ---- expression evaluation (abstract) ----
    def ev(self, node, env):
        if isinstance(node, ast.Constant) and isinstance(node.value, str):
            return ("str", node.value)
        if isinstance(node, ast.Constant) and isinstance(node.value, int) and not isinstance(node.value, bool):
            return ("int", node.value)
        if isinstance(node, ast.Name):
            return env.get(node.id, ("opaque",))
        if isinstance(node, ast.Dict):
            keys, ok = [], True
            for k, v in zip(node.keys, node.values):
                kk = self.ev(k, env) if k is not None else ("opaque",)
                vv = self.ev(v, env)
                if kk[0] in ("str", "param") and vv[0] == "int":
                    keys.append((kk[1] if kk[0] == "str" else "$" + kk[1], vv[1]))
                else:
                    ok = False
            if ok and node.keys:
                return ("dict", tuple(keys))
            return ("plaindict",)
        if isinstance(node, ast.Set):
            elems = []
            for e in node.elts:
                v = self.ev(e, env)
                if v[0] != "str":
                    raise TemplateMismatch(f"dependency set element is not a known string: {ast.unparse(e)}")
                elems.append(v[1])
            return ("set", frozenset(elems), False)
        if isinstance(node, ast.BinOp) and isinstance(node.op, ast.BitOr):
            l, r = self.ev(node.left, env), self.ev(node.right, env)
            if l[0] == "set" and r[0] == "set":
                return ("set", l[1] | r[1], l[2] or r[2])
            return ("opaque",)
        if isinstance(node, ast.Call) and isinstance(node.func, ast.Name):
            if node.func.id == "requiredProperties":
                return ("set", frozenset(), True)
            if node.func.id == "DelayedArgument":
                if not node.args:
                    raise TemplateMismatch("DelayedArgument without arguments")
                s = self.ev(node.args[0], env)
                if s[0] != "set":
                    raise TemplateMismatch(f"DelayedArgument dependencies not understood: {ast.unparse(node.args[0])}")
                return ("da", s[1], s[2])
        if isinstance(node, ast.JoinedStr):
            parts = []
            for v in node.values:
                if isinstance(v, ast.Constant):
                    parts.append(v.value)
                elif isinstance(v, ast.FormattedValue) and isinstance(v.value, ast.Name) and env.get(v.value.id, ("",))[0] == "param":
                    parts.append("$" + v.value.id)
                else:
                    return ("opaque",)
            return ("str", "".join(parts))
        return ("opaque",)

    def spec_entry(self, call, env):
        cls = call.func.id
        args = list(call.args)
        kw = {k.arg: k.value for k in call.keywords}
        names = ["name", "priorities", "value"] + (["modifiable_props", "deps"] if cls == "ModifyingSpecifier" else ["deps"])
        for nm, a in zip(names, args):
            kw[nm] = a
        if len(args) > len(names) or not {"name", "priorities", "value"} <= set(kw):
            raise TemplateMismatch(f"{cls}(...) call shape not understood: {ast.unparse(call)[:80]}")
        name = self.ev(kw["name"], env)
        if name[0] != "str":
            raise TemplateMismatch(f"specifier name not a known string: {ast.unparse(kw['name'])}")
        pr = self.ev(kw["priorities"], env)
        if pr[0] != "dict":
            raise TemplateMismatch(f"priorities not a known constant dictionary: {ast.unparse(kw['priorities'])}")
        val = self.ev(kw["value"], env)
        deps, vdeps = frozenset(), False
        if val[0] == "da":
            deps, vdeps = val[1], val[2]
        elif val[0] in ("plaindict", "dict"):
            pass
        else:
            raise TemplateMismatch(f"specifier value not understood: {ast.unparse(kw['value'])[:60]}")
        if "deps" in kw:
            d = self.ev(kw["deps"], env)
            if d[0] != "set":
                raise TemplateMismatch("explicit deps not understood")
            deps, vdeps = deps | d[1], vdeps or d[2]
        modifiable = ()
        if cls == "ModifyingSpecifier":
            m = self.ev(kw.get("modifiable_props", ast.Constant(value=None)), env)
            if m[0] != "set" or m[2]:
                raise TemplateMismatch("modifiable_props not a constant set")
            modifiable = tuple(sorted(m[1]))
        return {"name": name[1], "prios": list(pr[1]), "deps": sorted(deps), "valueDeps": vdeps,
                "modifying": cls == "ModifyingSpecifier", "modifiable": list(modifiable)}

    # ---- statements ----
    def run_function(self, fname, argvals, depth=0):
        """-> list of (entry, conds)"""
        if depth > 3:
            raise TemplateMismatch("helper recursion too deep")
        fn = self.funcs[fname]
        a = fn.args
        if a.vararg or a.kwarg or a.kwonlyargs:
            raise TemplateMismatch(f"{fname}: unexpected signature")
        env = {}
        params = [p.arg for p in a.args]
        for i, p in enumerate(params):
            env[p] = argvals[i] if i < len(argvals) and argvals[i] is not None else ("param", p)
        results = []
        self.block(fn.body, env, [], results, depth)
        return results

    def block(self, stmts, env, conds, results, depth):
        """Executes stmts; returns list of (env, conds) falling through."""
        states = [(env, conds)]
        for st in stmts:
            nxt = []
            for env, conds in states:
                nxt.extend(self.stmt(st, env, conds, results, depth))
            states = nxt
            if not states:
                break
        return states

    def stmt(self, st, env, conds, results, depth):
        if isinstance(st, ast.Return):
            v = st.value
            if _is_spec_call(v):
                results.append((self.spec_entry(v, env), list(conds)))
            elif isinstance(v, ast.Call) and isinstance(v.func, ast.Name) and v.func.id in self.spec_funcs:
                if v.keywords:
                    raise TemplateMismatch(f"keyword call of helper {v.func.id}")
                argvals = []
                for a in v.args:
                    x = self.ev(a, env)
                    argvals.append(x if x[0] in ("str", "int") else None)
                for e, c in self.run_function(v.func.id, argvals, depth + 1):
                    results.append((e, list(conds) + c))
            else:
                raise TemplateMismatch(f"return of something that is not a specifier: {ast.unparse(st)[:60]}")
            return []
        if isinstance(st, ast.Raise):
            return []
        if isinstance(st, ast.If):
            text = ast.unparse(st.test)
            out = []
            out += self.block(st.body, dict(env), conds + [(text, True)], results, depth)
            out += self.block(st.orelse, dict(env), conds + [(text, False)], results, depth)
            return out
        if isinstance(st, (ast.FunctionDef, ast.AsyncFunctionDef)):
            for n in ast.walk(st):
                if isinstance(n, (ast.Subscript, ast.Name)) and isinstance(getattr(n, "ctx", None), ast.Store):
                    base = n.value if isinstance(n, ast.Subscript) else n
                    if isinstance(n, ast.Subscript) and isinstance(base, ast.Name) and env.get(base.id, ("",))[0] == "dict":
                        raise TemplateMismatch(f"nested function writes to priorities dictionary {base.id}")
                if isinstance(n, (ast.Nonlocal, ast.Global)):
                    raise TemplateMismatch("nested function with nonlocal/global")
            env = dict(env)
            env[st.name] = ("opaque",)
            return [(env, conds)]
        if isinstance(st, ast.Assign):
            env = dict(env)
            val = self.ev(st.value, env)
            for t in st.targets:
                if isinstance(t, ast.Name):
                    env[t.id] = val
                elif isinstance(t, ast.Subscript) and isinstance(t.value, ast.Name):
                    cur = env.get(t.value.id, ("opaque",))
                    if cur[0] == "dict":
                        k = self.ev(t.slice, env)
                        if k[0] != "str" or val[0] != "int":
                            raise TemplateMismatch(f"non-constant update of priorities: {ast.unparse(st)}")
                        d = [(a, b) for a, b in cur[1] if a != k[1]]
                        if len(d) == len(cur[1]):
                            d.append((k[1], val[1]))
                        else:
                            d = [(a, (val[1] if a == k[1] else b)) for a, b in cur[1]]
                        env[t.value.id] = ("dict", tuple(d))
                elif isinstance(t, (ast.Tuple, ast.List)):
                    for e in t.elts:
                        if isinstance(e, ast.Name):
                            env[e.id] = ("opaque",)
                        else:
                            raise TemplateMismatch(f"assignment target not understood: {ast.unparse(st)[:60]}")
                else:
                    raise TemplateMismatch(f"assignment target not understood: {ast.unparse(st)[:60]}")
            return [(env, conds)]
        if isinstance(st, ast.AugAssign):
            if isinstance(st.target, ast.Name):
                cur = env.get(st.target.id, ("opaque",))
                if cur[0] in ("dict", "set", "da"):
                    raise TemplateMismatch(f"in-place update of tracked value: {ast.unparse(st)}")
                env = dict(env)
                env[st.target.id] = ("opaque",)
                return [(env, conds)]
            raise TemplateMismatch(f"statement not understood: {ast.unparse(st)[:60]}")
        if isinstance(st, ast.Expr):
            # a docstring or a call for effect; calls that could mutate a tracked dictionary are refused
            for n in ast.walk(st):
                if isinstance(n, ast.Call) and isinstance(n.func, ast.Attribute) and isinstance(n.func.value, ast.Name) \
                        and env.get(n.func.value.id, ("",))[0] in ("dict", "set"):
                    raise TemplateMismatch(f"method call on tracked value: {ast.unparse(st)[:60]}")
            return [(env, conds)]
        if isinstance(st, (ast.Pass, ast.Assert, ast.Import, ast.ImportFrom)):
            return [(env, conds)]
        raise TemplateMismatch(f"statement kind not understood in specifier function: {type(st).__name__}")


def _freeze(e):
    return (e["name"], tuple(e["prios"]), tuple(e["deps"]), e["valueDeps"], e["modifying"], tuple(e["modifiable"]))


def extract_code():
    src, tree = load(VENEER)
    w = Walker(tree)
    # helpers = functions only ever called by other specifier functions with constant strings
    # (their own parameters appear in the name/deps): detected as "cannot be evaluated stand-alone"
    helpers = set()
    entries = []
    order = [n.name for n in tree.body if isinstance(n, ast.FunctionDef) and n.name in w.spec_funcs]
    for fname in order:
        try:
            res = w.run_function(fname, [])
        except TemplateMismatch as e:
            if "not a known string" in str(e) and fname not in {k[0] for k in DOC_OF}:
                helpers.add(fname)  # e.g. directionalSpecHelper: evaluated through its callers
                continue
            raise TemplateMismatch(f"{fname}: {e}")
        if not res:
            raise TemplateMismatch(f"{fname}: no path returns a specifier")
        byvar = {}
        for e, conds in res:
            labels = [VARIANT_CONDS[t] for t, b in conds if b and t in VARIANT_CONDS]
            if len(labels) > 1:
                raise TemplateMismatch(f"{fname}: several variant conditions hold at once: {labels}")
            var = labels[0] if labels else None
            byvar.setdefault(var, set()).add(_freeze(e))
            byvar.setdefault(("entry", var), e)
        variants = [k for k in byvar if not isinstance(k, tuple)]
        for v in variants:
            if len(byvar[v]) != 1:
                raise TemplateMismatch(f"{fname}: a condition outside the whitelist changes the specifier (variant {v})")
        if len({next(iter(byvar[v])) for v in variants}) == 1:
            entries.append(dict(byvar[("entry", variants[0])], func=fname, variant=""))
        else:
            for v in sorted(variants, key=lambda x: (x is not None, str(x))):
                label = v if v is not None else DEFAULT_LABEL.get(fname)
                if label is None:
                    raise TemplateMismatch(f"{fname}: unnamed variant")
                entries.append(dict(byvar[("entry", v)], func=fname, variant=label))
    for e in entries:
        key = (e["func"], e["variant"])
        if key not in DOC_OF:
            raise TemplateMismatch(f"specifier function/variant {key} has no documentation section assigned")
        e["doc"], e["cond"] = DOC_OF[key]
        e["key"] = e["func"] + ("/" + e["variant"] if e["variant"] else "")
    missing = set(DOC_OF) - {(e["func"], e["variant"]) for e in entries}
    if missing:
        raise TemplateMismatch(f"expected specifier functions/variants not found: {sorted(missing)}")
    return entries


# --------------------------------------------------------------------------- documentation
_BULLET = re.compile(r"^\s*\*\s+(.*)$")
_PROPPRIO = re.compile(r"^:prop:`(\w+)` with priority (\d+)(.*)$")


def extract_docs():
    path = os.path.join(REPO, DOCS)
    try:
        lines = open(path).read().split("\n")
    except OSError as e:
        raise TemplateMismatch(f"cannot read {DOCS}: {e}")
    # level-2 sections: title line followed by a line of dashes of at least the same length
    heads = [i for i in range(len(lines) - 1)
             if lines[i].strip() and re.fullmatch(r"-{3,}", lines[i + 1].strip()) and len(lines[i + 1].strip()) >= len(lines[i].strip())]
    end = next((i for i, l in enumerate(lines) if l.strip() == "Specifier Resolution"), len(lines))
    docs = []
    for n, h in enumerate(heads):
        if h > end:
            break
        stop = min(heads[n + 1] if n + 1 < len(heads) else len(lines), end if h < end else len(lines))
        body = lines[h + 2:stop]
        title = lines[h].strip()
        try:
            si = next(i for i, l in enumerate(body) if l.strip() == "**Specifies**:")
            di = next(i for i, l in enumerate(body) if l.strip().startswith("**Dependencies**:"))
        except StopIteration:
            raise TemplateMismatch(f"docs section {title!r}: no Specifies/Dependencies block")
        specifies, modifies = [], []
        for l in body[si + 1:di]:
            if not l.strip():
                continue
            m = _BULLET.match(l)
            if not m:
                raise TemplateMismatch(f"docs section {title!r}: unexpected line in Specifies block: {l.strip()[:60]}")
            text = m.group(1).strip()
            if text == "the given property, with priority 1":
                specifies.append(("$prop", 1, False))
                continue
            if text == "also adds a requirement (see below)":
                continue
            pm = _PROPPRIO.match(text)
            if not pm:
                raise TemplateMismatch(f"docs section {title!r}: bullet not understood: {text[:60]}")
            prop, prio, rest = pm.group(1), int(pm.group(2)), pm.group(3).strip()
            cond = False
            if rest.startswith("(if "):
                cond = True
            elif rest == "; **modifies** existing value, if any":
                modifies.append(prop)
            elif rest:
                raise TemplateMismatch(f"docs section {title!r}: bullet suffix not understood: {rest[:60]}")
            specifies.append((prop, prio, cond))
        dl = body[di].strip()[len("**Dependencies**:"):].strip()
        if dl == "None":
            deps = []
        else:
            parts = [p.strip() for p in dl.split("•")]
            deps = []
            for p in parts:
                mm = re.fullmatch(r":prop:`(\w+)`", p)
                if not mm:
                    raise TemplateMismatch(f"docs section {title!r}: dependency not understood: {p[:40]}")
                deps.append(mm.group(1))
        docs.append({"title": title, "specifies": specifies, "deps": sorted(deps), "modifies": sorted(modifies)})
    if not docs:
        raise TemplateMismatch("no specifier sections found in the reference")
    return docs


# --------------------------------------------------------------------------- Lean
def _s(x):
    if '"' in x or "\\" in x or "\n" in x:
        raise TemplateMismatch(f"string not representable: {x!r}")
    return '"' + x + '"'


def _strs(xs):
    return "[" + ", ".join(_s(x) for x in xs) + "]"


def to_lean(code, docs, order_all=False):
    out = ["import ScenicModel.Model.Specifiers",
           "namespace Scenic.Gen",
           "open Scenic.Spec",
           "",
           "/-- `dfs` orders a modifying specifier after the specifiers of all the properties it modifies",
           "(false: only of the last one -- `modifying_inv = {spec: prop ...}`) -/",
           f"def modifierOrdersAllProps : Bool := {str(bool(order_all)).lower()}",
           "",
           "/-- one entry per specifier function of veneer.py and argument-kind variant -/",
           "def specTable : List BuiltinEntry := ["]
    rows = []
    for e in code:
        pr = "[" + ", ".join(f"({_s(p)}, {k})" for p, k in e["prios"]) + "]"
        rows.append(f"  ⟨{_s(e['key'])}, {_s(e['doc'])}, {str(e['cond']).lower()}, {str(e['valueDeps']).lower()},\n"
                    f"    ⟨{_s(e['name'])}, {pr}, {_strs(e['deps'])}, {str(e['modifying']).lower()}, {_strs(e['modifiable'])}⟩⟩")
    out.append(",\n".join(rows))
    out += ["]", "", "/-- the Specifies / Dependencies blocks of docs/reference/specifiers.rst -/",
            "def docTable : List DocEntry := ["]
    rows = []
    for d in docs:
        sp = "[" + ", ".join(f"({_s(p)}, {k}, {str(c).lower()})" for p, k, c in d["specifies"]) + "]"
        rows.append(f"  ⟨{_s(d['title'])}, {sp}, {_strs(d['deps'])}, {_strs(d['modifies'])}⟩")
    out.append(",\n".join(rows))
    out += ["]", "", "end Scenic.Gen"]
    return "\n".join(out) + "\n"


if __name__ == "__main__":
    c, d = extract_code(), extract_docs()
    for e in c:
        print(e["key"], e["name"], e["prios"], e["deps"], e["valueDeps"], e["modifying"], e["modifiable"], "|", e["doc"], e["cond"])
    for x in d:
        print(x)


# --------------------------------------------------------------------------- a shape fact of _resolveSpecifiers
def extract_modifier_order():
    """Does `dfs` visit, for a modifying specifier, the specifiers of all the properties it modifies
    (`modifying_inv[spec]` is a list) or only of one (`modifying_inv = {spec: prop ...}`)? -> bool"""
    src, tree = load("src/scenic/core/object_types.py")
    from translate.astutil import get_def
    fn = get_def(tree, "Constructible._resolveSpecifiers", "object_types.py")
    assigns = [n for n in ast.walk(fn) if isinstance(n, ast.Assign) and len(n.targets) == 1
               and isinstance(n.targets[0], ast.Name) and n.targets[0].id == "modifying_inv"]
    if len(assigns) != 1:
        raise TemplateMismatch("modifying_inv is not assigned exactly once")
    val = ast.unparse(assigns[0].value)
    dfs = [n for n in ast.walk(fn) if isinstance(n, ast.FunctionDef) and n.name == "dfs"]
    if len(dfs) != 1:
        raise TemplateMismatch("nested function dfs not found")
    uses = [n for n in ast.walk(dfs[0]) if isinstance(n, ast.If) and ast.unparse(n.test) == "spec in modifying_inv"]
    if len(uses) != 1:
        raise TemplateMismatch("`if spec in modifying_inv:` not found in dfs")
    body = [ast.unparse(s) for s in uses[0].body]
    if val == "{spec: prop for prop, spec in modifying.items()}" and body == [
            "specifying_spec = properties[modifying_inv[spec]]", "dfs(specifying_spec)"]:
        return False
    if val in ("collections.defaultdict(list)", "defaultdict(list)") and body == [
            "for prop in modifying_inv[spec]:\n    dfs(properties[prop])"]:
        fill = [n for n in ast.walk(fn) if isinstance(n, ast.For) and ast.unparse(n.iter) == "modifying.items()"
                and [ast.unparse(s) for s in n.body] == ["modifying_inv[spec].append(prop)"]
                and ast.unparse(n.target) == "(prop, spec)"]
        if len(fill) == 1:
            return True
    raise TemplateMismatch(f"shape of modifying_inv / its use in dfs not recognised: {val[:60]} / {body[:2]}")
