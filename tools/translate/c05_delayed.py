"""C05: which operands the constructors of derived DelayedArguments collect required properties from
(src/scenic/core/lazy_eval.py) -> Gen/DelayedShapes.lean

For `makeDelayedFunctionCall`, `DelayedArgument.__call__`, `makeDelayedOperatorHandler.handler` and
`DelayedArgument.__getattr__` the expression that becomes the `requiredProps` of the new DelayedArgument is located
(first argument of the `DelayedArgument(...)` call that is returned, local single-assignment names inlined) and the
operand sources unioned into it are read off: `self._requiredProperties`, and `requiredProperties(arg) for arg in X`
with X one of `args`, `kwargs.values()`, `itertools.chain(args, kwargs.values())`.  The inner `value` function must
evaluate every operand with `valueInContext` (positional: a generator over `args`; keyword: a dict comprehension over
`kwargs.items()`; self: `self.evaluateIn(context)`).  Anything else is a TemplateMismatch.
"""
import ast

from translate.astutil import TemplateMismatch, body_nodoc, expect, get_def, load

REL = "src/scenic/core/lazy_eval.py"


def _inline(fn):
    """single-assignment locals of fn (Name -> value expression)"""
    env = {}
    for st in body_nodoc(fn):
        if isinstance(st, ast.Assign) and len(st.targets) == 1 and isinstance(st.targets[0], ast.Name):
            expect(st.targets[0].id not in env, f"{fn.name}: `{st.targets[0].id}` assigned twice")
            env[st.targets[0].id] = st.value
    return env


def _returned_delayed(fn):
    rets = [st for st in body_nodoc(fn) if isinstance(st, ast.Return)]
    expect(len(rets) == 1, f"{fn.name}: expected exactly one top-level return")
    call = rets[0].value
    expect(isinstance(call, ast.Call) and isinstance(call.func, ast.Name) and call.func.id == "DelayedArgument" and call.args,
           f"{fn.name}: does not return DelayedArgument(...)")
    return call


def _iter_sources(it, where):
    """the operand collections an iterable ranges over"""
    if isinstance(it, ast.Name) and it.id == "args":
        return {"pos"}
    if (isinstance(it, ast.Call) and isinstance(it.func, ast.Attribute) and it.func.attr == "values" and not it.args
            and isinstance(it.func.value, ast.Name) and it.func.value.id == "kwargs"):
        return {"kw"}
    if (isinstance(it, ast.Call) and isinstance(it.func, ast.Attribute) and it.func.attr == "chain"
            and isinstance(it.func.value, ast.Name) and it.func.value.id == "itertools"):
        out = set()
        for a in it.args:
            out |= _iter_sources(a, where)
        return out
    raise TemplateMismatch(f"{where}: unexpected iterable `{ast.unparse(it)}`")


def _collected(expr, env, where, depth=0):
    """sources unioned into a required-properties expression -> subset of {'self','pos','kw'}"""
    expect(depth < 6, f"{where}: expression too deep")
    if isinstance(expr, ast.Name) and expr.id in env:
        return _collected(env[expr.id], env, where, depth + 1)
    if isinstance(expr, ast.Attribute) and expr.attr == "_requiredProperties" and isinstance(expr.value, ast.Name) \
            and expr.value.id == "self":
        return {"self"}
    if isinstance(expr, ast.Call) and isinstance(expr.func, ast.Name) and expr.func.id == "set":
        out = set()
        for a in expr.args:
            out |= _collected(a, env, where, depth + 1)
        return out
    if isinstance(expr, ast.Call) and isinstance(expr.func, ast.Attribute) and expr.func.attr == "union":
        out = _collected(expr.func.value, env, where, depth + 1)
        for a in expr.args:
            out |= _collected(a.value if isinstance(a, ast.Starred) else a, env, where, depth + 1)
        return out
    if isinstance(expr, (ast.GeneratorExp, ast.ListComp, ast.SetComp)):
        expect(len(expr.generators) == 1 and not expr.generators[0].ifs, f"{where}: unexpected comprehension")
        g = expr.generators[0]
        elt = expr.elt
        expect(isinstance(elt, ast.Call) and isinstance(elt.func, ast.Name) and elt.func.id == "requiredProperties"
               and len(elt.args) == 1 and isinstance(elt.args[0], ast.Name) and isinstance(g.target, ast.Name)
               and elt.args[0].id == g.target.id, f"{where}: unexpected element `{ast.unparse(elt)}`")
        return _iter_sources(g.iter, where)
    if isinstance(expr, ast.BinOp) and isinstance(expr.op, ast.BitOr):
        return _collected(expr.left, env, where, depth + 1) | _collected(expr.right, env, where, depth + 1)
    raise TemplateMismatch(f"{where}: unexpected required-properties expression `{ast.unparse(expr)[:80]}`")


def _evaluated(fn, where):
    """operands the inner `value(context)` function evaluates -> subset of {'self','pos','kw'}"""
    inner = [st for st in body_nodoc(fn) if isinstance(st, ast.FunctionDef) and st.name == "value"]
    expect(len(inner) == 1, f"{where}: inner function `value` not found")
    out = set()
    for node in ast.walk(inner[0]):
        if isinstance(node, (ast.GeneratorExp, ast.ListComp, ast.DictComp)):
            g = node.generators[0]
            val = node.value if isinstance(node, ast.DictComp) else node.elt
            expect(isinstance(val, ast.Call) and isinstance(val.func, ast.Name) and val.func.id == "valueInContext",
                   f"{where}: operand not evaluated with valueInContext: `{ast.unparse(val)}`")
            if isinstance(g.iter, ast.Name) and g.iter.id == "args":
                out.add("pos")
            elif (isinstance(g.iter, ast.Call) and isinstance(g.iter.func, ast.Attribute) and g.iter.func.attr == "items"
                  and isinstance(g.iter.func.value, ast.Name) and g.iter.func.value.id == "kwargs"):
                out.add("kw")
            else:
                raise TemplateMismatch(f"{where}: unexpected iterable in value(): `{ast.unparse(g.iter)}`")
        if (isinstance(node, ast.Call) and isinstance(node.func, ast.Attribute) and node.func.attr == "evaluateIn"
                and isinstance(node.func.value, ast.Name) and node.func.value.id == "self"):
            out.add("self")
    return out


def extract():
    _, tree = load(REL)
    fc = get_def(tree, "makeDelayedFunctionCall", REL)
    c_fc = _collected(_returned_delayed(fc).args[0], _inline(fc), "makeDelayedFunctionCall")
    expect(_evaluated(fc, "makeDelayedFunctionCall") == {"pos", "kw"}, "makeDelayedFunctionCall: value() does not evaluate args and kwargs")
    dc = get_def(tree, "DelayedArgument.__call__", REL)
    c_dc = _collected(_returned_delayed(dc).args[0], _inline(dc), "DelayedArgument.__call__")
    expect(_evaluated(dc, "DelayedArgument.__call__") == {"self", "pos", "kw"}, "DelayedArgument.__call__: value() shape")
    oh = get_def(tree, "makeDelayedOperatorHandler", REL)
    handlers = [st for st in body_nodoc(oh) if isinstance(st, ast.FunctionDef) and st.name == "handler"]
    expect(len(handlers) == 1, "makeDelayedOperatorHandler: handler not found")
    h = handlers[0]
    expect(h.args.kwarg is None, "makeDelayedOperatorHandler.handler takes keyword arguments")
    c_oh = _collected(_returned_delayed(h).args[0], _inline(h), "makeDelayedOperatorHandler.handler")
    expect(_evaluated(h, "makeDelayedOperatorHandler.handler") == {"self", "pos"}, "operator handler: value() shape")
    ga = get_def(tree, "DelayedArgument.__getattr__", REL)
    rets = [n for n in ast.walk(ga) if isinstance(n, ast.Return) and isinstance(n.value, ast.Call)
            and isinstance(n.value.func, ast.Name) and n.value.func.id == "DelayedArgument"]
    expect(len(rets) == 1, "DelayedArgument.__getattr__: shape")
    c_ga = _collected(rets[0].value.args[0], {}, "DelayedArgument.__getattr__")
    # every caller hands its keyword arguments on (distributionFunction / distributionMethod / vectorDistributionMethod)
    callers = {}
    for rel, qual in (("src/scenic/core/distributions.py", "distributionFunction"), ("src/scenic/core/distributions.py", "distributionMethod"),
                      ("src/scenic/core/vectors.py", "vectorDistributionMethod")):
        _, t = load(rel)
        fn = get_def(t, qual, rel)
        calls = [n for n in ast.walk(fn) if isinstance(n, ast.Call) and isinstance(n.func, ast.Name) and n.func.id == "makeDelayedFunctionCall"]
        expect(len(calls) == 1 and len(calls[0].args) == 3, f"{qual}: makeDelayedFunctionCall call shape")
        callers[qual] = isinstance(calls[0].args[2], ast.Name) and calls[0].args[2].id == "kwargs"
    return {"fnPos": "pos" in c_fc, "fnKw": "kw" in c_fc and all(callers.values()),
            "dcallSelf": "self" in c_dc, "dcallPos": "pos" in c_dc, "dcallKw": "kw" in c_dc,
            "opSelf": "self" in c_oh, "opArgs": "pos" in c_oh, "attrSelf": "self" in c_ga}


def to_lean(d):
    b = lambda x: "true" if x else "false"
    fields = ", ".join(f"{k} := {b(d[k])}" for k in ("fnPos", "fnKw", "dcallSelf", "dcallPos", "dcallKw", "opSelf", "opArgs", "attrSelf"))
    return f"""import ScenicModel.Model.Delayed
namespace Scenic.Gen

/-- which operands the constructors of derived DelayedArguments in src/scenic/core/lazy_eval.py collect
    `requiredProperties` from (makeDelayedFunctionCall, DelayedArgument.__call__, makeDelayedOperatorHandler,
    DelayedArgument.__getattr__); every one of them evaluates all its operands with valueInContext -/
def delayedShapes : Scenic.Delayed.Shapes :=
  {{ {fields} }}

end Scenic.Gen
"""


if __name__ == "__main__":
    print(extract())
