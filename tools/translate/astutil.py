"""Small helpers shared by the template-extraction translators.

Translators are whitelist based: they match the *shape* of the anchored source against a template
and pull out constants / operators / orders.  Anything that does not match raises
TemplateMismatch (the tie then rests on the correspondence check at thorough budget)."""
import ast
import os

from vlib.ctx import REPO, TemplateMismatch, find_def


def load(rel):
    path = os.path.join(REPO, rel)
    try:
        src = open(path).read()
        return src, ast.parse(src)
    except (OSError, SyntaxError) as e:
        raise TemplateMismatch(f"cannot parse {rel}: {e}")


def get_def(tree, qual, rel="?"):
    node = find_def(tree, qual)
    if node is None:
        raise TemplateMismatch(f"{qual} not found in {rel}")
    return node


def const_int(node):
    """Integer literal, possibly negated."""
    if isinstance(node, ast.Constant) and isinstance(node.value, int) and not isinstance(node.value, bool):
        return node.value
    if isinstance(node, ast.UnaryOp) and isinstance(node.op, ast.USub):
        return -const_int(node.operand)
    raise TemplateMismatch(f"expected integer literal, got {ast.dump(node)[:80]}")


def expect(cond, msg):
    if not cond:
        raise TemplateMismatch(msg)


def is_name(node, name):
    return isinstance(node, ast.Name) and node.id == name


def body_nodoc(fn):
    body = fn.body
    if body and isinstance(body[0], ast.Expr) and isinstance(body[0].value, ast.Constant) and isinstance(body[0].value.value, str):
        body = body[1:]
    return body


def lean_int(z):
    return f"({z})" if z < 0 else str(z)
