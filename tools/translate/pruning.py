"""pruning.py / relations.py / regions.py / geometry.py  ->  Gen/Pruning.lean

Template extraction: every anchored function is compared with a *source template with holes*
(`HOLE_x` names match any expression and bind it, `HOLE_STMT_x` matches one statement,
`HOLE_REST_x` the remaining statements of a block).  The holes are the choices the Lean model
is parametric in (operator dispatch, coefficient signs, which pitch is passed, iteration-count
expressions, ...); each bound hole is interpreted by a small whitelist interpreter.  Anything
that does not unify, or a hole bound to something the interpreter does not know, raises
TemplateMismatch -- the tie then rests on the correspondence run at thorough budget.
"""
import ast
import textwrap
from fractions import Fraction

from translate.astutil import TemplateMismatch, body_nodoc, expect, get_def, load

PRUNING = "src/scenic/core/pruning.py"
RELATIONS = "src/scenic/syntax/relations.py"
REGIONS = "src/scenic/core/regions.py"
GEOMETRY = "src/scenic/core/geometry.py"


# --------------------------------------------------------------------------- unifier
def _is_hole(node, prefix="HOLE_"):
    return isinstance(node, ast.Name) and node.id.startswith(prefix)


def _stmt_hole(node, prefix):
    return isinstance(node, ast.Expr) and _is_hole(node.value, prefix)


def _strip_doc(body):
    if body and isinstance(body[0], ast.Expr) and isinstance(body[0].value, ast.Constant) \
            and isinstance(body[0].value.value, str):
        return body[1:]
    return body


def unify(t, a, b, where):
    """Unify template node t with actual node a, extending bindings b."""
    if _is_hole(t) and not t.id.startswith("HOLE_STMT_") and not t.id.startswith("HOLE_REST_"):
        if t.id in b:
            expect(ast.dump(b[t.id]) == ast.dump(a), f"{where}: hole {t.id} bound to two different things")
        b[t.id] = a
        return
    if type(t) is not type(a):
        raise TemplateMismatch(f"{where}: expected {type(t).__name__}, found {type(a).__name__} "
                               f"(line {getattr(a, 'lineno', '?')})")
    for field in t._fields:
        tv, av = getattr(t, field, None), getattr(a, field, None)
        if field in ("ctx", "type_comment", "kind", "returns", "decorator_list", "type_params"):
            continue
        if isinstance(tv, list):
            expect(isinstance(av, list), f"{where}.{field}: not a list")
            if field == "body" and isinstance(t, (ast.FunctionDef,)):
                tv, av = _strip_doc(tv), _strip_doc(av)
            unify_list(tv, av, b, f"{where}.{field}")
        elif isinstance(tv, ast.AST):
            expect(isinstance(av, ast.AST), f"{where}.{field}: missing")
            unify(tv, av, b, f"{where}.{field}")
        else:
            expect(tv == av, f"{where}.{field}: {av!r} where the template has {tv!r} "
                             f"(line {getattr(a, 'lineno', '?')})")


def unify_list(ts, as_, b, where):
    if ts and _stmt_hole(ts[-1], "HOLE_REST_"):
        expect(len(as_) >= len(ts) - 1, f"{where}: too few statements")
        b[ts[-1].value.id] = as_[len(ts) - 1:]
        ts, as_ = ts[:-1], as_[:len(ts) - 1]
    expect(len(ts) == len(as_), f"{where}: {len(as_)} items where the template has {len(ts)}")
    for i, (t, a) in enumerate(zip(ts, as_)):
        if _stmt_hole(t, "HOLE_STMT_"):
            b[t.value.id] = a
        else:
            unify(t, a, b, f"{where}[{i}]")


def match_def(template_src, node, where):
    t = ast.parse(textwrap.dedent(template_src)).body[0]
    b = {}
    unify(t, node, b, where)
    return b


def match_any(templates, node, where):
    errs = []
    for name, src in templates:
        try:
            return name, match_def(src, node, where)
        except TemplateMismatch as e:
            errs.append(f"[{name}] {e}")
    raise TemplateMismatch(f"{where}: no template matches: " + " | ".join(errs)[:600])


def match_stmts(template_src, stmts, where):
    ts = ast.parse(textwrap.dedent(template_src)).body
    b = {}
    unify_list(ts, stmts, b, where)
    return b


# --------------------------------------------------------------------------- interpreters for holes
OPS = {"Lt": "lt", "LtE": "ltE", "Gt": "gt", "GtE": "gtE", "Eq": "eq", "NotEq": "notEq",
       "Is": "is", "IsNot": "isNot", "In": "in_", "NotIn": "notIn"}


def op_name(node, where):
    if isinstance(node, ast.Name) and node.id in OPS:
        return OPS[node.id]
    raise TemplateMismatch(f"{where}: not a comparison-operator class: {ast.dump(node)[:80]}")


def op_names(node, where):
    if isinstance(node, ast.Tuple):
        return [op_name(e, where) for e in node.elts]
    return [op_name(node, where)]


def linear(node, names, where):
    """integer-linear expression over the given names -> {name: coef} (constant term must be 0)"""
    def go(n):
        if isinstance(n, ast.Name) and n.id in names:
            return {n.id: 1}
        if isinstance(n, ast.UnaryOp) and isinstance(n.op, ast.USub):
            return {k: -v for k, v in go(n.operand).items()}
        if isinstance(n, ast.UnaryOp) and isinstance(n.op, ast.UAdd):
            return go(n.operand)
        if isinstance(n, ast.BinOp) and isinstance(n.op, (ast.Add, ast.Sub)):
            l, r = go(n.left), go(n.right)
            s = 1 if isinstance(n.op, ast.Add) else -1
            out = dict(l)
            for k, v in r.items():
                out[k] = out.get(k, 0) + s * v
            return out
        if isinstance(n, ast.BinOp) and isinstance(n.op, ast.Mult):
            for c, e in ((n.left, n.right), (n.right, n.left)):
                if isinstance(c, ast.Constant) and isinstance(c.value, int) and not isinstance(c.value, bool):
                    return {k: c.value * v for k, v in go(e).items()}
        raise TemplateMismatch(f"{where}: not an integer-linear expression in {names}: {ast.unparse(n)}")
    d = go(node)
    return tuple(d.get(k, 0) for k in names)


def is_src(node, src):
    return ast.dump(node) == ast.dump(ast.parse(src, mode="eval").body)


# --------------------------------------------------------------------------- templates
T_INNER = '''
def matchBoundsInner(self, left, right, op, matchAtom):
    if isinstance(op, HOLE_sw1a):
        return self.matchBoundsInner(right, left, HOLE_sw1b(), matchAtom)
    elif isinstance(op, HOLE_sw2a):
        return self.matchBoundsInner(right, left, HOLE_sw2b(), matchAtom)
    elif not isinstance(op, HOLE_bound):
        return None, None, None
    lconst = self.matchConstant(left)
    if isinstance(lconst, (int, float)):
        target = matchAtom(right)
        if target is not None:
            return (
                (lconst, lconst, target)
                if isinstance(op, HOLE_eq1)
                else (lconst, None, target)
            )
        else:
            bounds = self.matchAbsBounds(right, lconst, op, False, matchAtom)
            if bounds is not None:
                return bounds
    rconst = self.matchConstant(right)
    if isinstance(rconst, (int, float)):
        target = matchAtom(left)
        if target is not None:
            return (
                (rconst, rconst, target)
                if isinstance(op, HOLE_eq2)
                else (None, rconst, target)
            )
        else:
            bounds = self.matchAbsBounds(left, rconst, op, True, matchAtom)
            if bounds is not None:
                return bounds
    return None, None, None
'''

# the pre-0216aa9a shape (no operator filter): every operator that is not > / >= is treated as an upper bound
T_INNER_OLD = T_INNER.replace('''    elif not isinstance(op, HOLE_bound):
        return None, None, None
''', '')

T_ABS = '''
def matchAbsBounds(self, node, const, op, isUpperBound, matchAtom):
    if not (
        isinstance(node, Call)
        and isinstance(node.func, Name)
        and node.func.id == "abs"
    ):
        return None
    HOLE_STMT_a
    HOLE_STMT_b
    assert len(node.args) == 1
    arg = node.args[0]
    target = matchAtom(arg)
    if target is not None:
        return (HOLE_plo, HOLE_phi, target)
    elif isinstance(arg, BinOp) and isinstance(arg.op, (Add, Sub)):
        match = None
        slconst = self.matchConstant(arg.left)
        target = matchAtom(arg.right)
        if isinstance(slconst, (int, float)) and target is not None:
            match = slconst
        else:
            srconst = self.matchConstant(arg.right)
            target = matchAtom(arg.left)
            if isinstance(srconst, (int, float)) and target is not None:
                match = srconst
        if match is not None:
            if isinstance(arg.op, Add):
                return (HOLE_alo, HOLE_ahi, target)
            else:
                return (HOLE_slo, HOLE_shi, target)
    return None
'''
T_ABS_GUARD = '''
if not isUpperBound and not isinstance(op, HOLE_eq3):
    return None
'''
T_ABS_NEG = '''
if const < 0:
    self.inconsistencyError(node, HOLE_msg)
'''

T_MATCHBOUNDS = '''
def matchBounds(self, node, matchAtom):
    if not isinstance(node, Compare):
        return {}
    bounds = defaultdict(lambda: (float("-inf"), float("inf")))
    targets = {}
    first = node.left
    for second, op in zip(node.comparators, node.ops):
        lower, upper, target = self.matchBoundsInner(first, second, op, matchAtom)
        first = second
        if target is None:
            continue
        targetID = id(target)
        targets[targetID] = target
        bestLower, bestUpper = bounds[targetID]
        if lower is not None and lower > bestLower:
            bestLower = lower
        if upper is not None and upper < bestUpper:
            bestUpper = upper
        bounds[targetID] = (bestLower, bestUpper)
    return [(target, bounds[id_]) for id_, target in targets.items()]
'''

T_RH_HEAD = '''
def relativeHeadingRange(
    baseHeading, offsetL, offsetR, targetHeading, tOffsetL, tOffsetR
):
    if baseHeading is None or targetHeading is None:
        return -math.pi, math.pi
    lower = normalizeAngle(baseHeading + offsetL)
    upper = normalizeAngle(baseHeading + offsetR)
    points = [lower, upper]
    if upper < lower:
        points.extend((math.pi, -math.pi))
    tLower = normalizeAngle(targetHeading + tOffsetL)
    tUpper = normalizeAngle(targetHeading + tOffsetR)
    tPoints = [tLower, tUpper]
    if tUpper < tLower:
        tPoints.extend((math.pi, -math.pi))
    rhs = [tp - p for tp in tPoints for p in points]
    lower, upper = min(rhs), max(rhs)
    HOLE_REST_tail
'''
RH_WIDE = "if upper - lower >= math.tau:\n    return -math.pi, math.pi\n"
RH_NORM = "lower, upper = normalizeAngle(lower), normalizeAngle(upper)\n"
RH_WRAP = "if lower > upper:\n    return -math.pi, math.pi\n"
RH_RET = "return lower, upper\n"
RH_TAILS = [
    ((True, True, True), RH_WIDE + RH_NORM + RH_WRAP + RH_RET),
    ((True, False, True), RH_NORM + RH_WRAP + RH_RET),
    ((True, True, False), RH_WIDE + RH_NORM + RH_RET),
    ((True, False, False), RH_NORM + RH_RET),
    ((False, False, False), RH_RET),
]

T_NORMALIZE = '''
def normalizeAngle(angle) -> float:
    while angle > math.pi:
        angle -= math.tau
    while angle < -math.pi:
        angle += math.tau
    assert -math.pi <= angle <= math.pi
    return angle
'''

T_FEASIBLE = '''
def feasibleRHPolygon(
    field, offsetL, offsetR, tField, tOffsetL, tOffsetR, lowerBound, upperBound, maxDist
):
    if HOLE_guard:
        return None
    polygons = []
    expanded = [(poly.buffer(maxDist), heading) for poly, heading in tField.cells]
    for baseCell, baseHeading in field.cells:
        for expandedTargetCell, targetHeading in expanded:
            lower, upper = relativeHeadingRange(
                baseHeading, offsetL, offsetR, targetHeading, tOffsetL, tOffsetR
            )
            if HOLE_overlap:
                intersection = baseCell & expandedTargetCell
                if not intersection.is_empty:
                    assert isinstance(
                        intersection, shapely.geometry.Polygon
                    ), intersection
                    polygons.append(intersection)
    return polygonUnion(polygons)
'''

# the part of pruneContainment that the model speaks about: erosion amount and the retry loop
T_CONTAIN_EROSION = '''
if (
    maxDistance is not None
    and minRadius is not None
    and (maxErosion := HOLE_erosion) > 0
):
    if hasattr(container, "buffer"):
        container = container.buffer(-maxErosion)
    elif isinstance(container, MeshVolumeRegion):
        current_pitch = PRUNING_PITCH
        eroded_container = None
        while eroded_container is None:
            HOLE_REST_loop
        if (
            eroded_container is not None
            and eroded_container.size < container.size
        ):
            container = eroded_container
'''
ERODE_LOOPS = [
    # (name, loop body, the body breaks once current_pitch >= 1)
    ("nobreak", '''
eroded_container = container._erodeOverapproximate(
    maxErosion, HOLE_pitcharg
)
if isinstance(eroded_container, VoxelRegion):
    eroded_container = eroded_container.mesh
current_pitch = min(2 * current_pitch, 1)
''', False),
    ("break", '''
eroded_container = container._erodeOverapproximate(
    maxErosion, HOLE_pitcharg
)
if isinstance(eroded_container, VoxelRegion):
    eroded_container = eroded_container.mesh
if current_pitch >= 1:
    break
current_pitch = min(2 * current_pitch, 1)
''', True),
]

T_BUFFERHELPER = '''
def bufferHelper(viewRegion):
    buffer_quantity = HOLE_bufq
    if hasattr(viewRegion, "buffer"):
        return viewRegion.buffer(buffer_quantity)
    elif hasattr(viewRegion, "_bufferOverapproximate"):
        if needsSampling(viewRegion):
            return viewRegion._bufferOverapproximate(buffer_quantity, 1)
        else:
            current_pitch = PRUNING_PITCH
            buffered_container = None
            while buffered_container is None:
                buffered_container = viewRegion._bufferOverapproximate(
                    buffer_quantity, HOLE_pitcharg
                )
                if isinstance(buffered_container, VoxelRegion):
                    buffered_container = buffered_container.mesh
                current_pitch = min(2 * current_pitch, 1)
            assert buffered_container is not None
            return buffered_container
    else:
        assert False
'''

T_ERODE_OVER = '''
def _erodeOverapproximate(self, maxErosion, pitch):
    target_pitch = pitch * max(self.mesh.extents)
    voxelized_mesh = self.voxelized(target_pitch, lazy=True)
    iterations = HOLE_iter
    eroded_mesh = voxelized_mesh.dilation(iterations=HOLE_arg)
    return eroded_mesh
'''

T_BUFFER_OVER = '''
def _bufferOverapproximate(self, minBuffer, pitch):
    if pitch >= 1:
        bounds = self.mesh.bounds
        midpoint = numpy.mean(bounds, axis=0)
        extents = numpy.diff(bounds, axis=0)[0] + 2 * minBuffer
        return BoxRegion(position=toVector(midpoint), dimensions=list(extents))
    else:
        target_pitch = pitch * max(self.mesh.extents)
        voxelized_mesh = self.voxelized(target_pitch, lazy=True)
        iterations = HOLE_iter
        dilated_mesh = voxelized_mesh.dilation(iterations=iterations)
        return dilated_mesh
'''

T_DILATION_HEAD = '''
def dilation(self, iterations, structure=None):
    if iterations == 0:
        return self
    if iterations > 0:
        morphology_func = scipy.ndimage.binary_dilation
    else:
        morphology_func = scipy.ndimage.binary_erosion
    iterations = abs(iterations)
    if structure == None:
        structure = scipy.ndimage.generate_binary_structure(3, 3)
    HOLE_REST_compute
'''
# the computation itself: padded (e7c606cc) or on the grid as it is (the dilated set is clipped to the grid)
DILATION_COMPUTE = [
    (True, '''
dense = trimesh.voxel.morphology._dense(self.voxelGrid.encoding, rank=3)
transform = self.voxelGrid.transform
if morphology_func is scipy.ndimage.binary_dilation:
    dense = numpy.pad(dense, iterations, mode="constant", constant_values=False)
    transform = transform @ translation_matrix([-iterations] * 3)
new_encoding = trimesh.voxel.encoding.DenseEncoding(
    morphology_func(dense, structure=structure, iterations=iterations)
)
if new_encoding.is_empty:
    return nowhere
new_voxel_grid = trimesh.voxel.VoxelGrid(new_encoding, transform=transform)
return VoxelRegion(voxelGrid=new_voxel_grid)
'''),
    (False, '''
new_encoding = trimesh.voxel.encoding.DenseEncoding(
    morphology_func(
        trimesh.voxel.morphology._dense(self.voxelGrid.encoding, rank=3),
        structure=structure,
        iterations=iterations,
    )
)
if new_encoding.is_empty:
    return nowhere
new_voxel_grid = trimesh.voxel.VoxelGrid(
    new_encoding, transform=self.voxelGrid.transform
)
return VoxelRegion(voxelGrid=new_voxel_grid)
'''),
]


# --------------------------------------------------------------------------- extraction
def _find_stmt(fn, pred, what):
    for n in ast.walk(fn):
        if pred(n):
            return n
    raise TemplateMismatch(f"{what} not found")


def extract_dispatch(tree):
    fn = get_def(tree, "RequirementMatcher.matchBoundsInner", RELATIONS)
    name, b = match_any([("filtered", T_INNER), ("unfiltered", T_INNER_OLD)], fn, "matchBoundsInner")
    swap = [(op_name(b["HOLE_sw1a"], "swap"), op_name(b["HOLE_sw1b"], "swap")),
            (op_name(b["HOLE_sw2a"], "swap"), op_name(b["HOLE_sw2b"], "swap"))]
    eq1, eq2 = op_names(b["HOLE_eq1"], "eq"), op_names(b["HOLE_eq2"], "eq")
    expect(eq1 == eq2, "the two Eq tests of matchBoundsInner differ")
    if name == "filtered":
        bound = op_names(b["HOLE_bound"], "bound")
    else:  # no filter: everything that is not swapped away is used as an upper bound
        bound = [o for o in OPS.values() if o not in [s[0] for s in swap]]
    fn2 = get_def(tree, "RequirementMatcher.matchAbsBounds", RELATIONS)
    b2 = match_def(T_ABS, fn2, "matchAbsBounds")
    sa, sb = b2["HOLE_STMT_a"], b2["HOLE_STMT_b"]

    def kind(st):
        try:
            g = match_stmts(T_ABS_GUARD, [st], "abs-guard")
            return "guard", op_names(g["HOLE_eq3"], "eq3")
        except TemplateMismatch:
            match_stmts(T_ABS_NEG, [st], "abs-negative-check")
            return "neg", None
    ka, kb = kind(sa), kind(sb)
    expect({ka[0], kb[0]} == {"guard", "neg"}, "matchAbsBounds: guard / negative check not both present")
    guard_first = ka[0] == "guard"
    eq3 = ka[1] if guard_first else kb[1]
    expect(eq3 == eq1, "Eq test of matchAbsBounds differs from matchBoundsInner")
    cm = ("const", "match")
    plo, phi = linear(b2["HOLE_plo"], cm, "abs plain lo"), linear(b2["HOLE_phi"], cm, "abs plain hi")
    expect(plo[1] == 0 and phi[1] == 0, "plain abs bound mentions `match`")
    fn3 = get_def(tree, "RequirementMatcher.matchBounds", RELATIONS)
    match_def(T_MATCHBOUNDS, fn3, "matchBounds")
    return {
        "swapOps": swap, "boundOps": bound, "eqOps": eq1, "absGuardFirst": guard_first,
        "absPlain": (plo[0], phi[0]),
        "absAdd": (linear(b2["HOLE_alo"], cm, "abs add lo"), linear(b2["HOLE_ahi"], cm, "abs add hi")),
        "absSub": (linear(b2["HOLE_slo"], cm, "abs sub lo"), linear(b2["HOLE_shi"], cm, "abs sub hi")),
    }


def extract_rh(tree, gtree):
    fn = get_def(tree, "relativeHeadingRange", PRUNING)
    b = match_def(T_RH_HEAD, fn, "relativeHeadingRange")
    tail = b["HOLE_REST_tail"]
    cfg = None
    for flags, src in RH_TAILS:
        try:
            match_stmts(src, tail, "relativeHeadingRange tail")
            cfg = flags
            break
        except TemplateMismatch:
            pass
    expect(cfg is not None, "relativeHeadingRange: unknown tail: " + "; ".join(ast.unparse(s) for s in tail)[:300])
    match_def(T_NORMALIZE, get_def(gtree, "normalizeAngle", GEOMETRY), "normalizeAngle")
    fb = match_def(T_FEASIBLE, get_def(tree, "feasibleRHPolygon", PRUNING), "feasibleRHPolygon")
    g = fb["HOLE_guard"]
    expect(isinstance(g, ast.BoolOp) and isinstance(g.op, ast.Or) and len(g.values) == 3, "feasibleRHPolygon guard shape")
    pairs, ops = [], set()
    for v in g.values:
        expect(isinstance(v, ast.Compare) and len(v.ops) == 1 and is_src(v.comparators[0], "math.tau")
               and isinstance(v.left, ast.BinOp) and isinstance(v.left.op, ast.Sub)
               and isinstance(v.left.left, ast.Name) and isinstance(v.left.right, ast.Name), "guard disjunct shape")
        pairs.append((v.left.left.id, v.left.right.id))
        ops.add(type(v.ops[0]).__name__)
    expect(pairs == [("offsetR", "offsetL"), ("tOffsetR", "tOffsetL"), ("upperBound", "lowerBound")],
           f"guard compares {pairs}")
    expect(ops <= {"GtE", "Gt"} and len(ops) == 1, f"guard operators {ops}")
    o = fb["HOLE_overlap"]
    expect(isinstance(o, ast.BoolOp) and len(o.values) == 2, "overlap test shape")
    conj = isinstance(o.op, ast.And)
    c1, c2 = o.values
    expect(all(isinstance(c, ast.Compare) and len(c.ops) == 1 for c in (c1, c2)), "overlap compares")
    expect(is_src(c1.left, "upper") and is_src(c1.comparators[0], "lowerBound")
           and is_src(c2.left, "lower") and is_src(c2.comparators[0], "upperBound"), "overlap operands")
    return {"rh": cfg, "guardInclusive": ops == {"GtE"}, "overlapConj": conj,
            "overlapOps": (OPS[type(c1.ops[0]).__name__], OPS[type(c2.ops[0]).__name__])}


def extract_loops(tree):
    out = {}
    pitch = None
    for st in tree.body:
        if isinstance(st, ast.Assign) and len(st.targets) == 1 and isinstance(st.targets[0], ast.Name) \
                and st.targets[0].id == "PRUNING_PITCH":
            expect(isinstance(st.value, ast.Constant) and isinstance(st.value.value, (int, float))
                   and not isinstance(st.value.value, bool), "PRUNING_PITCH is not a number literal")
            pitch = Fraction(str(st.value.value))
    expect(pitch is not None and pitch > 0, "PRUNING_PITCH not found")
    out["pruningPitch"] = pitch
    fn = get_def(tree, "pruneContainment", PRUNING)
    node = _find_stmt(fn, lambda n: isinstance(n, ast.If) and any(
        isinstance(x, ast.NamedExpr) and x.target.id == "maxErosion" for x in ast.walk(n.test)), "erosion test")
    b = match_stmts(T_CONTAIN_EROSION, [node], "pruneContainment erosion")
    e = b["HOLE_erosion"]
    coef = linear(e, ("minRadius", "maxDistance"), "maxErosion")
    expect(coef in ((1, -1), (1, 1)), f"maxErosion = {ast.unparse(e)}")
    out["erosionUsesDifference"] = coef == (1, -1)
    loop = b["HOLE_REST_loop"]
    found = None
    for name, src, stops in ERODE_LOOPS:
        try:
            lb = match_stmts(src, loop, "erode retry loop")
            found = (lb["HOLE_pitcharg"], stops)
            break
        except TemplateMismatch:
            pass
    expect(found is not None, "erode retry loop: unknown body")
    arg, breaks = found
    expect(isinstance(arg, ast.Name) and arg.id in ("PRUNING_PITCH", "current_pitch"), "erode loop pitch argument")
    # (passesCurrentPitch, calleeTotalAtMax, breaksAtMax): T_ERODE_OVER (checked in extract_counts) has no path
    # that avoids the voxel->mesh conversion, so the callee is never total
    out["erodeLoop"] = (arg.id == "current_pitch", False, breaks)
    fnv = get_def(tree, "pruneVisibility", PRUNING)
    helper = None
    for n in ast.walk(fnv):
        if isinstance(n, ast.FunctionDef) and n.name == "bufferHelper":
            helper = n
    expect(helper is not None, "bufferHelper not found")
    hb = match_def(T_BUFFERHELPER, helper, "bufferHelper")
    q = hb["HOLE_bufq"]
    if is_src(q, "obj.radius + maxDistance") or is_src(q, "maxDistance + obj.radius"):
        out["visibilityBufferIsSum"] = True
    elif is_src(q, "obj.radius - maxDistance"):
        out["visibilityBufferIsSum"] = False
    else:
        raise TemplateMismatch(f"buffer_quantity = {ast.unparse(q)}")
    arg = hb["HOLE_pitcharg"]
    expect(isinstance(arg, ast.Name) and arg.id in ("PRUNING_PITCH", "current_pitch"), "buffer loop pitch argument")
    # T_BUFFERHELPER's loop has no break; T_BUFFER_OVER (checked in extract_counts) returns a BoxRegion when
    # pitch >= 1, so the callee is total at the coarsest pitch
    out["bufferLoop"] = (arg.id == "current_pitch", True, False)
    return out


def extract_counts(rtree):
    out = {}
    fe = get_def(rtree, "MeshVolumeRegion._erodeOverapproximate", REGIONS)
    b = match_def(T_ERODE_OVER, fe, "_erodeOverapproximate")
    it = b["HOLE_iter"]
    # math.floor(maxErosion / math.hypot(*([P] * n))) - k
    minus = 0
    if isinstance(it, ast.BinOp) and isinstance(it.op, (ast.Sub, ast.Add)) and isinstance(it.right, ast.Constant) \
            and isinstance(it.right.value, int):
        minus = it.right.value if isinstance(it.op, ast.Sub) else -it.right.value
        it = it.left
    tb = {}
    unify(ast.parse("math.floor(maxErosion / math.hypot(*([HOLE_p] * HOLE_n)))", mode="eval").body, it, tb,
          "erode iteration count")
    expect(isinstance(tb["HOLE_p"], ast.Name) and tb["HOLE_p"].id in ("target_pitch", "pitch"), "erode divisor")
    expect(isinstance(tb["HOLE_n"], ast.Constant) and isinstance(tb["HOLE_n"].value, int), "hypot dims")
    out["erodeCount"] = (tb["HOLE_n"].value, minus, tb["HOLE_p"].id == "target_pitch")
    arg = b["HOLE_arg"]
    if is_src(arg, "-iterations"):
        out["erodeNegates"] = True
    elif is_src(arg, "iterations"):
        out["erodeNegates"] = False
    else:
        raise TemplateMismatch(f"dilation(iterations={ast.unparse(arg)})")
    fb = get_def(rtree, "MeshVolumeRegion._bufferOverapproximate", REGIONS)
    b2 = match_def(T_BUFFER_OVER, fb, "_bufferOverapproximate")
    it = b2["HOLE_iter"]
    plus = 0
    if isinstance(it, ast.BinOp) and isinstance(it.op, (ast.Sub, ast.Add)) and isinstance(it.right, ast.Constant) \
            and isinstance(it.right.value, int):
        plus = it.right.value if isinstance(it.op, ast.Add) else -it.right.value
        it = it.left
    tb = {}
    unify(ast.parse("math.ceil(minBuffer / HOLE_p)", mode="eval").body, it, tb, "dilate iteration count")
    expect(isinstance(tb["HOLE_p"], ast.Name) and tb["HOLE_p"].id in ("target_pitch", "pitch"), "dilate divisor")
    out["dilateCount"] = (plus, tb["HOLE_p"].id == "target_pitch")
    fd = get_def(rtree, "VoxelRegion.dilation", REGIONS)
    bd = match_def(T_DILATION_HEAD, fd, "VoxelRegion.dilation")
    pads = None
    for flag, src in DILATION_COMPUTE:
        try:
            match_stmts(src, bd["HOLE_REST_compute"], "VoxelRegion.dilation computation")
            pads = flag
            break
        except TemplateMismatch:
            pass
    expect(pads is not None, "VoxelRegion.dilation: unknown computation: "
           + "; ".join(ast.unparse(x) for x in bd["HOLE_REST_compute"])[:300])
    out["dilationPads"] = pads
    return out


def _parts():
    _, ptree = load(PRUNING)
    _, rtree = load(RELATIONS)
    _, gtree = load(GEOMETRY)
    _, regtree = load(REGIONS)
    return [("relations.py matcher", lambda: {"dispatch": extract_dispatch(rtree)}),
            ("pruning.py relative headings", lambda: extract_rh(ptree, gtree)),
            ("pruning.py amounts and retry loops", lambda: extract_loops(ptree)),
            ("regions.py pass counts and dilation", lambda: extract_counts(regtree))]


def extract():
    d = {}
    for _, f in _parts():
        d.update(f())
    return d


# the data of the pinned source (commit c802d98 of /verif against /repo's repaired tree): used for a part whose
# template no longer matches, instead of a stale generated file
PINNED = {
    "relations.py matcher": {"dispatch": {
        "swapOps": [("gt", "lt"), ("gtE", "ltE")], "boundOps": ["lt", "ltE", "eq"], "eqOps": ["eq"],
        "absGuardFirst": True, "absPlain": (-1, 1), "absAdd": ((-1, -1), (1, -1)), "absSub": ((-1, 1), (1, 1))}},
    "pruning.py relative headings": {"rh": (True, True, True), "guardInclusive": True, "overlapConj": True,
                                     "overlapOps": ("gtE", "ltE")},
    "pruning.py amounts and retry loops": {"pruningPitch": Fraction(3, 20), "erosionUsesDifference": True,
                                           "erodeLoop": (True, False, True), "visibilityBufferIsSum": True,
                                           "bufferLoop": (True, True, False)},
    "regions.py pass counts and dilation": {"erodeCount": (3, 1, True), "erodeNegates": True,
                                            "dilateCount": (1, True), "dilationPads": True},
}


def extract_partial():
    """-> (data, [(part, error)]): parts whose template does not match fall back to PINNED."""
    d, lost = {}, []
    try:
        parts = _parts()
    except (TemplateMismatch, OSError, SyntaxError) as e:
        return {k: v for part in PINNED.values() for k, v in part.items()}, [("all", str(e))]
    for name, f in parts:
        try:
            d.update(f())
        except TemplateMismatch as e:
            d.update(PINNED[name])
            lost.append((name, str(e)))
    return d, lost


# --------------------------------------------------------------------------- Lean output
def _b(x):
    return "true" if x else "false"


def _i(z):
    return f"({z})" if z < 0 else str(z)


def _pair(p):
    return f"({_i(p[0])}, {_i(p[1])})"


def to_lean(d):
    D = d["dispatch"]
    swap = ", ".join(f"(.{a}, .{b})" for a, b in D["swapOps"])
    bound = ", ".join(f".{o}" for o in D["boundOps"])
    eqs = ", ".join(f".{o}" for o in D["eqOps"])
    p = d["pruningPitch"]
    ec, dc = d["erodeCount"], d["dilateCount"]
    return f"""import ScenicModel.Model.Pruning
namespace Scenic.Gen
open Scenic.Pruning

/-- relations.py: RequirementMatcher.matchBoundsInner / matchAbsBounds -/
def pruneDispatch : Dispatch :=
  {{ swapOps := [{swap}], boundOps := [{bound}], eqOps := [{eqs}],
    absGuardFirst := {_b(D['absGuardFirst'])}, absPlain := {_pair(D['absPlain'])},
    absAdd := ({_pair(D['absAdd'][0])}, {_pair(D['absAdd'][1])}),
    absSub := ({_pair(D['absSub'][0])}, {_pair(D['absSub'][1])}) }}

/-- pruning.py: tail of relativeHeadingRange -/
def rhConfig : RHConfig :=
  {{ normalizeResult := {_b(d['rh'][0])}, wideFallback := {_b(d['rh'][1])}, wrapFallback := {_b(d['rh'][2])} }}

/-- pruning.py: feasibleRHPolygon returns None when a width is `>=` (true) / `>` (false) a full turn -/
def rhGuardInclusive : Bool := {_b(d['guardInclusive'])}

/-- pruning.py: feasibleRHPolygon keeps a cell pair when `upper ⟨op1⟩ lowerBound ⟨and|or⟩ lower ⟨op2⟩ upperBound` -/
def rhOverlapOps : CmpOp × CmpOp := (.{d['overlapOps'][0]}, .{d['overlapOps'][1]})
def rhOverlapConj : Bool := {_b(d['overlapConj'])}

/-- pruning.py: PRUNING_PITCH -/
def pruningPitch : Rat := {p.numerator}/{p.denominator}

/-- pruning.py pruneContainment: `(maxErosion := minRadius - maxDistance) > 0` -/
def erosionUsesDifference : Bool := {_b(d['erosionUsesDifference'])}

/-- pruning.py pruneContainment: the `while eroded_container is None` loop -/
def erodeLoop : RetryCfg :=
  {{ passesCurrentPitch := {_b(d['erodeLoop'][0])}, calleeTotalAtMax := {_b(d['erodeLoop'][1])}, breaksAtMax := {_b(d['erodeLoop'][2])} }}

/-- pruning.py pruneVisibility.bufferHelper: `buffer_quantity = obj.radius + maxDistance` -/
def visibilityBufferIsSum : Bool := {_b(d['visibilityBufferIsSum'])}

/-- pruning.py bufferHelper loop (the callee has a BoxRegion fast path at pitch >= 1) -/
def bufferLoop : RetryCfg :=
  {{ passesCurrentPitch := {_b(d['bufferLoop'][0])}, calleeTotalAtMax := {_b(d['bufferLoop'][1])}, breaksAtMax := {_b(d['bufferLoop'][2])} }}

/-- regions.py _erodeOverapproximate: `math.floor(maxErosion / math.hypot(*([p] * n))) - k` -/
def erodeCount : ErodeCountCfg := {{ hypotDims := {ec[0]}, minus := {_i(ec[1])}, usesTargetPitch := {_b(ec[2])} }}

/-- regions.py _erodeOverapproximate: `dilation(iterations=-iterations)` -/
def erodeNegates : Bool := {_b(d['erodeNegates'])}

/-- regions.py _bufferOverapproximate: `math.ceil(minBuffer / p) + k` -/
def dilateCount : DilateCountCfg := {{ plus := {_i(dc[0])}, usesTargetPitch := {_b(dc[1])} }}

/-- regions.py VoxelRegion.dilation pads the dense grid by the number of passes before dilating -/
def dilationPads : Bool := {_b(d['dilationPads'])}

end Scenic.Gen
"""
