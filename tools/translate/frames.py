"""veneer.py / object_types.py  ->  Gen/Frames.lean   (property C07)

What is extracted (template = the shape of the anchored source; the *formulas and tables* are the data):

  LeftSpec, RightSpec, Ahead, Behind, Above, Below (veneer.py):
      return directionalSpecHelper("<syntax>", pos, dist, "<axis>",
                                   lambda dist: (<c0>, <c1>, <c2>),
                                   lambda self, dims, tol, dx, dy, dz: Vector(<e0>, <e1>, <e2>))
      -> `<k>Components dist`, `<k>Offset selfW selfL selfH d0 d1 d2 tol dx dy dz`, `<k>Axis`
  directionalSpecHelper.makeContactOffset:
      if dist is None: return <A>   else: return <B>          -> contactOffsetNone / contactOffsetGiven
  On.helper:      contactOffset = Vector(<a>, <b>, <c>) - context.baseOffset      -> onContactOffset
  Beyond:         offset = Vector(<a>, <b>, <c>)  (scalar branch)                  -> beyondScalar
  ApparentlyFacing.helper:
      return {"yaw": fromPt.angleTo(context.position) + heading}                   -> usesParent = false
      or  direction = context.position - fromPt
          rotated = direction.applyRotation(context.parentOrientation.inverse)
          return {"yaw": rotated.sphericalCoordinates()[1] + heading}              -> usesParent = true
  Object.corners (object_types.py):   8 x self.relativePosition(Vector(±hw, ±hl, ±hh))   -> cornerTable
  Object.left … bottomBackRight:      return self.relativize(Vector(±self.hw|0, ±self.hl|0[, ±self.hh|0]))
                                                                                   -> sideTable

Expressions are translated by a *restricted* Python-expression translator (numbers, the whitelisted
names, `+ - * /`, unary minus); anything else raises TemplateMismatch.
"""
import ast

from translate.astutil import TemplateMismatch, body_nodoc, expect, get_def, is_name, load

VENEER = "src/scenic/syntax/veneer.py"
OBJTYPES = "src/scenic/core/object_types.py"

SPECS = [("left", "LeftSpec"), ("right", "RightSpec"), ("ahead", "Ahead"), ("behind", "Behind"),
         ("above", "Above"), ("below", "Below")]
SIDES = ["left", "right", "front", "back", "top", "bottom", "frontLeft", "frontRight", "backLeft", "backRight",
         "topFrontLeft", "topFrontRight", "topBackLeft", "topBackRight", "bottomFrontLeft", "bottomFrontRight",
         "bottomBackLeft", "bottomBackRight"]


# ------------------------------------------------------------------ restricted expression translator
def pyexpr(node, env):
    """Python arithmetic expression -> Lean term (fully parenthesised). env: callable(node) -> str | None."""
    name = env(node)
    if name is not None:
        return name
    if isinstance(node, ast.Constant) and isinstance(node.value, int) and not isinstance(node.value, bool):
        expect(0 <= node.value <= 2, f"numeric literal {node.value} outside the supported set 0, 1, 2")
        return str(node.value)
    if isinstance(node, ast.UnaryOp) and isinstance(node.op, ast.USub):
        return f"(-{pyexpr(node.operand, env)})"
    if isinstance(node, ast.UnaryOp) and isinstance(node.op, ast.UAdd):
        return pyexpr(node.operand, env)
    if isinstance(node, ast.BinOp):
        ops = {ast.Add: "+", ast.Sub: "-", ast.Mult: "*", ast.Div: "/"}
        for k, s in ops.items():
            if isinstance(node.op, k):
                return f"({pyexpr(node.left, env)} {s} {pyexpr(node.right, env)})"
    raise TemplateMismatch(f"unsupported expression: {ast.unparse(node)[:80]}")


def env_names(mapping):
    def env(node):
        if isinstance(node, ast.Name) and node.id in mapping:
            return mapping[node.id]
        return None
    return env


def env_offset(node):
    """names available inside `lambda self, dims, tol, dx, dy, dz: ...`"""
    if isinstance(node, ast.Name) and node.id in ("tol", "dx", "dy", "dz"):
        return node.id
    if isinstance(node, ast.Attribute) and is_name(node.value, "self") and node.attr in ("width", "length", "height"):
        return {"width": "selfW", "length": "selfL", "height": "selfH"}[node.attr]
    if (isinstance(node, ast.Subscript) and is_name(node.value, "dims") and isinstance(node.slice, ast.Constant)
            and node.slice.value in (0, 1, 2)):
        return f"d{node.slice.value}"
    return None


def _lambda(node, argnames, what):
    expect(isinstance(node, ast.Lambda), f"{what}: not a lambda")
    a = node.args
    expect([x.arg for x in a.args] == argnames and not a.vararg and not a.kwarg and not a.kwonlyargs
           and not a.defaults, f"{what}: lambda parameters changed")
    return node.body


def _vector3(node, what, allow2=False):
    expect(isinstance(node, ast.Call) and is_name(node.func, "Vector") and not node.keywords, f"{what}: not Vector(...)")
    n = len(node.args)
    expect(n == 3 or (allow2 and n == 2), f"{what}: Vector with {n} arguments")
    return list(node.args)


# ------------------------------------------------------------------ extraction
def extract_dirspec(tree, key, fname):
    fn = get_def(tree, fname, VENEER)
    expect([a.arg for a in fn.args.args] == ["pos", "dist"], f"{fname}: parameters changed")
    body = body_nodoc(fn)
    expect(len(body) == 1 and isinstance(body[0], ast.Return), f"{fname}: body is not a single return")
    call = body[0].value
    expect(isinstance(call, ast.Call) and is_name(call.func, "directionalSpecHelper") and len(call.args) == 6
           and not call.keywords, f"{fname}: not directionalSpecHelper(6 args)")
    syn, pos, dist, axis, comp, off = call.args
    expect(isinstance(syn, ast.Constant) and isinstance(syn.value, str), f"{fname}: syntax")
    expect(is_name(pos, "pos") and is_name(dist, "dist"), f"{fname}: pos/dist not passed through")
    expect(isinstance(axis, ast.Constant) and axis.value in ("width", "length", "height"), f"{fname}: axis")
    cb = _lambda(comp, ["dist"], f"{fname} toComponents")
    expect(isinstance(cb, ast.Tuple) and len(cb.elts) == 3, f"{fname}: toComponents is not a triple")
    comps = [pyexpr(e, env_names({"dist": "dist"})) for e in cb.elts]
    ob = _lambda(off, ["self", "dims", "tol", "dx", "dy", "dz"], f"{fname} makeOffset")
    offs = [pyexpr(e, env_offset) for e in _vector3(ob, f"{fname} makeOffset")]
    return {"syntax": syn.value, "axis": axis.value, "components": comps, "offset": offs}


def extract_contact(tree):
    helper = get_def(tree, "directionalSpecHelper", VENEER)
    expect([a.arg for a in helper.args.args] == ["syntax", "pos", "dist", "axis", "toComponents", "makeOffset"],
           "directionalSpecHelper: parameters changed")
    fn = None
    for ch in ast.iter_child_nodes(helper):
        if isinstance(ch, ast.FunctionDef) and ch.name == "makeContactOffset":
            fn = ch
    expect(fn is not None, "makeContactOffset not found")
    expect([a.arg for a in fn.args.args] == ["dist", "ct"], "makeContactOffset: parameters changed")
    body = body_nodoc(fn)
    expect(len(body) == 1 and isinstance(body[0], ast.If), "makeContactOffset: body shape")
    iff = body[0]
    t = iff.test
    expect(isinstance(t, ast.Compare) and is_name(t.left, "dist") and len(t.ops) == 1 and isinstance(t.ops[0], ast.Is)
           and isinstance(t.comparators[0], ast.Constant) and t.comparators[0].value is None,
           "makeContactOffset: test is not `dist is None`")
    expect(len(iff.body) == 1 and isinstance(iff.body[0], ast.Return) and len(iff.orelse) == 1
           and isinstance(iff.orelse[0], ast.Return), "makeContactOffset: branches")
    env = env_names({"ct": "ct"})
    # the three call sites: Object -> makeContactOffset(dist, self.contactTolerance); OrientedPoint / vector -> 0
    src = ast.unparse(helper)
    expect("makeContactOffset(dist, self.contactTolerance)" in src, "Object branch no longer passes the contact offset")
    expect(src.count("makeOffset(self, (0, 0, 0), 0, dx, dy, dz)") == 2,
           "OrientedPoint/vector branches no longer call makeOffset(self, (0, 0, 0), 0, dx, dy, dz)")
    expect("obj_dims = (pos.width, pos.length, pos.height)" in src, "obj_dims changed")
    return {"none": pyexpr(iff.body[0].value, env), "given": pyexpr(iff.orelse[0].value, env)}


def _find_assign(fn, target):
    res = [n for n in ast.walk(fn) if isinstance(n, ast.Assign) and len(n.targets) == 1 and is_name(n.targets[0], target)]
    return res


def extract_on(tree):
    fn = get_def(tree, "On", VENEER)
    assigns = _find_assign(fn, "contactOffset")
    expect(len(assigns) == 2, "On: expected two assignments to contactOffset")
    first = assigns[0].value
    expect(isinstance(first, ast.BinOp) and isinstance(first.op, ast.Sub)
           and isinstance(first.right, ast.Attribute) and first.right.attr == "baseOffset"
           and is_name(first.right.value, "context"), "On: contactOffset is not Vector(..) - context.baseOffset")

    def env(node):
        if isinstance(node, ast.Attribute) and is_name(node.value, "context") and node.attr == "contactTolerance":
            return "ct"
        return None
    vec = [pyexpr(e, env) for e in _vector3(first.left, "On contactOffset")]
    second = assigns[1].value
    expect(ast.unparse(second) == "contactOffset.rotatedBy(values['parentOrientation'])",
           "On: contactOffset is no longer rotated by the region orientation")
    return [f"({v} - o{c})" for v, c in zip(vec, "xyz")]


def extract_beyond(tree):
    fn = get_def(tree, "Beyond", VENEER)
    cands = [a for a in _find_assign(fn, "offset") if isinstance(a.value, ast.Call) and is_name(a.value.func, "Vector")]
    expect(len(cands) == 1, "Beyond: scalar branch `offset = Vector(..)` not found")
    return [pyexpr(e, env_names({"offset": "d"})) for e in _vector3(cands[0].value, "Beyond scalar offset")]


def extract_beyond_inherits(tree):
    """Does `Beyond` look at `isA(fromPt, OrientedPoint)` *before* `fromPt` is coerced to a plain vector?
    (after the coercion the test can never succeed, so the orientation of an oriented `from` is dropped)"""
    fn = get_def(tree, "Beyond", VENEER)
    body = body_nodoc(fn)
    coerce_at = test_at = None
    for i, st in enumerate(body):
        if (isinstance(st, ast.Assign) and len(st.targets) == 1 and is_name(st.targets[0], "fromPt")
                and isinstance(st.value, ast.Call) and is_name(st.value.func, "toVector")
                and st.value.args and is_name(st.value.args[0], "fromPt")):
            expect(coerce_at is None, "Beyond: fromPt coerced twice")
            coerce_at = i
        if isinstance(st, ast.If) and ast.unparse(st.test) == "isA(fromPt, OrientedPoint)":
            expect(test_at is None, "Beyond: two OrientedPoint tests")
            expect([ast.unparse(x) for x in st.body] == ["orientation = fromPt.orientation"]
                   and [ast.unparse(x) for x in st.orelse] == ["orientation = Orientation.fromEuler(0, 0, 0)"],
                   "Beyond: orientation branches changed")
            test_at = i
    expect(coerce_at is not None and test_at is not None, "Beyond: coercion / OrientedPoint test not found")
    src = ast.unparse(fn)
    expect("direction = pos - fromPt" in src and "sphericalCoords = direction.sphericalCoordinates()" in src
           and "offsetRotation = Orientation.fromEuler(sphericalCoords[1], sphericalCoords[2], 0)" in src
           and "new_direction = pos + offset.applyRotation(offsetRotation)" in src,
           "Beyond: line-of-sight frame computation changed")
    expect("{'position': new_direction, 'parentOrientation': orientation}" in src, "Beyond: specified values changed")
    return test_at < coerce_at


def extract_apparently(tree):
    fn = get_def(tree, "ApparentlyFacing", VENEER)
    helper = None
    for ch in ast.iter_child_nodes(fn):
        if isinstance(ch, ast.FunctionDef) and ch.name == "helper":
            helper = ch
    expect(helper is not None, "ApparentlyFacing.helper not found")
    src = [ast.unparse(s) for s in body_nodoc(helper)]
    if src == ["return {'yaw': fromPt.angleTo(context.position) + heading}"]:
        return False
    if src == ["direction = context.position - fromPt",
               "rotated = direction.applyRotation(context.parentOrientation.inverse)",
               "return {'yaw': rotated.sphericalCoordinates()[1] + heading}"]:
        return True
    raise TemplateMismatch("ApparentlyFacing.helper has an unknown shape")


def _signed_half(node, attr, own):
    """±self.<attr> / ±<attr> / 0  ->  -1 | 0 | 1"""
    sign = 1
    if isinstance(node, ast.UnaryOp) and isinstance(node.op, ast.USub):
        sign, node = -1, node.operand
    if isinstance(node, ast.Constant) and node.value == 0 and sign == 1:
        return 0
    if own:
        ok = isinstance(node, ast.Attribute) and is_name(node.value, "self") and node.attr == attr
    else:
        ok = is_name(node, attr)
    expect(ok, f"expected ±{attr} or 0, got {ast.unparse(node)}")
    return sign


def extract_object_tables():
    src, tree = load(OBJTYPES)
    obj = get_def(tree, "Object", OBJTYPES)
    defs = {n.name: n for n in ast.iter_child_nodes(obj) if isinstance(n, ast.FunctionDef)}
    expect("corners" in defs, "Object.corners not found")
    body = body_nodoc(defs["corners"])
    expect(len(body) == 2 and ast.unparse(body[0]) == "hw, hl, hh = (self.hw, self.hl, self.hh)", "corners: preamble changed")
    ret = body[1]
    expect(isinstance(ret, ast.Return) and isinstance(ret.value, ast.Tuple) and len(ret.value.elts) == 8,
           "corners: not a tuple of 8")
    ctab = []
    for e in ret.value.elts:
        expect(isinstance(e, ast.Call) and isinstance(e.func, ast.Attribute) and e.func.attr == "relativePosition"
               and is_name(e.func.value, "self") and len(e.args) == 1, "corners: element is not self.relativePosition(..)")
        a = _vector3(e.args[0], "corner")
        ctab.append(tuple(_signed_half(x, n, False) for x, n in zip(a, ("hw", "hl", "hh"))))
    stab = []
    for name in SIDES:
        expect(name in defs, f"Object.{name} not found")
        b = body_nodoc(defs[name])
        expect(len(b) == 1 and isinstance(b[0], ast.Return), f"{name}: body shape")
        c = b[0].value
        expect(isinstance(c, ast.Call) and isinstance(c.func, ast.Attribute) and c.func.attr == "relativize"
               and is_name(c.func.value, "self") and len(c.args) == 1, f"{name}: not self.relativize(..)")
        a = _vector3(c.args[0], name, allow2=True)
        t = [_signed_half(x, n, True) for x, n in zip(a, ("hw", "hl", "hh"))]
        if len(t) == 2:
            t.append(0)
        stab.append((name, tuple(t)))
    # hw/hl/hh are half the dimensions
    init = defs.get("__init__")
    expect(init is not None, "Object.__init__ not found")
    isrc = ast.unparse(init)
    for a, d in (("hw", "width"), ("hl", "length"), ("hh", "height")):
        expect(f"self.{a} = {a} = self.{d} / 2" in isrc, f"Object.__init__: self.{a} is no longer self.{d} / 2")
    # relativePosition / relativize / offsetLocally shapes
    op = get_def(tree, "OrientedPoint", OBJTYPES)
    odefs = {n.name: n for n in ast.iter_child_nodes(op) if isinstance(n, ast.FunctionDef)}
    expect("relativePosition" in odefs and [ast.unparse(s) for s in body_nodoc(odefs["relativePosition"])]
           == ["return self.position.offsetLocally(self.orientation, vec)"], "OrientedPoint.relativePosition changed")
    expect("relativize" in odefs and [ast.unparse(s) for s in body_nodoc(odefs["relativize"])]
           == ["pos = self.relativePosition(vec)",
               "return OrientedPoint._with(position=pos, parentOrientation=self.orientation)"],
           "OrientedPoint.relativize changed")
    return ctab, stab


def extract():
    src, tree = load(VENEER)
    d = {"specs": {k: extract_dirspec(tree, k, f) for k, f in SPECS}}
    d["contact"] = extract_contact(tree)
    d["on"] = extract_on(tree)
    d["beyond"] = extract_beyond(tree)
    d["apparentlyUsesParent"] = extract_apparently(tree)
    d["beyondInherits"] = extract_beyond_inherits(tree)
    d["corners"], d["sides"] = extract_object_tables()
    return d


# ------------------------------------------------------------------ Lean output
def _triple(es):
    return "(" + ", ".join(es) + ")"


def _int(z):
    return f"({z})" if z < 0 else str(z)


def to_lean(d):
    out = ["/-! formulas and tables of the directional specifiers, `on`, `beyond`, `apparently facing`",
           "    (veneer.py) and of the sides / corners of an `Object` (object_types.py) -/",
           "set_option linter.unusedVariables false",
           "namespace Scenic.Gen.Frames", "section",
           "variable {α : Type} [Add α] [Sub α] [Mul α] [Neg α] [Div α] [OfNat α 0] [OfNat α 1] [OfNat α 2]", ""]
    for k, _ in SPECS:
        s = d["specs"][k]
        out.append(f"/-- `{s['syntax']}`: `toComponents` -/")
        out.append(f"def {k}Components (dist : α) : α × α × α := {_triple(s['components'])}")
        out.append(f"/-- `{s['syntax']}`: `makeOffset(self, dims, tol, dx, dy, dz)` -/")
        out.append(f"def {k}Offset (selfW selfL selfH d0 d1 d2 tol dx dy dz : α) : α × α × α :=")
        out.append(f"  {_triple(s['offset'])}")
        out.append(f"def {k}Axis : String := \"{s['axis']}\"")
        out.append("")
    out.append("/-- `makeContactOffset(dist, ct)` when `dist is None` -/")
    out.append(f"def contactOffsetNone (ct : α) : α := {d['contact']['none']}")
    out.append("/-- `makeContactOffset(dist, ct)` when a distance was given -/")
    out.append(f"def contactOffsetGiven (ct : α) : α := {d['contact']['given']}")
    out.append("/-- `On`: `contactOffset = Vector(0, 0, ct / 2) - baseOffset` -/")
    out.append(f"def onContactOffset (ct ox oy oz : α) : α × α × α := {_triple(d['on'])}")
    out.append("/-- `Beyond`: a scalar offset `d` is read as this vector -/")
    out.append(f"def beyondScalar (d : α) : α × α × α := {_triple(d['beyond'])}")
    out.append("end")
    out.append("")
    out.append("/-- whether `ApparentlyFacing.helper` computes the line of sight in the parent frame -/")
    out.append(f"def apparentlyFacingUsesParent : Bool := {str(d['apparentlyUsesParent']).lower()}")
    out.append("/-- whether `Beyond` tests `isA(fromPt, OrientedPoint)` before coercing `fromPt` to a vector")
    out.append("    (only then can the orientation of an oriented `from` argument be inherited) -/")
    out.append(f"def beyondInheritsFromOrientation : Bool := {str(d['beyondInherits']).lower()}")
    out.append("/-- `Object.corners`: signs of `(hw, hl, hh)`, in source order -/")
    out.append("def cornerTable : List (Int × Int × Int) := [" +
               ", ".join(f"({_int(a)}, {_int(b)}, {_int(c)})" for a, b, c in d["corners"]) + "]")
    out.append("/-- `Object.left … bottomBackRight`: signs of `(hw, hl, hh)` passed to `relativize` -/")
    out.append("def sideTable : List (String × (Int × Int × Int)) := [")
    out.append(",\n".join(f"  (\"{n}\", ({_int(a)}, {_int(b)}, {_int(c)}))" for n, (a, b, c) in d["sides"]))
    out.append("]")
    out.append("end Scenic.Gen.Frames")
    return "\n".join(out) + "\n"


if __name__ == "__main__":
    print(to_lean(extract()))
