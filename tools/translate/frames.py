"""veneer.py / vectors.py / geometry.py / object_types.py  ->  Gen/Frames.lean   (property C07)

Two kinds of tie, both rename / formatting tolerant because every anchored function is first *inlined*
(`inline_function`: straight-line symbolic execution of the body — local variables are substituted into
the returned expression, `if` statements become conditional expressions, error messages are dropped —
and the result is printed back with `ast.unparse`):

DATA (flows into Gen/Frames.lean; the `gen_*` side conditions and the theorems are re-proved on it)

  LeftSpec … Below:   `toComponents`, `makeOffset` formulas, axis           -> <k>Components, <k>Offset, <k>Axis
  directionalSpecHelper.makeContactOffset                                    -> contactOffsetNone / Given
  On.helper:          contactOffset = Vector(a, b, c) - context.baseOffset   -> onContactOffset
  Beyond:             scalar offset read as Vector(a, b, c)                  -> beyondScalar
  FacingToward, FacingDirectlyToward, FacingAwayFrom, FacingDirectlyAwayFrom, ApparentlyFacing:
                      direction (toward / away), pitch specified?, heading added?   -> facingTable
  Vector.rotatedBy:   (c*x - s*y, s*x + c*y, z)                              -> rotatedByFormula
  Vector.sphericalCoordinates / azimuthTo / altitudeTo, geometry.apparentHeadingAtPoint:
                      angle formulas over atan2, ± pi/2, +, -, normalizeAngle, compiled to
                      (cos, sin) arithmetic: arguments of the atan2 and the post-processing   -> *Args, *Post
  Orientation._fromEuler / eulerAngles: the SciPy axis sequence "ZXY"        -> fromEulerAxes, eulerAnglesAxes
  VectorField.followFrom: steps = max(minSteps, ceil(dist / stepSize))       -> followNumSteps
  Object.corners, Object.left … bottomBackRight                              -> cornerTable, sideTable

TEMPLATES (the inlined form must equal the recorded one, else TemplateMismatch: the tie then rests on the
correspondence run at thorough budget): Beyond, OffsetBy, OffsetAlongSpec, OffsetAlong, Following, Follow,
Facing, RelativeTo (dispatch order), RelativeHeading, ApparentHeading, DistancePast, DistanceFrom, AngleFrom,
AltitudeFrom, the five facing helpers' dependencies, directionalSpecHelper's three branches, On,
Orientation.{_fromHeading, inverse, __mul__, __add__, __radd__, localAnglesFor, yaw, pitch, roll},
Vector.{applyRotation, offsetLocally, offsetRotated, distanceTo, angleTo, __add__, __sub__, dot, cross},
VectorField.{__getitem__, followFrom}, OrientedPoint.{relativize, relativePosition, distancePast, toHeading,
toOrientation, orientation / heading defaults}, Object.__init__ (hw = width / 2 …), geometry.normalizeAngle.

Scalar expressions are translated by a *restricted* Python-expression translator (numbers 0/1/2, whitelisted
names, `+ - * /`, unary minus); anything else raises TemplateMismatch.
"""
import ast
import copy

from translate.astutil import TemplateMismatch, body_nodoc, expect, get_def, is_name, load

VENEER = "src/scenic/syntax/veneer.py"
OBJTYPES = "src/scenic/core/object_types.py"
VECTORS = "src/scenic/core/vectors.py"
GEOMETRY = "src/scenic/core/geometry.py"

SPECS = [("left", "LeftSpec"), ("right", "RightSpec"), ("ahead", "Ahead"), ("behind", "Behind"),
         ("above", "Above"), ("below", "Below")]
SIDES = ["left", "right", "front", "back", "top", "bottom", "frontLeft", "frontRight", "backLeft", "backRight",
         "topFrontLeft", "topFrontRight", "topBackLeft", "topBackRight", "bottomFrontLeft", "bottomFrontRight",
         "bottomBackLeft", "bottomBackRight"]
FACING = ["FacingToward", "FacingDirectlyToward", "FacingAwayFrom", "FacingDirectlyAwayFrom", "ApparentlyFacing"]


# ------------------------------------------------------------------ inliner
class _Subst(ast.NodeTransformer):
    def __init__(self, env):
        self.env = env

    def visit_Name(self, node):
        if isinstance(node.ctx, ast.Load) and node.id in self.env:
            return copy.deepcopy(self.env[node.id])
        return node

    def visit_Constant(self, node):
        # error messages are not part of the behaviour
        if isinstance(node.value, str) and (" " in node.value or len(node.value) > 30):
            return ast.Constant("_")
        return node

    def visit_JoinedStr(self, node):
        return ast.Constant("_")

    def visit_Lambda(self, node):
        shadow = {a.arg for a in node.args.args}
        node.body = _Subst({k: v for k, v in self.env.items() if k not in shadow}).visit(node.body)
        return node


def subst(node, env):
    return _Subst(env).visit(copy.deepcopy(node))


def _exits(stmts):
    for st in stmts:
        if isinstance(st, ast.FunctionDef):
            continue
        for n in ast.walk(st):
            if isinstance(n, (ast.Return, ast.Raise)):
                return True
    return False


RAISE = "RAISE"


def _is_raise(n):
    return isinstance(n, ast.Name) and n.id == RAISE


def inline_block(stmts, env, k, guards, local_defs):
    """the value returned by executing `stmts` in `env` and then continuing with k(env)"""
    for i, st in enumerate(stmts):
        if isinstance(st, ast.Expr) and isinstance(st.value, ast.Constant):
            continue
        if isinstance(st, ast.Pass):
            continue
        if isinstance(st, ast.FunctionDef):
            local_defs.setdefault(st.name, []).append((st, dict(env)))
            env.pop(st.name, None)
            continue
        if isinstance(st, ast.Assert):
            guards.append("assert " + ast.unparse(subst(st.test, env)))
            continue
        if isinstance(st, ast.Assign):
            v = subst(st.value, env)
            for t in st.targets:
                if isinstance(t, ast.Name):
                    env[t.id] = v
                elif isinstance(t, ast.Tuple) and all(isinstance(e, ast.Name) for e in t.elts):
                    if isinstance(v, ast.Tuple) and len(v.elts) == len(t.elts):
                        for e, x in zip(t.elts, v.elts):
                            env[e.id] = x
                    else:
                        for j, e in enumerate(t.elts):
                            env[e.id] = ast.Subscript(value=copy.deepcopy(v), slice=ast.Constant(j), ctx=ast.Load())
                elif isinstance(t, ast.Attribute) and is_name(t.value, "self"):
                    env["self." + t.attr] = v          # recorded, never substituted (not a Name)
                elif (isinstance(t, ast.Subscript) and isinstance(t.value, ast.Name) and isinstance(t.slice, ast.Constant)
                      and isinstance(env.get(t.value.id), ast.Dict)):
                    # `d[key] = v` on a local dict literal
                    dct = copy.deepcopy(env[t.value.id])
                    keys = [k.value if isinstance(k, ast.Constant) else None for k in dct.keys]
                    if t.slice.value in keys:
                        dct.values[keys.index(t.slice.value)] = v
                    else:
                        dct.keys.append(ast.Constant(t.slice.value))
                        dct.values.append(v)
                    env[t.value.id] = dct
                else:
                    raise TemplateMismatch(f"unsupported assignment target: {ast.unparse(st)[:80]}")
            continue
        if isinstance(st, ast.AugAssign) and isinstance(st.target, ast.Name):
            cur = env.get(st.target.id, ast.Name(st.target.id, ast.Load()))
            env[st.target.id] = ast.BinOp(left=copy.deepcopy(cur), op=st.op, right=subst(st.value, env))
            continue
        if isinstance(st, ast.Return):
            return subst(st.value, env) if st.value is not None else ast.Constant(None)
        if isinstance(st, ast.Raise):
            return ast.Name(RAISE, ast.Load())
        if isinstance(st, ast.If):
            test = subst(st.test, env)
            rest = stmts[i + 1:]
            if _exits(st.body) or _exits(st.orelse):
                def k2(e, rest=rest):
                    return inline_block(rest, e, k, guards, local_defs)
                a = inline_block(st.body, dict(env), k2, guards, local_defs)
                b = inline_block(st.orelse, dict(env), k2, guards, local_defs)
                if _is_raise(a) and not _is_raise(b):
                    guards.append("raise if " + ast.unparse(test))
                    return b
                return ast.IfExp(test=test, body=a, orelse=b)
            e1, e2 = dict(env), dict(env)
            inline_block(st.body, e1, lambda e: None, guards, local_defs)
            inline_block(st.orelse, e2, lambda e: None, guards, local_defs)
            for key in sorted(set(e1) | set(e2)):
                a = e1.get(key, ast.Name(key, ast.Load()))
                b = e2.get(key, ast.Name(key, ast.Load()))
                env[key] = a if ast.dump(a) == ast.dump(b) else ast.IfExp(test=copy.deepcopy(test), body=a, orelse=b)
            continue
        if isinstance(st, ast.Expr) and isinstance(st.value, ast.Call):
            guards.append("call " + ast.unparse(subst(st.value, env)))
            continue
        raise TemplateMismatch(f"unsupported statement: {ast.unparse(st)[:80]}")
    return k(env)


# Everything the inliner moves OUT of the returned expression — `if c: raise` in front of the body (a guard), `assert`,
# a bare call statement — and the number of local function definitions of each name are recorded for every inlined
# function and compared with this table at the end of `extract()`: a statement added in front of a modelled body is a
# template mismatch even when the expression that is finally returned is unchanged.
_SEEN = []
EXPECTED_GUARDS = {
    "__init__": ["call super().__init__(*args, **kwargs)"],
    "Follow": ["raise if not isA(F, VectorField)"],
    "ApparentHeading": ["raise if not isA(X, OrientedPoint)"],
    "AngleFrom": ["assert X is not None or Y is not None"],
    "AltitudeFrom": ["assert X is not None or Y is not None"],
    "RelativeTo": ["raise if isA(X, VectorField) and isA(Y, VectorField) and (X.valueType != Y.valueType)",
                   "raise if isA(X, OrientedPoint) and isA(Y, OrientedPoint)"],
    "_coerce": ["raise if len(thing) != 3"],
    "__getitem__": ["raise if isLazy(self.value(pos))"],
}
EXPECTED_DEFS = {
    "directionalSpecHelper": {"makeContactOffset": 3},
    **{n: {"helper": 1} for n in ("FacingToward", "FacingDirectlyToward", "FacingAwayFrom", "FacingDirectlyAwayFrom",
                                  "ApparentlyFacing")},
    "RelativeTo": {"lazyRelativeTo": 1, "knownOrientation": 1, "knownHeading": 1, "knownVector": 1, "helper": 1},
    "Facing": {"helper": 2},
}


def check_guards():
    for name, guards, defs in _SEEN:
        want = EXPECTED_GUARDS.get(name, [])
        expect(guards == want, f"{name}: statements in front of / beside the modelled body changed (guards, asserts, bare "
               f"calls): got {guards}, want {want}")
        wantd = EXPECTED_DEFS.get(name, {})
        expect(defs == wantd, f"{name}: local function definitions changed: got {defs}, want {wantd}")


class Inlined:
    def __init__(self, fn, env=None):
        env = dict(env or {})
        for a in fn.args.args + fn.args.kwonlyargs:
            env.pop(a.arg, None)
        self.fn, self.guards, self.defs = fn, [], {}
        self.value = inline_block(fn.body, env, lambda e: ast.Constant(None), self.guards, self.defs)
        self.env = env
        _SEEN.append((fn.name, list(self.guards), {k: len(v) for k, v in self.defs.items()}))

    @property
    def text(self):
        return ast.unparse(self.value)

    def local(self, name, index=0):
        lst = self.defs.get(name, [])
        expect(len(lst) > index, f"local function {name}[{index}] not found")
        fn, env = lst[index]
        return Inlined(fn, env)


def inline_def(tree, qual, rel):
    try:
        return Inlined(get_def(tree, qual, rel))
    except RecursionError:
        raise TemplateMismatch(f"{qual}: too deeply nested to inline")


# ------------------------------------------------------------------ restricted expression translators
def pyexpr(node, env):
    """Python arithmetic expression -> Lean term (fully parenthesised). env: callable(node) -> str | None."""
    name = env(node)
    if name is not None:
        return name
    if isinstance(node, ast.Constant) and isinstance(node.value, int) and not isinstance(node.value, bool):
        expect(0 <= node.value <= 2, f"numeric literal {node.value} outside the supported set 0, 1, 2")
        return str(node.value)
    if isinstance(node, ast.UnaryOp) and isinstance(node.op, ast.USub):
        return f"(-{pyexpr(node.operand, env)})"
    if isinstance(node, ast.UnaryOp) and isinstance(node.op, ast.UAdd):
        return pyexpr(node.operand, env)
    if isinstance(node, ast.BinOp):
        ops = {ast.Add: "+", ast.Sub: "-", ast.Mult: "*", ast.Div: "/"}
        for k, s in ops.items():
            if isinstance(node.op, k):
                return f"({pyexpr(node.left, env)} {s} {pyexpr(node.right, env)})"
    raise TemplateMismatch(f"unsupported expression: {ast.unparse(node)[:80]}")


def env_names(mapping):
    def env(node):
        if isinstance(node, ast.Name) and node.id in mapping:
            return mapping[node.id]
        return None
    return env


def env_text(mapping):
    """leaves recognised by their unparsed text"""
    def env(node):
        return mapping.get(ast.unparse(node))
    return env


def env_offset(node):
    """names available inside `lambda self, dims, tol, dx, dy, dz: ...`"""
    if isinstance(node, ast.Name) and node.id in ("tol", "dx", "dy", "dz"):
        return node.id
    if isinstance(node, ast.Attribute) and is_name(node.value, "self") and node.attr in ("width", "length", "height"):
        return {"width": "selfW", "length": "selfL", "height": "selfH"}[node.attr]
    if (isinstance(node, ast.Subscript) and is_name(node.value, "dims") and isinstance(node.slice, ast.Constant)
            and node.slice.value in (0, 1, 2)):
        return f"d{node.slice.value}"
    return None


def _is_half_pi(node):
    return ast.unparse(node) in ("math.pi / 2", "math.pi / 2.0", "pi / 2", "pi / 2.0")


class AngleFormula:
    """an angle expression over atan2 atoms / angle inputs, compiled to (cos, sin) arithmetic:
         atan2(A, B)         -> a new atom k with inputs (c{k}, s{k}); A, B recorded as scalar formulas
         E ± pi/2            -> (∓s, ±c)
         E1 ± E2, -E         -> the addition formulas
         normalizeAngle(E)   -> E  (the pair does not depend on the representative)
         an angle input name -> (c<name>, s<name>)"""

    def __init__(self, scalar_env, angle_inputs=()):
        self.scalar_env, self.angle_inputs, self.atoms = scalar_env, tuple(angle_inputs), []

    def compile(self, node):
        if isinstance(node, ast.Call) and ast.unparse(node.func) == "normalizeAngle" and len(node.args) == 1:
            return self.compile(node.args[0])
        if isinstance(node, ast.Call) and ast.unparse(node.func) in ("math.atan2", "atan2") and len(node.args) == 2 \
                and not node.keywords:
            k = len(self.atoms)
            self.atoms.append((pyexpr(node.args[0], self.scalar_env), pyexpr(node.args[1], self.scalar_env)))
            return (f"c{k}", f"s{k}")
        if isinstance(node, ast.Name) and node.id in self.angle_inputs:
            return (f"c{node.id}", f"s{node.id}")
        if isinstance(node, ast.UnaryOp) and isinstance(node.op, ast.USub):
            c, s = self.compile(node.operand)
            return (c, f"(-{s})")
        if isinstance(node, ast.BinOp) and isinstance(node.op, (ast.Add, ast.Sub)):
            plus = isinstance(node.op, ast.Add)
            if _is_half_pi(node.right):
                c, s = self.compile(node.left)
                return (f"(-{s})", c) if plus else (s, f"(-{c})")
            if _is_half_pi(node.left) and plus:
                c, s = self.compile(node.right)
                return (f"(-{s})", c)
            c1, s1 = self.compile(node.left)
            c2, s2 = self.compile(node.right)
            if plus:
                return (f"(({c1} * {c2}) - ({s1} * {s2}))", f"(({s1} * {c2}) + ({c1} * {s2}))")
            return (f"(({c1} * {c2}) + ({s1} * {s2}))", f"(({s1} * {c2}) - ({c1} * {s2}))")
        raise TemplateMismatch(f"unsupported angle expression: {ast.unparse(node)[:80]}")


def _lambda(node, argnames, what):
    expect(isinstance(node, ast.Lambda), f"{what}: not a lambda")
    a = node.args
    expect([x.arg for x in a.args] == argnames and not a.vararg and not a.kwarg and not a.kwonlyargs
           and not a.defaults, f"{what}: lambda parameters changed")
    return node.body


def _vector3(node, what, allow2=False):
    expect(isinstance(node, ast.Call) and is_name(node.func, "Vector") and not node.keywords, f"{what}: not Vector(...)")
    n = len(node.args)
    expect(n == 3 or (allow2 and n == 2), f"{what}: Vector with {n} arguments")
    return list(node.args)


# ------------------------------------------------------------------ extraction: directional specifiers, on, beyond
def extract_dirspec(tree, key, fname):
    fn = get_def(tree, fname, VENEER)
    expect([a.arg for a in fn.args.args] == ["pos", "dist"], f"{fname}: parameters changed")
    call = Inlined(fn).value
    expect(isinstance(call, ast.Call) and is_name(call.func, "directionalSpecHelper") and len(call.args) == 6
           and not call.keywords, f"{fname}: not directionalSpecHelper(6 args)")
    syn, pos, dist, axis, comp, off = call.args
    expect(isinstance(syn, ast.Constant) and isinstance(syn.value, str), f"{fname}: syntax")
    raw = [n for n in ast.walk(fn) if isinstance(n, ast.Call) and is_name(n.func, "directionalSpecHelper")]
    if len(raw) == 1 and raw[0].args and isinstance(raw[0].args[0], ast.Constant) and isinstance(raw[0].args[0].value, str):
        syn = raw[0].args[0]          # the inliner blanks strings with spaces (error messages)
    expect(is_name(pos, "pos") and is_name(dist, "dist"), f"{fname}: pos/dist not passed through")
    expect(isinstance(axis, ast.Constant) and axis.value in ("width", "length", "height"), f"{fname}: axis")
    cb = _lambda(comp, ["dist"], f"{fname} toComponents")
    expect(isinstance(cb, ast.Tuple) and len(cb.elts) == 3, f"{fname}: toComponents is not a triple")
    comps = [pyexpr(e, env_names({"dist": "dist"})) for e in cb.elts]
    ob = _lambda(off, ["self", "dims", "tol", "dx", "dy", "dz"], f"{fname} makeOffset")
    offs = [pyexpr(e, env_offset) for e in _vector3(ob, f"{fname} makeOffset")]
    return {"syntax": syn.value, "axis": axis.value, "components": comps, "offset": offs}


def norm(text):
    """normalise an expected template through the parser (parenthesisation, quotes)"""
    return ast.unparse(ast.parse(text, mode="eval"))


def _helper_template():
    def branches(dx, dy, dz):
        comps = f"{dx}, {dy}, {dz}"
        return ("Specifier(syntax, ({'position': 1, 'parentOrientation': 3} if isA(pos, Object) else "
                "({'position': 1, 'parentOrientation': 3} if isA(pos, OrientedPoint) else {'position': 1})), "
                "(DelayedArgument({axis, 'contactTolerance'}, "
                "lambda self: {'position': pos.relativePosition(makeOffset(self, (pos.width, pos.length, pos.height), "
                f"makeContactOffset(dist, self.contactTolerance), {comps})), 'parentOrientation': pos.orientation}}) "
                "if isA(pos, Object) else "
                "(DelayedArgument({axis}, lambda self: "
                f"{{'position': pos.relativePosition(makeOffset(self, (0, 0, 0), 0, {comps})), "
                "'parentOrientation': pos.orientation}) "
                "if isA(pos, OrientedPoint) else "
                "DelayedArgument({axis, 'orientation'}, lambda self: "
                f"{{'position': toVector(pos, '_').offsetLocally(self.orientation, makeOffset(self, (0, 0, 0), 0, {comps}))}}))))")
    tc = [f"toComponents(coerce(dist, builtins.float))[{k}]" for k in range(3)]
    cv = [f"coerce(dist, Vector)[{k}]" for k in range(3)]
    return norm(f"{branches('0', '0', '0')} if dist is None else ({branches(*tc)} if canCoerce(dist, builtins.float) else "
                f"({branches(*cv)} if canCoerce(dist, Vector) else RAISE))")


def extract_contact(tree):
    helper = get_def(tree, "directionalSpecHelper", VENEER)
    expect([a.arg for a in helper.args.args] == ["syntax", "pos", "dist", "axis", "toComponents", "makeOffset"],
           "directionalSpecHelper: parameters changed")
    inl = Inlined(helper)
    mco = inl.local("makeContactOffset")
    fn = inl.defs["makeContactOffset"][0][0]
    expect([a.arg for a in fn.args.args] == ["dist", "ct"], "makeContactOffset: parameters changed")
    v = mco.value
    expect(isinstance(v, ast.IfExp) and ast.unparse(v.test) == "dist is None",
           "makeContactOffset: not `<A> if dist is None else <B>`")
    env = env_names({"ct": "ct"})
    res = {"none": pyexpr(v.body, env), "given": pyexpr(v.orelse, env)}
    # the 3 (kind of distance) x 3 (Object / OrientedPoint / vector) branches
    got, want = inl.text, _helper_template()
    expect(got == want, f"directionalSpecHelper: branches changed:\n  got  {got}\n  want {want}")
    return res


def _find_assign(fn, target):
    return [n for n in ast.walk(fn) if isinstance(n, ast.Assign) and len(n.targets) == 1 and is_name(n.targets[0], target)]


ON_BODY = [
    "if isA(thing, Object):\n    target = thing.onSurface\nelif canCoerce(thing, Vector, exact=True):\n    target = toVector(thing)\n"
    "elif canCoerce(thing, Region):\n    target = toType(thing, Region)\nelse:\n    raise TypeError('_')",
    "props = {'position': 1}",
    "if isA(target, Region) and alwaysProvidesOrientation(target):\n    props['parentOrientation'] = 2",
    "def helper(context):\n    if hasattr(context, 'position'):\n        if isA(target, Vector):\n            raise TypeError('_')\n"
    "        pos = projectVectorHelper(target, context.position, context.onDirection)\n    elif isA(target, Vector):\n"
    "        pos = target\n    else:\n        pos = Region.uniformPointIn(target)\n    values = {}\n"
    "    contactOffset = CONTACT - context.baseOffset\n    if 'parentOrientation' in props:\n"
    "        values['parentOrientation'] = target.orientation[pos]\n"
    "        contactOffset = contactOffset.rotatedBy(values['parentOrientation'])\n    values['position'] = pos + contactOffset\n"
    "    return values",
    "return ModifyingSpecifier('On', props, DelayedArgument({'onDirection', 'baseOffset', 'contactTolerance'}, helper), "
    "modifiable_props={'position'})",
]


def extract_on(tree):
    fn = get_def(tree, "On", VENEER)
    body = [ast.unparse(subst(st, {})) for st in body_nodoc(fn)]
    assigns = _find_assign(fn, "contactOffset")
    expect(len(assigns) == 2, "On: expected two assignments to contactOffset")
    first = assigns[0].value
    expect(isinstance(first, ast.BinOp) and isinstance(first.op, ast.Sub)
           and isinstance(first.right, ast.Attribute) and first.right.attr == "baseOffset"
           and is_name(first.right.value, "context"), "On: contactOffset is not Vector(..) - context.baseOffset")

    def env(node):
        if isinstance(node, ast.Attribute) and is_name(node.value, "context") and node.attr == "contactTolerance":
            return "ct"
        return None
    vec = [pyexpr(e, env) for e in _vector3(first.left, "On contactOffset")]
    second = assigns[1].value
    expect(ast.unparse(second) == "contactOffset.rotatedBy(values['parentOrientation'])",
           "On: contactOffset is no longer rotated by the region orientation")
    src = ast.unparse(fn)
    expect("values['parentOrientation'] = target.orientation[pos]" in src, "On: parentOrientation is not target.orientation[pos]")
    expect("values['position'] = pos + contactOffset" in src, "On: position is not pos + contactOffset")
    expect("props = {'position': 1}" in src and "props['parentOrientation'] = 2" in src, "On: specified properties changed")
    # the whole statement list (On mutates local dicts, so it is compared statement by statement, not inlined): a branch
    # added in front of / around the contact-offset computation is a mismatch
    want = [t.replace("CONTACT", ast.unparse(first.left)) for t in ON_BODY]
    expect(body == want, f"On: statements changed:\n  got  {body}\n  want {want}")
    return [f"({v} - o{c})" for v, c in zip(vec, "xyz")]


FROM = "(ego() if fromPt is None else fromPt)"
BEYOND_D = f"(toVector(pos, '_') - toVector({FROM[1:-1]}, '_'))"
BEYOND = ("Specifier('Beyond', {'position': 1, 'parentOrientation': 3}, {'position': toVector(pos, '_') + "
          "(SCALAR if underlyingType(offset) is builtins.float or underlyingType(offset) is builtins.int "
          "else toVector(offset, '_')).applyRotation(Orientation.fromEuler("
          f"{BEYOND_D}.sphericalCoordinates()[1], {BEYOND_D}.sphericalCoordinates()[2], 0)), "
          f"'parentOrientation': {FROM}.orientation if isA({FROM[1:-1]}, OrientedPoint) else Orientation.fromEuler(0, 0, 0)}})")


def extract_beyond(tree):
    fn = get_def(tree, "Beyond", VENEER)
    cands = [a for a in _find_assign(fn, "offset") if isinstance(a.value, ast.Call) and is_name(a.value.func, "Vector")]
    expect(len(cands) == 1, "Beyond: scalar branch `offset = Vector(..)` not found")
    data = [pyexpr(e, env_names({"offset": "d"})) for e in _vector3(cands[0].value, "Beyond scalar offset")]
    got = Inlined(fn).text
    want = norm(BEYOND.replace("SCALAR", ast.unparse(cands[0].value)))
    expect(got == want, "Beyond: line-of-sight frame / inherited orientation changed (the OrientedPoint test must "
           f"see `fromPt` before it is coerced to a vector):\n  got  {got}\n  want {want}")
    return data


# ------------------------------------------------------------------ extraction: the facing family
def extract_facing(tree):
    """-> {name: (away, pitch, addHeading)} from the inlined helpers"""
    res = {}
    for name in FACING:
        inl = inline_def(tree, name, VENEER)
        h = inl.local("helper").value
        expect(isinstance(h, ast.Dict) and all(isinstance(k, ast.Constant) for k in h.keys), f"{name}.helper: not a dict")
        d = {k.value: v for k, v in zip(h.keys, h.values)}
        target = "toVector(pos, '_')" if name != "ApparentlyFacing" else f"toVector({FROM[1:-1]}, '_')"
        found = None
        for away in (False, True):
            dirn = f"context.position - {target}" if away else f"{target} - context.position"
            sph = f"({dirn}).applyRotation(context.parentOrientation.inverse).sphericalCoordinates()"
            for add in (False, True):
                yaw = f"{sph}[1]" + (" + toHeading(heading, '_')" if add else "")
                if ast.unparse(d.get("yaw", ast.Constant(None))) != yaw:
                    continue
                if set(d) == {"yaw"}:
                    found = (away, False, add)
                elif set(d) == {"yaw", "pitch"} and ast.unparse(d["pitch"]) == f"{sph}[2]":
                    found = (away, True, add)
        expect(found is not None, f"{name}.helper: not `spherical angles of ±(target - position) in the parent frame "
               f"[+ heading]`: {ast.unparse(h)[:300]}")
        # what is specified / what it depends on
        props = "{'yaw': 1, 'pitch': 1}" if found[1] else "{'yaw': 1}"
        spec = inl.text
        expect(isinstance(inl.value, ast.Call) and is_name(inl.value.func, "Specifier") and len(inl.value.args) == 3
               and not inl.value.keywords, f"{name}: does not return exactly one Specifier(name, props, value): {spec[:300]}")
        expect(spec.startswith("Specifier(") and spec.endswith(f", {props}, DelayedArgument({{'position', 'parentOrientation'}}, helper))"),
               f"{name}: specified properties / dependencies changed: {spec}")
        res[name] = found
    return res


# ------------------------------------------------------------------ extraction: vector / angle formulas
def extract_rotated_by(vtree):
    inl = inline_def(vtree, "Vector.rotatedBy", VECTORS)
    v = inl.value
    expect(isinstance(v, ast.IfExp) and ast.unparse(v.test) == "isinstance(angleOrOrientation, Orientation)"
           and ast.unparse(v.body) == "self.applyRotation(angleOrOrientation)", "Vector.rotatedBy: Orientation branch changed")
    env = env_text({"cos(angleOrOrientation)": "c", "sin(angleOrOrientation)": "s", "math.cos(angleOrOrientation)": "c",
                    "math.sin(angleOrOrientation)": "s", "self.x": "x", "self.y": "y", "self.z": "z",
                    "self[0]": "x", "self[1]": "y", "self[2]": "z"})
    return [pyexpr(e, env) for e in _vector3(v.orelse, "Vector.rotatedBy")]


def extract_angles(vtree, gtree):
    res = {}
    # sphericalCoordinates: Vector(rho, theta, phi)
    sph = _vector3(inline_def(vtree, "Vector.sphericalCoordinates", VECTORS).value, "sphericalCoordinates")
    xyz = {"self.x": "x", "self.y": "y", "self.z": "z", "self[0]": "x", "self[1]": "y", "self[2]": "z"}
    hyp = {"math.hypot(self.x, self.y)": "h", "math.hypot(self.y, self.x)": "h", "hypot(self.x, self.y)": "h"}
    expect(ast.unparse(sph[0]) in ("math.hypot(self.x, self.y, self.z)", "hypot(self.x, self.y, self.z)"),
           "sphericalCoordinates: rho is not hypot(x, y, z)")
    for key, node in (("sphTheta", sph[1]), ("sphPhi", sph[2])):
        f = AngleFormula(env_text({**xyz, **hyp}))
        post = f.compile(node)
        expect(len(f.atoms) == 1, f"{key}: expected exactly one atan2")
        res[key] = {"params": "x y z h", "atoms": f.atoms, "post": post, "inputs": "c0 s0"}
    # azimuthTo / altitudeTo on d = other - self
    dmap = {f"(other.toVector() - self)[{k}]": f"d{k}" for k in range(3)}
    dmap.update({f"(other - self)[{k}]": f"d{k}" for k in range(3)})
    dh = {"math.hypot((other.toVector() - self)[0], (other.toVector() - self)[1])": "h",
          "math.hypot((other - self)[0], (other - self)[1])": "h"}
    for key, qual in (("azimuthTo", "Vector.azimuthTo"), ("altitudeTo", "Vector.altitudeTo")):
        f = AngleFormula(env_text({**dmap, **dh}))
        post = f.compile(inline_def(vtree, qual, VECTORS).value)
        expect(len(f.atoms) == 1, f"{key}: expected exactly one atan2")
        res[key] = {"params": "d0 d1 d2 h", "atoms": f.atoms, "post": post, "inputs": "c0 s0"}
    expect(inline_def(vtree, "Vector.angleTo", VECTORS).text == "self.azimuthTo(other)", "Vector.angleTo is no longer azimuthTo")
    # apparentHeadingAtPoint(point, heading, base)
    pmap = {f"point[:2][{k}]": f"p{k}" for k in range(2)}
    pmap.update({f"base[:2][{k}]": f"b{k}" for k in range(2)})
    pmap.update({f"point[{k}]": f"p{k}" for k in range(2)})
    pmap.update({f"base[{k}]": f"b{k}" for k in range(2)})
    f = AngleFormula(env_text(pmap), angle_inputs=("heading",))
    post = f.compile(inline_def(gtree, "apparentHeadingAtPoint", GEOMETRY).value)
    expect(len(f.atoms) == 1, "apparentHeadingAtPoint: expected exactly one atan2")
    res["apparentHeading"] = {"params": "p0 p1 b0 b1", "atoms": f.atoms, "post": post, "inputs": "cheading sheading c0 s0"}
    return res


def _const_str(node, what):
    expect(isinstance(node, ast.Constant) and isinstance(node.value, str), f"{what}: not a string literal")
    return node.value


def extract_euler_axes(vtree):
    v = inline_def(vtree, "Orientation._fromEuler", VECTORS).value
    expect(isinstance(v, ast.Call) and is_name(v.func, "cls") and len(v.args) == 1, "_fromEuler: not cls(Rotation.from_euler(..))")
    c = v.args[0]
    expect(isinstance(c, ast.Call) and ast.unparse(c.func) == "Rotation.from_euler" and len(c.args) == 2
           and ast.unparse(c.args[1]) == "[yaw, pitch, roll]"
           and [(k.arg, ast.unparse(k.value)) for k in c.keywords] in ([("degrees", "False")], []),
           f"_fromEuler: not Rotation.from_euler(<axes>, [yaw, pitch, roll], degrees=False): {ast.unparse(c)}")
    a1 = _const_str(c.args[0], "_fromEuler axes")
    v2 = inline_def(vtree, "Orientation.eulerAngles", VECTORS).value
    expect(isinstance(v2, ast.Call) and ast.unparse(v2.func) == "_getEulerAngles" and len(v2.args) == 2
           and ast.unparse(v2.args[0]) == "self.r", "eulerAngles: not _getEulerAngles(self.r, <axes>)")
    a2 = _const_str(v2.args[1], "eulerAngles axes")
    for a in (a1, a2):
        expect(len(a) == 3 and all(ch in "XYZxyz" for ch in a), f"Euler axes {a!r}")
    return a1, a2


FOLLOW_FROM = ["if steps is None:\n    steps = self.minSteps\n    stepSize = self.defaultStepSize if stepSize is None else stepSize\n"
               "    if stepSize is not None:\n        steps = STEPS",
               "stepSize = dist / steps", "step = numpy.array([0, stepSize, 0])",
               "for i in range(steps):\n    rot = self[pos].getRotation()\n    pos += rot.apply(step)", "return Vector(*pos)"]


def extract_follow(vtree):
    fn = get_def(vtree, "VectorField.followFrom", VECTORS)
    body = [ast.unparse(s) for s in body_nodoc(fn)]
    cands = [a for a in _find_assign(fn, "steps") if isinstance(a.value, ast.Call)]
    expect(len(cands) == 1, "followFrom: `steps = max(..)` not found")
    want = [s.replace("STEPS", ast.unparse(cands[0].value)) for s in FOLLOW_FROM]
    expect(body == want, f"VectorField.followFrom: shape changed: {body}")
    expect([a.arg for a in fn.args.args] == ["self", "pos", "dist", "steps", "stepSize"], "followFrom: parameters changed")
    return follow_expr(cands[0].value)


def follow_expr(node):
    """max / min / math.ceil / math.floor / steps / dist / stepSize -> Lean (Nat-valued at the top)"""
    def nat(n):
        if is_name(n, "steps"):
            return "minSteps"
        if isinstance(n, ast.Call) and ast.unparse(n.func) in ("max", "min") and len(n.args) == 2 and not n.keywords:
            return f"(Nat.{ast.unparse(n.func)} {nat(n.args[0])} {nat(n.args[1])})"
        if isinstance(n, ast.Call) and ast.unparse(n.func) in ("math.ceil", "math.floor") and len(n.args) == 1:
            f = {"math.ceil": "ceil", "math.floor": "floor"}[ast.unparse(n.func)]
            return f"(Rat.{f} {rat(n.args[0])}).toNat"
        raise TemplateMismatch(f"followFrom: unsupported step-count expression {ast.unparse(n)[:60]}")

    def rat(n):
        return pyexpr(n, env_names({"dist": "dist", "stepSize": "stepSize"}))
    return nat(node)


# ------------------------------------------------------------------ extraction: corners / sides of an Object
def _signed_half(node, attr):
    """±self.<attr> / 0  ->  -1 | 0 | 1"""
    sign = 1
    if isinstance(node, ast.UnaryOp) and isinstance(node.op, ast.USub):
        sign, node = -1, node.operand
    if isinstance(node, ast.Constant) and node.value == 0 and sign == 1:
        return 0
    ok = isinstance(node, ast.Attribute) and is_name(node.value, "self") and node.attr == attr
    expect(ok, f"expected ±self.{attr} or 0, got {ast.unparse(node)}")
    return sign


def extract_object_tables(otree):
    obj = get_def(otree, "Object", OBJTYPES)
    defs = {n.name: n for n in ast.iter_child_nodes(obj) if isinstance(n, ast.FunctionDef)}
    expect("corners" in defs, "Object.corners not found")
    ret = Inlined(defs["corners"]).value
    expect(isinstance(ret, ast.Tuple) and len(ret.elts) == 8, "corners: not a tuple of 8")
    ctab = []
    for e in ret.elts:
        expect(isinstance(e, ast.Call) and isinstance(e.func, ast.Attribute) and e.func.attr == "relativePosition"
               and is_name(e.func.value, "self") and len(e.args) == 1, "corners: element is not self.relativePosition(..)")
        a = _vector3(e.args[0], "corner")
        ctab.append(tuple(_signed_half(x, n) for x, n in zip(a, ("hw", "hl", "hh"))))
    stab = []
    for name in SIDES:
        expect(name in defs, f"Object.{name} not found")
        c = Inlined(defs[name]).value
        expect(isinstance(c, ast.Call) and isinstance(c.func, ast.Attribute) and c.func.attr == "relativize"
               and is_name(c.func.value, "self") and len(c.args) == 1, f"{name}: not self.relativize(..)")
        a = _vector3(c.args[0], name, allow2=True)
        t = [_signed_half(x, n) for x, n in zip(a, ("hw", "hl", "hh"))]
        if len(t) == 2:
            t.append(0)
        stab.append((name, tuple(t)))
    # hw/hl/hh are half the dimensions
    init = defs.get("__init__")
    expect(init is not None, "Object.__init__ not found")
    ini = Inlined(init)
    for a, d in (("hw", "width"), ("hl", "length"), ("hh", "height")):
        got = ini.env.get("self." + a)
        expect(got is not None and ast.unparse(got) == f"self.{d} / 2", f"Object.__init__: self.{a} is no longer self.{d} / 2")
    return ctab, stab


# ------------------------------------------------------------------ templates
F_FOLLOW = "toType(field, VectorField).followFrom(toVector(ego() if fromPt is None else fromPt, '_'), toScalar(dist, '_'))"
REL_OTHER = "(Y if isA(X, OrientedPoint) else X)"
REL_OP = "(X if isA(X, OrientedPoint) else Y)"
TEMPLATES_VENEER = {
    "OffsetBy": "Specifier('OffsetBy', {'position': 1, 'parentOrientation': 3}, {'position': RelativeTo(toVector(offset, '_'), "
                "ego()).toVector(), 'parentOrientation': ego().orientation})",
    "OffsetAlongSpec": "Specifier('OffsetAlong', {'position': 1, 'parentOrientation': 3}, {'position': OffsetAlong(ego(), "
                       "direction, offset), 'parentOrientation': ego().orientation})",
    "OffsetAlong": "toVector(X, '_').offsetLocally(toOrientation(H[toVector(X, '_')] if isA(H, VectorField) else H, '_'), "
                   "toVector(Y, '_'))",
    "Following": "Specifier('Following', {'position': 1, 'parentOrientation': 3}, {'position': " + F_FOLLOW +
                 ", 'parentOrientation': toType(field, VectorField)[" + F_FOLLOW + "]})",
    "Follow": "OrientedPoint._with(position=F.followFrom(toVector(X, '_'), toScalar(D, '_')), "
              "parentOrientation=F[F.followFrom(toVector(X, '_'), toScalar(D, '_'))])",
    "RelativeHeading": "normalizeAngle(toOrientation(X, '_').yaw - (ego().orientation if Y is None else toOrientation(Y, '_')).yaw)",
    "ApparentHeading": "apparentHeadingAtPoint(X.position, X.heading, toVector(ego() if Y is None else Y, '_'))",
    "DistancePast": "toType(ego() if Y is None else Y, OrientedPoint, '_').distancePast(toVector(X, '_'))",
    "DistanceFrom": "toTypes(X, (Vector, Region), '_').distanceTo(toTypes(ego() if Y is None else Y, (Vector, Region), '_'))",
    "AngleFrom": "toVector(ego() if X is None else X, '_').angleTo(toVector(ego() if Y is None else Y, '_'))",
    "AltitudeFrom": "toVector(ego() if X is None else X, '_').altitudeTo(toVector(ego() if Y is None else Y, '_'))",
    "RelativePosition": "toVector(X, '_') - toVector(ego() if Y is None else Y, '_')",
    "RelativeTo":
        "DelayedArgument({'position'}, helper) if isA(X, VectorField) or isA(Y, VectorField) else "
        f"({REL_OP}.heading + toHeading{REL_OTHER} if isA({REL_OTHER[1:-1]}, numbers.Real) else "
        f"toOrientation(Y) * toOrientation(X) if isA({REL_OTHER[1:-1]}, Orientation) else "
        f"{REL_OP}.relativize(toVector{REL_OTHER}) if knownVector({REL_OTHER[1:-1]}) else "
        "lazyRelativeTo(X, Y) if isLazy(X) or isLazy(Y) else RAISE) if isA(X, OrientedPoint) or isA(Y, OrientedPoint) else "
        "toOrientation(Y) * toOrientation(X) if knownOrientation(X) and knownOrientation(Y) else "
        "toHeading(X, '_') + toHeading(Y, '_') if knownHeading(X) and knownHeading(Y) else "
        "toVector(X, '_') + toVector(Y, '_') if knownVector(X) or knownVector(Y) else "
        "lazyRelativeTo(X, Y) if isLazy(X) or isLazy(Y) else RAISE",
}
RELTO_LOCALS = {
    "knownOrientation": "isA(thing, Orientation) or (not isLazy(thing) and canCoerce(thing, Orientation) and (not canCoerce(thing, Vector)))",
    "knownHeading": "isA(thing, numbers.Real) or (not isLazy(thing) and canCoerce(thing, Heading))",
    "knownVector": "isA(thing, Vector) or (not isLazy(thing) and canCoerce(thing, Vector))",
    "helper": "(Y[context.position.toVector()] if isA(Y, VectorField) else toType(Y, X.valueType if isA(X, VectorField) else "
              "Y.valueType, '_')) + (X[context.position.toVector()] if isA(X, VectorField) else toType(X, X.valueType if "
              "isA(X, VectorField) else Y.valueType, '_'))",
}
RELTO_GUARDS = ["raise if isA(X, VectorField) and isA(Y, VectorField) and (X.valueType != Y.valueType)",
                "raise if isA(X, OrientedPoint) and isA(Y, OrientedPoint)"]
FACING_HELPERS = [
    "{'yaw': (heading[context.position] if alwaysGlobalOrientation(context.parentOrientation) else "
    "context.parentOrientation.inverse * heading[context.position]).yaw, 'pitch': (heading[context.position] if "
    "alwaysGlobalOrientation(context.parentOrientation) else context.parentOrientation.inverse * "
    "heading[context.position]).pitch, 'roll': (heading[context.position] if alwaysGlobalOrientation("
    "context.parentOrientation) else context.parentOrientation.inverse * heading[context.position]).roll}",
    "{'yaw': context.parentOrientation.localAnglesFor(valueInContext(toOrientation(heading, '_'), context))[0], "
    "'pitch': context.parentOrientation.localAnglesFor(valueInContext(toOrientation(heading, '_'), context))[1], "
    "'roll': context.parentOrientation.localAnglesFor(valueInContext(toOrientation(heading, '_'), context))[2]}",
]
FACING_SPEC = ("Specifier('Facing', {'yaw': 1, 'pitch': 1, 'roll': 1}, DelayedArgument({'position', 'parentOrientation'}, helper)) "
               "if isA(heading, VectorField) else Specifier('Facing', {'yaw': 1, 'pitch': 1, 'roll': 1}, "
               "DelayedArgument({'parentOrientation'} | requiredProperties(toOrientation(heading, '_')), helper))")
TEMPLATES_VECTORS = {
    "Orientation._fromHeading": "cls(Rotation.from_rotvec([0, 0, heading], degrees=False))",
    "Orientation.fromQuaternion": "cls(Rotation.from_quat(quaternion))",
    "Orientation.inverse": "Orientation(self.r.inv())",
    "Orientation.__mul__": "NotImplemented if type(other) is not Orientation else other if self == globalOrientation else "
                           "self if other == globalOrientation else Orientation(self.r * other.r)",
    "Orientation.__add__": "self * Orientation._fromHeading(other) if isinstance(other, (float, int)) else NotImplemented "
                           "if type(other) is not Orientation else self * other",
    "Orientation.__radd__": "Orientation._fromHeading(other) * self if isinstance(other, (float, int)) else NotImplemented "
                            "if type(other) is not Orientation else other * self",
    "Orientation.localAnglesFor": "(self.inverse * orientation).eulerAngles",
    "Orientation.yaw": "self.eulerAngles[0]",
    "Orientation.pitch": "self.eulerAngles[1]",
    "Orientation.roll": "self.eulerAngles[2]",
    "Orientation._coerce":
        "Orientation._fromHeading(thing) if isinstance(thing, (float, int)) else thing if isinstance(thing, Orientation) else "
        "thing.toOrientation() if hasattr(thing, 'toOrientation') else Orientation._fromEuler(*thing) if isinstance(thing, Vector) "
        "else Orientation._fromEuler(*thing) if isinstance(thing, (tuple, list)) else "
        "Orientation._fromHeading(coerceToFloat(thing)) if canCoerceType(type(thing), float) else RAISE",
    "Vector.applyRotation": "TypeError('_') if not isinstance(rotation, Orientation) else "
                            "Vector(*rotation.getRotation().apply(self.coordinates))",
    "Vector.offsetRotated": "self + offset.rotatedBy(angleOrOrientation)",
    "Vector.offsetLocally": "Vector(self[0] + orientation.getRotation().apply(offset)[0], self[1] + "
                            "orientation.getRotation().apply(offset)[1], self[2] + orientation.getRotation().apply(offset)[2])",
    "Vector.distanceTo": "other.distanceTo(self) if not isinstance(other, Vector) else math.hypot((other.toVector() - self)[0], "
                         "(other.toVector() - self)[1], (other.toVector() - self)[2])",
    "Vector.__add__": "Vector(self[0] + other[0], self[1] + other[1], self[2] + other[2])",
    "Vector.__sub__": "Vector(self[0] - other[0], self[1] - other[1], self[2] - other[2])",
    "Vector.dot": "self.x * other.x + self.y * other.y + self.z * other.z",
    "Vector.cross": "Vector(self.y * other.z - self.z * other.y, self.z * other.x - self.x * other.z, "
                    "self.x * other.y - self.y * other.x)",
    "VectorField.__getitem__": "Orientation._fromHeading(self.value(pos)) if isinstance(self.value(pos), numbers.Real) else "
                               "toOrientation(self.value(pos), '_')",
}
TEMPLATES_OBJTYPES = {
    "OrientedPoint.relativize": "OrientedPoint._with(position=self.relativePosition(vec), parentOrientation=self.orientation)",
    "OrientedPoint.relativePosition": "self.position.offsetLocally(self.orientation, vec)",
    "OrientedPoint.distancePast": "(self.position - vec).rotatedBy(-self.heading).y",
    "OrientedPoint.toHeading": "self.heading",
    "OrientedPoint.toOrientation": "self.orientation",
}
NORMALIZE_ANGLE = ["while angle > math.pi:\n    angle -= math.tau", "while angle < -math.pi:\n    angle += math.tau",
                   "assert -math.pi <= angle <= math.pi", "return angle"]
OPOINT_DEFAULTS = {
    "orientation": "lambda self: self.parentOrientation * Orientation.fromEuler(self.yaw, self.pitch, self.roll)",
    "heading": "lambda self: self.yaw if alwaysGlobalOrientation(self.parentOrientation) else self.orientation.yaw",
}


def check_templates(vtree, cvtree, gtree, otree):
    for trees, rel, table in ((vtree, VENEER, TEMPLATES_VENEER), (cvtree, VECTORS, TEMPLATES_VECTORS),
                              (otree, OBJTYPES, TEMPLATES_OBJTYPES)):
        for qual, want in table.items():
            got, want = inline_def(trees, qual, rel).text, norm(want)
            expect(got == want, f"{qual}: behaviour changed:\n  got  {got}\n  want {want}")
    rel = inline_def(vtree, "RelativeTo", VENEER)
    expect(rel.guards == RELTO_GUARDS, f"RelativeTo: guards changed: {rel.guards}")
    for nm, want in RELTO_LOCALS.items():
        got, want = rel.local(nm).text, norm(want)
        expect(got == want, f"RelativeTo.{nm} changed:\n  got  {got}\n  want {want}")
    fac = inline_def(vtree, "Facing", VENEER)
    expect(fac.text == norm(FACING_SPEC), f"Facing: specified properties / dependencies changed: {fac.text}")
    for i, want in enumerate(FACING_HELPERS):
        got, want = fac.local("helper", i).text, norm(want)
        expect(got == want, f"Facing.helper[{i}] changed:\n  got  {got}\n  want {want}")
    na = get_def(gtree, "normalizeAngle", GEOMETRY)
    expect([ast.unparse(s) for s in body_nodoc(na)] == NORMALIZE_ANGLE, "geometry.normalizeAngle changed")
    # defaults of OrientedPoint.orientation / heading
    op = get_def(otree, "OrientedPoint", OBJTYPES)
    props = None
    for st in op.body:
        if isinstance(st, ast.Assign) and is_name(st.targets[0], "_scenic_properties") and isinstance(st.value, ast.Dict):
            props = {k.value: v for k, v in zip(st.value.keys, st.value.values) if isinstance(k, ast.Constant)}
    expect(props is not None, "OrientedPoint._scenic_properties not found")
    for nm, want in OPOINT_DEFAULTS.items():
        v = props.get(nm)
        expect(isinstance(v, ast.Call) and ast.unparse(v.func) == "PropertyDefault" and len(v.args) == 3
               and ast.unparse(v.args[2]) == want, f"OrientedPoint default of `{nm}` changed")
    for nm in ("yaw", "pitch", "roll"):
        v = props.get(nm)
        expect(isinstance(v, ast.Call) and len(v.args) == 3 and ast.unparse(v.args[2]) == "lambda self: 0",
               f"OrientedPoint default of `{nm}` is no longer 0")
    expect(ast.unparse(props.get("parentOrientation", ast.Constant(None))) == "globalOrientation",
           "OrientedPoint default parentOrientation is no longer the global orientation")


def extract():
    _, vtree = load(VENEER)
    _, cvtree = load(VECTORS)
    _, gtree = load(GEOMETRY)
    _, otree = load(OBJTYPES)
    del _SEEN[:]
    try:
        d = {"specs": {k: extract_dirspec(vtree, k, f) for k, f in SPECS}}
        d["contact"] = extract_contact(vtree)
        d["on"] = extract_on(vtree)
        d["beyond"] = extract_beyond(vtree)
        d["facing"] = extract_facing(vtree)
        d["rotatedBy"] = extract_rotated_by(cvtree)
        d["angles"] = extract_angles(cvtree, gtree)
        d["eulerAxes"] = extract_euler_axes(cvtree)
        d["follow"] = extract_follow(cvtree)
        d["corners"], d["sides"] = extract_object_tables(otree)
        check_templates(vtree, cvtree, gtree, otree)
        check_guards()
    except RecursionError:
        raise TemplateMismatch("source too deeply nested")
    return d


# ------------------------------------------------------------------ Lean output
def _triple(es):
    return "(" + ", ".join(es) + ")"


def _int(z):
    return f"({z})" if z < 0 else str(z)


def _bool(b):
    return "true" if b else "false"


def to_lean(d):
    out = ["/-! formulas and tables of the directional specifiers, `on`, `beyond`, the `facing toward` family",
           "    (veneer.py), of the vector / angle primitives (vectors.py, geometry.py) and of the sides / corners of an",
           "    `Object` (object_types.py) -/",
           "set_option linter.unusedVariables false",
           "namespace Scenic.Gen.Frames", "section",
           "variable {α : Type} [Add α] [Sub α] [Mul α] [Neg α] [Div α] [OfNat α 0] [OfNat α 1] [OfNat α 2]", ""]
    for k, _ in SPECS:
        s = d["specs"][k]
        out.append(f"/-- `{s['syntax']}`: `toComponents` -/")
        out.append(f"def {k}Components (dist : α) : α × α × α := {_triple(s['components'])}")
        out.append(f"/-- `{s['syntax']}`: `makeOffset(self, dims, tol, dx, dy, dz)` -/")
        out.append(f"def {k}Offset (selfW selfL selfH d0 d1 d2 tol dx dy dz : α) : α × α × α :=")
        out.append(f"  {_triple(s['offset'])}")
        out.append(f"def {k}Axis : String := \"{s['axis']}\"")
        out.append("")
    out.append("/-- `makeContactOffset(dist, ct)` when `dist is None` -/")
    out.append(f"def contactOffsetNone (ct : α) : α := {d['contact']['none']}")
    out.append("/-- `makeContactOffset(dist, ct)` when a distance was given -/")
    out.append(f"def contactOffsetGiven (ct : α) : α := {d['contact']['given']}")
    out.append("/-- `On`: `contactOffset = Vector(0, 0, ct / 2) - baseOffset` -/")
    out.append(f"def onContactOffset (ct ox oy oz : α) : α × α × α := {_triple(d['on'])}")
    out.append("/-- `Beyond`: a scalar offset `d` is read as this vector -/")
    out.append(f"def beyondScalar (d : α) : α × α × α := {_triple(d['beyond'])}")
    out.append("/-- `Vector.rotatedBy(angle)` with `c = cos angle`, `s = sin angle` -/")
    out.append(f"def rotatedByFormula (c s x y z : α) : α × α × α := {_triple(d['rotatedBy'])}")
    docs = {"sphTheta": "`Vector.sphericalCoordinates()[1]`", "sphPhi": "`Vector.sphericalCoordinates()[2]`",
            "azimuthTo": "`Vector.azimuthTo` on `d = other - self`", "altitudeTo": "`Vector.altitudeTo` on `d = other - self`",
            "apparentHeading": "`geometry.apparentHeadingAtPoint(point, heading, base)`"}
    for key in ("sphTheta", "sphPhi", "azimuthTo", "altitudeTo", "apparentHeading"):
        a = d["angles"][key]
        out.append(f"/-- {docs[key]}: the arguments `(A, B)` of its `atan2(A, B)` (`h` stands for `hypot` of the first two coordinates) -/")
        out.append(f"def {key}Args ({a['params']} : α) : α × α := ({a['atoms'][0][0]}, {a['atoms'][0][1]})")
        out.append(f"/-- … and `(cos, sin)` of the result from `(c0, s0) = (cos, sin)` of that `atan2` -/")
        out.append(f"def {key}Post ({a['inputs']} : α) : α × α := ({a['post'][0]}, {a['post'][1]})")
    out.append("end")
    out.append("")
    out.append("/-- `VectorField.followFrom`: number of forward-Euler steps -/")
    out.append(f"def followNumSteps (minSteps : Nat) (dist stepSize : Rat) : Nat := {d['follow']}")
    code = {"X": 0, "Y": 1, "Z": 2, "x": 3, "y": 4, "z": 5}
    for nm, ax in zip(("fromEulerAxes", "eulerAnglesAxes"), d["eulerAxes"]):
        out.append("/-- axis sequence given to SciPy by `Orientation." + {"fromEulerAxes": "_fromEuler", "eulerAnglesAxes": "eulerAngles"}[nm] +
                   "`, encoded as X = 0, Y = 1, Z = 2 (intrinsic, upper case), x = 3, y = 4, z = 5 (extrinsic, lower case) -/")
        out.append(f"def {nm} : List Nat := [" + ", ".join(str(code[c]) for c in ax) + f"]   -- \"{ax}\"")
    out.append("/-- the `facing toward` family: (direction is `position - target`, pitch is specified too, a heading is added) -/")
    out.append("def facingTable : List (String × (Bool × Bool × Bool)) := [")
    out.append(",\n".join(f"  (\"{n}\", ({_bool(d['facing'][n][0])}, {_bool(d['facing'][n][1])}, {_bool(d['facing'][n][2])}))"
                          for n in FACING))
    out.append("]")
    out.append("/-- `Object.corners`: signs of `(hw, hl, hh)`, in source order -/")
    out.append("def cornerTable : List (Int × Int × Int) := [" +
               ", ".join(f"({_int(a)}, {_int(b)}, {_int(c)})" for a, b, c in d["corners"]) + "]")
    out.append("/-- `Object.left … bottomBackRight`: signs of `(hw, hl, hh)` passed to `relativize` -/")
    out.append("def sideTable : List (String × (Int × Int × Int)) := [")
    out.append(",\n".join(f"  (\"{n}\", ({_int(a)}, {_int(b)}, {_int(c)}))" for n, (a, b, c) in d["sides"]))
    out.append("]")
    out.append("end Scenic.Gen.Frames")
    return "\n".join(out) + "\n"


if __name__ == "__main__":
    print(to_lean(extract()))
