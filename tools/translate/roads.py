"""roads.py / serialization.py -> Gen/Roads.lean

Extracted (data only):
  * the passes of `Network.findPointIn` (exact pass, tolerant pass guarded by `self.tolerance > 0`) and the
    first-match loop of `findElementWithin` — matched against a reference shape modulo renaming of locals;
  * the element lists searched by every `…At` method, with `_topLevelElements`, `_nominalDirElems`, `allRoads`
    expanded to the attribute lists they are built from (priority orders);
  * the cache header: `_currentFormatVersion`, the sizes of the three reads of `fromPickle`, the comparison
    made after each read and the exception class it raises, the exception raised for a payload that does not
    unpickle, the exception classes `fromFile` catches, the digest sizes used by `fromFile`;
  * the separators / placeholder of `deterministicHash`.
Anything of unexpected shape raises TemplateMismatch.
"""
import ast
import struct

from translate.astutil import TemplateMismatch, body_nodoc, const_int, expect, get_def, lean_int, load

REL = "src/scenic/domains/driving/roads.py"
SER = "src/scenic/core/serialization.py"
XODR = "src/scenic/formats/opendrive/xodr_parser.py"

FIELD = {"intersections": "intersections", "roads": "roads", "shoulders": "shoulders", "sidewalks": "sidewalks",
         "connectingRoads": "connecting", "lanes": "lanes", "laneGroups": "groups", "sections": "sections",
         "crossings": None}

FIND_REF = '''
def findPointIn(self, point, elems, reject):
    point = shapely.geometry.Point(_toVector(point))

    def findElementWithin(distance):
        target = point if distance == 0 else point.buffer(distance)
        indices = self._rtree.query(target, predicate="intersects")
        candidates = {self._uidForIndex[index] for index in indices}
        if candidates:
            for elem in elems:
                if elem.uid in candidates:
                    return elem
        return None

    if elem := findElementWithin(0):
        return elem

    if self.tolerance > 0 and (elem := findElementWithin(self.tolerance)):
        return elem

    if reject:
        if isinstance(reject, str):
            message = reject
        else:
            message = "requested element does not exist"
        raise RejectionException(message)
    return None
'''

# reference shapes (compared modulo renaming of locals) of the methods that decide which centreline supplies the
# traffic direction at a point
DIR_REFS = {
    "LinearElement._defaultHeadingAt": """
def _defaultHeadingAt(self, point):
    point = _toVector(point)
    start, end = self.centerline.nearestSegmentTo(point)
    return start.angleTo(end)
""",
    "Road._defaultHeadingAt": """
def _defaultHeadingAt(self, point):
    point = _toVector(point)
    group = self.laneGroupAt(point)
    if group:
        return group.orientation[point]
    return super()._defaultHeadingAt(point)
""",
    "LaneGroup._defaultHeadingAt": """
def _defaultHeadingAt(self, point):
    point = _toVector(point)
    lane = self.laneAt(point)
    if lane:
        return lane.orientation[point]
    return super()._defaultHeadingAt(point)
""",
    "Intersection._defaultHeadingAt": """
def _defaultHeadingAt(self, point):
    point = _toVector(point)
    man = min(self.maneuvers, key=lambda man: man.connectingLane.distanceTo(point))
    return man.connectingLane.orientation[point]
""",
    "Intersection.maneuversAt": """
def maneuversAt(self, point):
    maneuvers = self.network._findPointInAll(point, self.maneuvers, key=lambda m: m.connectingLane)
    if maneuvers:
        return maneuvers
    man = min(self.maneuvers, key=lambda man: man.connectingLane.distanceTo(point))
    return [man]
""",
    "Intersection.nominalDirectionsAt": """
def nominalDirectionsAt(self, point):
    point = _toVector(point)
    maneuvers = self.maneuversAt(point)
    assert maneuvers, self
    return tuple(m.connectingLane.orientation[point] for m in maneuvers)
""",
    "NetworkElement.nominalDirectionsAt": """
def nominalDirectionsAt(self, point):
    assert self.orientation, self
    return (self.orientation[_toVector(point)],)
""",
    "Network._findPointInAll": """
def _findPointInAll(self, point, things, key=lambda e: e):
    point = _toVector(point)
    found = []
    for thing in things:
        if key(thing).containsPoint(point):
            found.append(thing)
    if not found and self.tolerance > 0:
        for thing in things:
            if key(thing).distanceTo(point) <= self.tolerance:
                found.append(thing)
    return found
""",
    "Network.nominalDirectionsAt": """
def nominalDirectionsAt(self, point, reject=False):
    elem = self.findPointIn(point, self._nominalDirElems, reject)
    return elem.nominalDirectionsAt(point) if elem is not None else ()
""",
    "Network._defaultRoadDirection": """
def _defaultRoadDirection(self, point):
    point = _toVector(point)
    elem = self.findPointIn(point, self._nominalDirElems, reject=False)
    return elem.orientation[point] if elem is not None else 0
""",
}

SECTION_ORDER_REF = """
def f(self):
    forward, backward = [], []
    rightmost = min(self.lanesByOpenDriveID)
    assert rightmost != 0, self.lanesByOpenDriveID
    leftmost = max(self.lanesByOpenDriveID)
    for i in range(rightmost, leftmost + 1):
        if i == 0:
            continue
        if i not in self.lanesByOpenDriveID:
            continue
        (forward if i < 0 else backward).append(self.lanesByOpenDriveID[i])
    self.forwardLanes = tuple(forward)
    self.backwardLanes = tuple(backward)
    self.lanes = self.forwardLanes + self.backwardLanes
"""

ADJ_TAIL_REF = """
def f(self, lane, lanes, leftID, rightID):
    lane._laneToLeft = lanes.get(leftID)
    lane._laneToRight = lanes.get(rightID)
    if self.drive_on_right:
        lane._fasterLane = lane._laneToLeft
        lane._slowerLane = lane._laneToRight
    else:
        lane._slowerLane = lane._laneToLeft
        lane._fasterLane = lane._laneToRight
    if lane._fasterLane and lane._fasterLane.isForward != lane.isForward:
        lane._fasterLane = None
    if lane._slowerLane and lane._slowerLane.isForward != lane.isForward:
        lane._slowerLane = None
    adj = []
    if lane._laneToLeft:
        adj.append(lane._laneToLeft)
    if lane._laneToRight:
        adj.append(lane._laneToRight)
    lane.adjacentLanes = tuple(adj)
"""


def shape(fn):
    """ast dump of a function body with local names (arguments, assigned names, loop / comprehension variables,
    nested function names) replaced by positional placeholders; annotations, decorators and docstrings dropped"""
    fn = ast.parse(ast.unparse(fn)).body[0]
    fn.decorator_list = []
    fn.returns = None
    local = {}

    def add(name):
        if name not in local:
            local[name] = f"v{len(local)}"

    for node in ast.walk(fn):
        if isinstance(node, ast.arg):
            node.annotation = None
            if node.arg != "self" and node.arg != "cls":
                add(node.arg)
    for node in ast.walk(fn):
        if isinstance(node, ast.Name) and isinstance(node.ctx, ast.Store):
            add(node.id)
        elif isinstance(node, ast.FunctionDef) and node is not fn:
            add(node.name)
    for node in ast.walk(fn):
        if isinstance(node, ast.Name) and node.id in local:
            node.id = local[node.id]
        elif isinstance(node, ast.arg) and node.arg in local:
            node.arg = local[node.arg]
        elif isinstance(node, ast.FunctionDef):
            if node is not fn and node.name in local:
                node.name = local[node.name]
            node.body = body_nodoc(node) or [ast.Pass()]
    fn.name = "f"
    return ast.dump(fn)


def self_attr(node, owner="self"):
    if isinstance(node, ast.Attribute) and isinstance(node.value, ast.Name) and node.value.id == owner:
        return node.attr
    return None


def plus_chain(node):
    """self.a + self.b + self.c -> ['a', 'b', 'c']"""
    if isinstance(node, ast.BinOp) and isinstance(node.op, ast.Add):
        return plus_chain(node.left) + plus_chain(node.right)
    a = self_attr(node)
    if a is None:
        raise TemplateMismatch(f"expected self.<list> (+ …), got {ast.unparse(node)[:60]}")
    return [a]


def find_assign(fn, target_attr):
    for node in ast.walk(fn):
        if isinstance(node, ast.Assign) and len(node.targets) == 1 and self_attr(node.targets[0]) == target_attr:
            return node.value
    raise TemplateMismatch(f"assignment to self.{target_attr} not found")


def exc_class(node):
    """pickle.UnpicklingError -> 'unpickling'; cls.DigestMismatchError -> 'digestMismatch'"""
    if isinstance(node, ast.Call):
        node = node.func
    s = ast.unparse(node)
    if s == "pickle.UnpicklingError":
        return "unpickling"
    if s in ("cls.DigestMismatchError", "Network.DigestMismatchError", "self.DigestMismatchError"):
        return "digestMismatch"
    return "other"


def const_bytes(node):
    if isinstance(node, ast.Constant) and isinstance(node.value, bytes):
        return list(node.value)
    raise TemplateMismatch(f"expected a bytes literal, got {ast.unparse(node)[:40]}")


def direct_lookup(fn, aliases, owner_call="self"):
    """`return <owner>.findPointIn(point, self.<attr>, reject)` as the last statement -> expanded attr list"""
    body = body_nodoc(fn)
    ret = body[-1]
    expect(isinstance(ret, ast.Return) and isinstance(ret.value, ast.Call), f"{fn.name}: last statement is not `return ….findPointIn(…)`")
    call = ret.value
    expect(isinstance(call.func, ast.Attribute) and call.func.attr == "findPointIn" and len(call.args) == 3,
           f"{fn.name}: not a findPointIn call")
    expect(ast.unparse(call.func.value) in ("self", "self.network"), f"{fn.name}: findPointIn receiver")
    for st in body[:-1]:
        expect(isinstance(st, ast.Assign) and ast.unparse(st) == "point = _toVector(point)", f"{fn.name}: unexpected statement {ast.unparse(st)[:50]}")
    a = self_attr(call.args[1])
    expect(a is not None, f"{fn.name}: searched list is not self.<attr>")
    return aliases.get(a, [a])


def two_stage(fn):
    """point = _toVector(point); x = self.<first>(point, reject=reject); return None if x is None else x.<second>(point[, reject=reject])"""
    body = body_nodoc(fn)
    expect(len(body) == 3 and ast.unparse(body[0]) == "point = _toVector(point)", f"{fn.name}: two-stage shape")
    a = body[1]
    expect(isinstance(a, ast.Assign) and isinstance(a.value, ast.Call) and self_attr(a.value.func) is not None
           and isinstance(a.targets[0], ast.Name), f"{fn.name}: first stage")
    var = a.targets[0].id
    first = self_attr(a.value.func)
    r = body[2]
    expect(isinstance(r, ast.Return) and isinstance(r.value, ast.IfExp), f"{fn.name}: second stage")
    e = r.value
    expect(ast.unparse(e.test) == f"{var} is None" and ast.unparse(e.body) == "None", f"{fn.name}: None guard")
    expect(isinstance(e.orelse, ast.Call) and isinstance(e.orelse.func, ast.Attribute)
           and isinstance(e.orelse.func.value, ast.Name) and e.orelse.func.value.id == var, f"{fn.name}: second call")
    return first, e.orelse.func.attr

def stmts_shape(stmts, args):
    """shape of a statement list, wrapped into a function with the given parameter names"""
    fn = ast.parse("def f(%s):\n    pass" % ", ".join(args)).body[0]
    fn.body = list(stmts)
    return shape(fn)


def id_guard(test, var):
    """`var < k` / `var == k` -> ('lt'|'eq', k)"""
    expect(isinstance(test, ast.Compare) and len(test.ops) == 1 and isinstance(test.left, ast.Name) and test.left.id == var,
           f"adjacency: guard {ast.unparse(test)[:40]}")
    k = const_int(test.comparators[0])
    if isinstance(test.ops[0], ast.Lt):
        return ("lt", k)
    if isinstance(test.ops[0], ast.Eq):
        return ("eq", k)
    raise TemplateMismatch(f"adjacency: comparison {ast.unparse(test)[:40]}")


def id_expr(node, var):
    """`var + k` / `var - k` / `k` -> ('add', k) | ('const', k)"""
    if isinstance(node, ast.BinOp) and isinstance(node.left, ast.Name) and node.left.id == var:
        k = const_int(node.right)
        if isinstance(node.op, ast.Add):
            return ("add", k)
        if isinstance(node.op, ast.Sub):
            return ("add", -k)
        raise TemplateMismatch(f"adjacency: operator in {ast.unparse(node)[:40]}")
    return ("const", const_int(node))


def id_chain(node, var, target):
    """if/elif/else chain (statement form) or conditional expression assigning `target` -> [(guard, expr)]"""
    out = []
    if isinstance(node, ast.If):
        cur = node
        while True:
            expect(len(cur.body) == 1 and isinstance(cur.body[0], ast.Assign) and ast.unparse(cur.body[0].targets[0]) == target,
                   f"adjacency: branch of the {target} chain")
            out.append((id_guard(cur.test, var), id_expr(cur.body[0].value, var)))
            if len(cur.orelse) == 1 and isinstance(cur.orelse[0], ast.If):
                cur = cur.orelse[0]
                continue
            expect(len(cur.orelse) == 1 and isinstance(cur.orelse[0], ast.Assign) and ast.unparse(cur.orelse[0].targets[0]) == target,
                   f"adjacency: else branch of the {target} chain")
            out.append((("otherwise", 0), id_expr(cur.orelse[0].value, var)))
            return out
    expect(isinstance(node, ast.Assign) and ast.unparse(node.targets[0]) == target, f"adjacency: assignment of {target}")
    v = node.value
    while isinstance(v, ast.IfExp):
        out.append((id_guard(v.test, var), id_expr(v.body, var)))
        v = v.orelse
    out.append((("otherwise", 0), id_expr(v, var)))
    return out


def extract_adjacency(d):
    """xodr_parser.Road.toScenicRoad: the loop that connects lane sections to their neighbours"""
    src, tree = load(XODR)
    fn = get_def(tree, "Road.toScenicRoad", XODR)
    loops = [x for x in fn.body if isinstance(x, ast.For) and ast.unparse(x.iter) == "roadSections" and x.body
             and ast.unparse(x.body[0]) == "lanes = section.lanesByOpenDriveID"]
    expect(len(loops) == 1 and len(loops[0].body) == 2 and isinstance(loops[0].body[1], ast.For),
           "toScenicRoad: adjacency loop over roadSections not found")
    inner = loops[0].body[1]
    expect(ast.unparse(inner.target) == "(id_, lane)" and ast.unparse(inner.iter) == "lanes.items()", "toScenicRoad: adjacency inner loop")
    body = inner.body
    expect(len(body) >= 4, "toScenicRoad: adjacency loop body")
    d["adjLeft"] = id_chain(body[0], "id_", "leftID")
    d["adjRight"] = id_chain(body[1], "id_", "rightID")
    tail = body[2:]
    ref = ast.parse(ADJ_TAIL_REF).body[0]
    if stmts_shape(tail, ["self", "lane", "lanes", "leftID", "rightID"]) != shape(ref):
        # the only variation that is data: which side is faster when driving on the right
        swapped = ADJ_TAIL_REF.replace("lane._fasterLane = lane._laneToLeft\n        lane._slowerLane = lane._laneToRight",
                                       "lane._fasterLane = lane._laneToRight\n        lane._slowerLane = lane._laneToLeft", 1) \
                              .replace("lane._slowerLane = lane._laneToLeft\n        lane._fasterLane = lane._laneToRight",
                                       "lane._slowerLane = lane._laneToRight\n        lane._fasterLane = lane._laneToLeft", 1)
        if stmts_shape(tail, ["self", "lane", "lanes", "leftID", "rightID"]) == shape(ast.parse(swapped).body[0]):
            d["fasterIsLeftOnRight"] = False
        else:
            raise TemplateMismatch("toScenicRoad: the assignments of _laneToLeft/_laneToRight/_fasterLane/_slowerLane/adjacentLanes "
                                   "no longer have the reference shape")
    else:
        d["fasterIsLeftOnRight"] = True
    d["dropOpposite"] = True
    expect(any(isinstance(k, ast.keyword) and k.arg == "isForward" and ast.unparse(k.value) == "id_ < 0" for k in ast.walk(fn)),
           "toScenicRoad: LaneSection(isForward=id_ < 0)")
    # lane order of a road section (roads.py)
    rsrc, rtree = load(REL)
    post = get_def(rtree, "RoadSection.__attrs_post_init__", REL)
    ifs = [x for x in body_nodoc(post) if isinstance(x, ast.If) and ast.unparse(x.test) == "self.lanesByOpenDriveID and (not self.lanes)"]
    expect(len(ifs) == 1, "RoadSection.__attrs_post_init__: branch building the lane tuples from lanesByOpenDriveID")
    if stmts_shape(ifs[0].body, ["self"]) != shape(ast.parse(SECTION_ORDER_REF).body[0]):
        raise TemplateMismatch("RoadSection.__attrs_post_init__: lane order no longer has the reference shape "
                               "(ids from rightmost to leftmost, 0 skipped, negative forward, positive backward)")


def extract_direction(tree, d):
    for qual, ref in DIR_REFS.items():
        if shape(get_def(tree, qual, REL)) != shape(ast.parse(ref).body[0]):
            raise TemplateMismatch(f"{qual} no longer has the reference shape")
    for cls in ("Lane", "Shoulder"):  # inherit LinearElement._defaultHeadingAt / NetworkElement.nominalDirectionsAt
        c = get_def(tree, cls, REL)
        expect(not any(isinstance(x, ast.FunctionDef) and x.name in ("_defaultHeadingAt", "nominalDirectionsAt") for x in c.body),
               f"{cls} overrides _defaultHeadingAt / nominalDirectionsAt")
    for cls in ("Road", "LaneGroup"):
        c = get_def(tree, cls, REL)
        expect(not any(isinstance(x, ast.FunctionDef) and x.name == "nominalDirectionsAt" for x in c.body),
               f"{cls} overrides nominalDirectionsAt")
    d["headingChain"] = [("road", "groups"), ("laneGroup", "lanes")]


def extract_elem_lookups(tree, d):
    out = []
    for owner, kind, name in (("Road", "road", "sectionAt"), ("Road", "road", "laneAt"), ("Road", "road", "laneGroupAt"),
                              ("LaneGroup", "laneGroup", "laneAt"), ("Lane", "lane", "sectionAt"),
                              ("RoadSection", "roadSection", "laneAt")):
        attrs = direct_lookup(get_def(tree, f"{owner}.{name}", REL), {})
        expect(len(attrs) == 1 and FIELD.get(attrs[0]), f"{owner}.{name}: searched list")
        out.append((f"{owner}.{name}", kind, attrs[0], None))
    first, second = two_stage(get_def(tree, "Road.laneSectionAt", REL))
    expect(first == "laneAt" and second == "sectionAt", "Road.laneSectionAt is not self.laneAt then lane.sectionAt")
    out.append(("Road.laneSectionAt", "road", "lanes", "sections"))
    expect(dict((n, a) for n, _, a, _ in out)["Road.laneAt"] == "lanes" and dict((n, a) for n, _, a, _ in out)["Lane.sectionAt"] == "sections",
           "Road.laneSectionAt: lists of its two stages")
    d["elemLookups"] = out


def extract_path(ff, d):
    """the front of Network.fromFile: handlers order, extension search, errors"""
    body = body_nodoc(ff)
    srcs = {ast.unparse(x.targets[0]): x.value for x in body if isinstance(x, ast.Assign)}
    expect(ast.unparse(srcs.get("path")) == "pathlib.Path(path)" and ast.unparse(srcs.get("ext")) == "path.suffix", "fromFile: path / ext")
    h = srcs.get("handlers")
    expect(isinstance(h, ast.Dict), "fromFile: handlers dict")
    order = []
    for k, v in zip(h.keys, h.values):
        ks, vs = ast.unparse(k), ast.unparse(v)
        if ks == "cls.pickledExt" and vs == "cls.fromPickle":
            order.append("pickled")
        elif isinstance(k, ast.Constant) and isinstance(k.value, str) and vs != "cls.fromPickle":
            order.append("map")
        else:
            raise TemplateMismatch(f"fromFile: handler {ks}: {vs}")
    d["handlerOrder"] = order
    ifs = [x for x in body if isinstance(x, ast.If)]
    expect(len(ifs) >= 2 and ast.unparse(ifs[0].test) == "not ext", "fromFile: `if not ext` search")
    search_ref = """
def f(cls, path, handlers):
    found = False
    for ext in handlers:
        newPath = path.with_suffix(ext)
        if newPath.exists():
            path = newPath
            found = True
            break
    if not found:
        raise FileNotFoundError(f'no readable maps found for path {path}')
"""
    expect(stmts_shape(ifs[0].body, ["cls", "path", "handlers"]) == shape(ast.parse(search_ref).body[0]),
           "fromFile: search through the known formats")
    d["notFoundErr"] = "fileNotFound"
    el = ifs[0].orelse
    expect(len(el) == 1 and isinstance(el[0], ast.If) and ast.unparse(el[0].test) == "ext not in handlers" and len(el[0].body) == 1
           and isinstance(el[0].body[0], ast.Raise) and not el[0].orelse, "fromFile: unknown extension")
    exc = el[0].body[0].exc
    name = ast.unparse(exc.func if isinstance(exc, ast.Call) else exc)
    d["unknownErr"] = {"ValueError": "valueError", "FileNotFoundError": "fileNotFound"}.get(name, "other")
    expect(ast.unparse(ifs[1].test) == "ext == cls.pickledExt" and len(ifs[1].body) == 1
           and ast.unparse(ifs[1].body[0]) == "return cls.fromPickle(path)" and not ifs[1].orelse, "fromFile: direct load of a .snet path")
    withs = [x for x in body if isinstance(x, ast.With)]
    expect(len(withs) == 1 and ast.unparse(withs[0].items[0].context_expr) == "open(path, 'rb')"
           and ast.unparse(withs[0].body[0]) == "data = f.read()", "fromFile: reading the map file")
    # order: extension handling, direct load, read + digests, cache guard
    pos = {id(x): i for i, x in enumerate(body)}
    guard = [x for x in body if isinstance(x, ast.If) and ast.unparse(x.test) == "useCache and pickledPath.exists()"]
    expect(len(guard) == 1 and pos[id(ifs[0])] < pos[id(ifs[1])] < pos[id(withs[0])] < pos[id(guard[0])], "fromFile: statement order")



def extract():
    src, tree = load(REL)
    d = {}
    # ---- findPointIn: shape modulo local renaming
    fp = get_def(tree, "Network.findPointIn", REL)
    ref = ast.parse(FIND_REF).body[0]
    if shape(fp) != shape(ref):
        raise TemplateMismatch("Network.findPointIn no longer has the reference shape (exact pass, tolerant pass "
                               "guarded by tolerance > 0, first match in list order)")
    d["passes"] = ["exact", "tolerant"]
    # ---- element lists
    init = get_def(tree, "Network.__attrs_post_init__", REL)
    aliases = {
        "_topLevelElements": plus_chain(find_assign(init, "_topLevelElements")),
        "_nominalDirElems": plus_chain(find_assign(init, "_nominalDirElems")),
        "allRoads": plus_chain(find_assign(init, "allRoads")),
    }
    for k, v in aliases.items():
        for a in v:
            expect(a in FIELD and FIELD[a], f"{k}: unknown element list self.{a}")
    lookups = {}
    for name in ("elementAt", "roadAt", "laneAt", "intersectionAt", "sidewalkAt", "shoulderAt"):
        lookups[name] = (direct_lookup(get_def(tree, f"Network.{name}", REL), aliases), None)
    nd = get_def(tree, "Network.nominalDirectionsAt", REL)
    b = body_nodoc(nd)
    expect(len(b) == 2 and isinstance(b[0], ast.Assign) and isinstance(b[0].value, ast.Call)
           and ast.unparse(b[0].value.func) == "self.findPointIn" and self_attr(b[0].value.args[1]) == "_nominalDirElems",
           "nominalDirectionsAt: does not search self._nominalDirElems")
    rd = get_def(tree, "Network._defaultRoadDirection", REL)
    expect(any(isinstance(x, ast.Call) and ast.unparse(x.func) == "self.findPointIn" and self_attr(x.args[1]) == "_nominalDirElems"
               for x in ast.walk(rd)), "_defaultRoadDirection: does not search self._nominalDirElems")
    lookups["nominalDirElem"] = (aliases["_nominalDirElems"], None)
    child_lists = {
        ("Lane", "sectionAt"): direct_lookup(get_def(tree, "Lane.sectionAt", REL), {}),
        ("Road", "laneGroupAt"): direct_lookup(get_def(tree, "Road.laneGroupAt", REL), {}),
    }
    first, second = two_stage(get_def(tree, "Network.laneSectionAt", REL))
    expect(first == "laneAt" and second == "sectionAt", "laneSectionAt is not laneAt then lane.sectionAt")
    lookups["laneSectionAt"] = (lookups["laneAt"][0], child_lists[("Lane", "sectionAt")])
    first, second = two_stage(get_def(tree, "Network.laneGroupAt", REL))
    expect(first == "roadAt" and second == "laneGroupAt", "laneGroupAt is not roadAt then road.laneGroupAt")
    lookups["laneGroupAt"] = (lookups["roadAt"][0], child_lists[("Road", "laneGroupAt")])
    order = ["elementAt", "roadAt", "laneAt", "laneSectionAt", "laneGroupAt", "intersectionAt", "sidewalkAt",
             "shoulderAt", "nominalDirElem"]
    d["lookups"] = [(n, lookups[n]) for n in order]
    for n, (f, c) in d["lookups"]:
        for a in f + (c or []):
            expect(a in FIELD and FIELD[a], f"{n}: unknown element list self.{a}")
    extract_elem_lookups(tree, d)
    extract_direction(tree, d)
    # ---- cache header
    cfv = get_def(tree, "Network._currentFormatVersion", REL)
    ret = body_nodoc(cfv)[-1]
    expect(isinstance(ret, ast.Return) and isinstance(ret.value, ast.Constant) and isinstance(ret.value.value, int),
           "_currentFormatVersion does not return an integer literal")
    d["formatVersion"] = ret.value.value
    fpk = get_def(tree, "Network.fromPickle", REL)
    withs = [x for x in body_nodoc(fpk) if isinstance(x, ast.With)]
    expect(len(withs) == 1 and ast.unparse(withs[0].items[0].context_expr) == "open(path, 'rb')", "fromPickle: with open(path, 'rb')")
    stmts = withs[0].body
    fields = []
    i = 0
    fvar = withs[0].items[0].optional_vars.id
    while i < len(stmts) and isinstance(stmts[i], ast.Assign) and isinstance(stmts[i].value, ast.Call) \
            and ast.unparse(stmts[i].value.func) == f"{fvar}.read":
        var = stmts[i].targets[0].id
        size = stmts[i].value.args[0].value
        chk = stmts[i + 1]
        expect(isinstance(chk, ast.If) and ast.unparse(chk.test) == f"len({var}) != {size}" and isinstance(chk.body[0], ast.Raise),
               f"fromPickle: read of {var} is not length-checked")
        short = exc_class(chk.body[0].exc)
        i += 2
        if isinstance(stmts[i], ast.Assign):  # version = struct.unpack("<I", versionField)
            un = stmts[i]
            expect(ast.unparse(un.value.func) == "struct.unpack" and isinstance(un.value.args[0], ast.Constant),
                   "fromPickle: version decoding")
            fmt = un.value.args[0].value
            expect(fmt == "<I" and struct.calcsize(fmt) == size and ast.unparse(un.value.args[1]) == var,
                   f"fromPickle: version format {fmt!r} / size {size}")
            cmpv = un.targets[0].id
            i += 1
            test = stmts[i]
            expect(isinstance(test, ast.If) and ast.unparse(test.test) == f"{cmpv}[0] != cls._currentFormatVersion()"
                   and isinstance(test.body[0], ast.Raise), "fromPickle: version comparison")
            fields.append(("version", size, short, exc_class(test.body[0].exc), None))
        else:
            test = stmts[i]
            expect(isinstance(test, ast.If) and isinstance(test.test, ast.BoolOp) and isinstance(test.test.op, ast.And)
                   and len(test.test.values) == 2 and isinstance(test.test.values[0], ast.Name), "fromPickle: digest comparison")
            expected = test.test.values[0].id
            expect(ast.unparse(test.test.values[1]) == f"{expected} != {var}" and isinstance(test.body[0], ast.Raise),
                   "fromPickle: digest comparison is not `expected and expected != field`")
            fields.append((expected, size, short, exc_class(test.body[0].exc), expected))
        i += 1
    expect([f[0] for f in fields] == ["version", "originalDigest", "optionsDigest"],
           f"fromPickle: header fields are {[f[0] for f in fields]}")
    shorts = {f[2] for f in fields}
    expect(len(shorts) == 1, "fromPickle: short reads raise different exceptions")
    d["versionBytes"], d["digestBytes"], d["optionsBytes"] = fields[0][1], fields[1][1], fields[2][1]
    d["shortErr"] = shorts.pop()
    d["versionErr"], d["digestErr"], d["optionsErr"] = fields[0][3], fields[1][3], fields[2][3]
    rest = stmts[i:]
    expect(len(rest) == 1 and isinstance(rest[0], ast.With) and ast.unparse(rest[0].items[0].context_expr) == f"gzip.open({fvar})",
           "fromPickle: payload is not read with gzip.open(f)")
    tr = rest[0].body[0]
    expect(isinstance(tr, ast.Try) and ast.unparse(tr.body[0].value) == f"pickle.load({rest[0].items[0].optional_vars.id})",
           "fromPickle: pickle.load")
    perr = set()
    for hnd in tr.handlers:
        r = hnd.body[-1]
        expect(isinstance(r, ast.Raise), "fromPickle: payload handler does not raise")
        perr.add(exc_class(hnd.type) if r.exc is None else exc_class(r.exc))
    expect(perr == {"unpickling"} and any(ast.unparse(h.type) == "Exception" for h in tr.handlers),
           f"fromPickle: payload errors are {perr}")
    d["payloadErr"] = "unpickling"
    # ---- fromFile
    ff = get_def(tree, "Network.fromFile", REL)
    ifs = [x for x in body_nodoc(ff) if isinstance(x, ast.If) and ast.unparse(x.test) == "useCache and pickledPath.exists()"]
    expect(len(ifs) == 1 and len(ifs[0].body) == 1 and isinstance(ifs[0].body[0], ast.Try), "fromFile: cache guard")
    tr = ifs[0].body[0]
    expect(ast.unparse(tr.body[0]) == "return cls.fromPickle(pickledPath, originalDigest=digest, optionsDigest=optionsDigest)",
           "fromFile: fromPickle call")
    caught = []
    for hnd in tr.handlers:
        for st in hnd.body:
            expect(isinstance(st, ast.Expr) and isinstance(st.value, ast.Call) and ast.unparse(st.value.func) == "verbosePrint",
                   "fromFile: an exception handler does more than print")
        caught.append(exc_class(hnd.type))
    d["caught"] = caught
    srcs = {ast.unparse(x.targets[0]): ast.unparse(x.value) for x in body_nodoc(ff) if isinstance(x, ast.Assign)}
    expect(srcs.get("digest") == "hashlib.blake2b(data).digest()", "fromFile: map digest is not blake2b(data).digest()")
    expect(d["digestBytes"] == 64, "fromPickle: digest field is not the 64 bytes of blake2b")
    expect(srcs.get("optionsDigest") == f"deterministicHash(kwargs, digest_size={d['optionsBytes']})",
           "fromFile: options digest size differs from the header field")
    expect(srcs.get("pickledPath") == "path.with_suffix(cls.pickledExt)", "fromFile: cache path")
    # the parse + write-back tail
    tail = body_nodoc(ff)[-3:]
    expect(ast.unparse(tail[0]) == "network = handlers[ext](path, **kwargs)" and isinstance(tail[1], ast.If)
           and ast.unparse(tail[1].test) == "writeCache" and ast.unparse(tail[2]) == "return network", "fromFile: tail")
    extract_path(ff, d)
    dp = get_def(tree, "Network.dumpPickle", REL)
    writes = [ast.unparse(x.value.args[0]) for x in ast.walk(dp) if isinstance(x, ast.Expr) and isinstance(x.value, ast.Call)
              and isinstance(x.value.func, ast.Attribute) and x.value.func.attr == "write" and ast.unparse(x.value.func.value) == "f"]
    expect(writes == ["version", "digest", "optionsDigest"], f"dumpPickle writes {writes}")
    expect(any(isinstance(x, ast.Assign) and ast.unparse(x) == "version = struct.pack('<I', self._currentFormatVersion())"
               for x in ast.walk(dp)), "dumpPickle: version packing")
    # ---- deterministicHash
    ssrc, stree = load(SER)
    dh = get_def(stree, "deterministicHash", SER)
    b = body_nodoc(dh)
    expect(len(b) == 3 and ast.unparse(b[0]) == "hasher = hashlib.blake2b(digest_size=digest_size)"
           and isinstance(b[1], ast.For) and ast.unparse(b[1].iter) == "sorted(mapping.keys(), key=str)"
           and ast.unparse(b[2]) == "return hasher.digest()", "deterministicHash: outline")
    loop = b[1].body
    expect(len(loop) == 5, "deterministicHash: loop body")
    upd = lambda st: st.value.args[0] if (isinstance(st, ast.Expr) and isinstance(st.value, ast.Call)
                                          and ast.unparse(st.value.func) == "hasher.update") else None
    expect(upd(loop[0]) is not None and upd(loop[1]) is not None and upd(loop[2]) is not None, "deterministicHash: updates")
    d["sepKey"] = const_bytes(upd(loop[0]))
    expect(ast.unparse(upd(loop[1])) == "str(key).encode()", "deterministicHash: key encoding")
    d["sepVal"] = const_bytes(upd(loop[2]))
    expect(ast.unparse(loop[3]) == "value = mapping[key]", "deterministicHash: value lookup")
    cond = loop[4]
    expect(isinstance(cond, ast.If) and ast.unparse(cond.test) == "isinstance(value, (int, float, str))"
           and ast.unparse(upd(cond.body[0])) == "str(value).encode()", "deterministicHash: value encoding")
    d["placeholder"] = const_bytes(upd(cond.orelse[0]))
    # ---- adjacency of lane sections (xodr_parser.py) and lane order of road sections
    extract_adjacency(d)
    return d


def paths(attrs):
    return "[" + ", ".join(f"[.{FIELD[a]}]" for a in attrs) + "]"


def to_lean(d):
    lk = []
    for name, (first, child) in d["lookups"]:
        c = f", child := some {paths(child)}" if child else ""
        lk.append(f'  ("{name}", {{ first := {paths(first)}{c} }})')
    nat_list = lambda l: "[" + ", ".join(map(str, l)) + "]"
    el = []
    for name, kind, first, child in d["elemLookups"]:
        c = f", child := some .{FIELD[child]}" if child else ""
        el.append(f'  ("{name}", {{ owner := .{kind}, first := .{FIELD[first]}{c} }})')

    def chain(c):
        def g(x):
            return ".otherwise" if x[0] == "otherwise" else f".{x[0]} {lean_int(x[1])}"
        return "[" + ", ".join(f"({g(gd)}, .{e[0]} {lean_int(e[1])})" for gd, e in c) + "]"
    lb = lambda b: "true" if b else "false"
    return f"""import ScenicModel.Model.RoadLookup
import ScenicModel.Model.RoadDirection
import ScenicModel.Model.RoadCache
import ScenicModel.Model.RoadAdjacency
namespace Scenic.Gen.Roads
open Scenic.Roads Scenic.RoadCache

/-- passes of `Network.findPointIn` (roads.py): exact, then tolerant guarded by `self.tolerance > 0` -/
def passes : List Pass := [{", ".join("." + p for p in d["passes"])}]

/-- the element lists searched by the `…At` methods of `Network`, in order (`_topLevelElements`,
`_nominalDirElems` and `allRoads` expanded) -/
def lookups : List (String × LookupDef) := [
{(","+chr(10)).join(lk)}
]

/-- header of the `.snet` cache: `_currentFormatVersion`, the three reads of `fromPickle`, the exception
raised by each check, the exception classes caught by `fromFile` -/
def cacheCfg : Cfg :=
  {{ formatVersion := {d["formatVersion"]}, versionBytes := {d["versionBytes"]}, digestBytes := {d["digestBytes"]}, optionsBytes := {d["optionsBytes"]},
    shortErr := .{d["shortErr"]}, versionErr := .{d["versionErr"]}, digestErr := .{d["digestErr"]},
    optionsErr := .{d["optionsErr"]}, payloadErr := .{d["payloadErr"]},
    caught := [{", ".join("." + c for c in d["caught"])}] }}

/-- separators of `deterministicHash` (serialization.py) -/
def hashCfg : HashCfg := {{ sepKey := {nat_list(d["sepKey"])}, sepVal := {nat_list(d["sepVal"])}, placeholder := {nat_list(d["placeholder"])} }}

/-- the `…At` methods of network elements: class, list searched, second stage -/
def elemLookups : List (String × ElemLookup) := [
{(","+chr(10)).join(el)}
]

/-- `Road._defaultHeadingAt` -> `laneGroupAt`, `LaneGroup._defaultHeadingAt` -> `laneAt`: the lists through which the
heading of a road descends to a lane (every method involved has the reference shape) -/
def headingChain : List (Kind × Field) := [{", ".join(f"(.{k}, .{FIELD.get(f, f)})" for k, f in d["headingChain"])}]

/-- the front of `Network.fromFile`: keys of `handlers` in order, the errors for "nothing found" / "unknown extension" -/
def pathCfg : PathCfg :=
  {{ handlerOrder := [{", ".join("." + x for x in d["handlerOrder"])}], notFoundErr := .{d["notFoundErr"]}, unknownErr := .{d["unknownErr"]} }}

/-- xodr_parser.py `Road.toScenicRoad`: the `leftID` / `rightID` chains and the faster / slower assignment -/
def adjCfg : Scenic.RoadAdj.Cfg :=
  {{ left := {chain(d["adjLeft"])},
    right := {chain(d["adjRight"])},
    fasterIsLeftOnRight := {lb(d["fasterIsLeftOnRight"])}, dropOpposite := {lb(d["dropOpposite"])} }}

end Scenic.Gen.Roads
"""


# data of the pinned source (/repo at the time the check was finalised): written to Gen/Roads.lean when the template no
# longer matches, so that the Lean side always builds and is the reference model; the tie then rests on the correspondence run
PINNED = {'passes': ['exact', 'tolerant'],
 'lookups': [('elementAt', (['intersections', 'roads', 'shoulders', 'sidewalks'], None)),
             ('roadAt', (['roads', 'connectingRoads'], None)),
             ('laneAt', (['lanes'], None)),
             ('laneSectionAt', (['lanes'], ['sections'])),
             ('laneGroupAt', (['roads', 'connectingRoads'], ['laneGroups'])),
             ('intersectionAt', (['intersections'], None)),
             ('sidewalkAt', (['sidewalks'], None)),
             ('shoulderAt', (['shoulders'], None)),
             ('nominalDirElem', (['intersections', 'roads', 'shoulders'], None))],
 'elemLookups': [('Road.sectionAt', 'road', 'sections', None),
                 ('Road.laneAt', 'road', 'lanes', None),
                 ('Road.laneGroupAt', 'road', 'laneGroups', None),
                 ('LaneGroup.laneAt', 'laneGroup', 'lanes', None),
                 ('Lane.sectionAt', 'lane', 'sections', None),
                 ('RoadSection.laneAt', 'roadSection', 'lanes', None),
                 ('Road.laneSectionAt', 'road', 'lanes', 'sections')],
 'headingChain': [('road', 'groups'), ('laneGroup', 'lanes')],
 'formatVersion': 35,
 'versionBytes': 4,
 'digestBytes': 64,
 'optionsBytes': 8,
 'shortErr': 'unpickling',
 'versionErr': 'unpickling',
 'digestErr': 'digestMismatch',
 'optionsErr': 'digestMismatch',
 'payloadErr': 'unpickling',
 'caught': ['unpickling', 'digestMismatch'],
 'handlerOrder': ['map', 'pickled'],
 'notFoundErr': 'fileNotFound',
 'unknownErr': 'valueError',
 'sepKey': [0, 75],
 'sepVal': [0, 86],
 'placeholder': [0],
 'adjLeft': [(('lt', -1), ('add', 1)),
             (('eq', -1), ('const', 1)),
             (('eq', 1), ('const', -1)),
             (('otherwise', 0), ('add', -1))],
 'adjRight': [(('lt', 0), ('add', -1)), (('otherwise', 0), ('add', 1))],
 'fasterIsLeftOnRight': True,
 'dropOpposite': True}
