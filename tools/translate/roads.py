"""roads.py / serialization.py -> Gen/Roads.lean

Extracted (data only):
  * the passes of `Network.findPointIn` (exact pass, tolerant pass guarded by `self.tolerance > 0`) and the
    first-match loop of `findElementWithin` — matched against a reference shape modulo renaming of locals;
  * the element lists searched by every `…At` method, with `_topLevelElements`, `_nominalDirElems`, `allRoads`
    expanded to the attribute lists they are built from (priority orders);
  * the cache header: `_currentFormatVersion`, the sizes of the three reads of `fromPickle`, the comparison
    made after each read and the exception class it raises, the exception raised for a payload that does not
    unpickle, the exception classes `fromFile` catches, the digest sizes used by `fromFile`;
  * the separators / placeholder of `deterministicHash`.
Anything of unexpected shape raises TemplateMismatch.
"""
import ast
import struct

from translate.astutil import TemplateMismatch, body_nodoc, expect, get_def, load

REL = "src/scenic/domains/driving/roads.py"
SER = "src/scenic/core/serialization.py"

FIELD = {"intersections": "intersections", "roads": "roads", "shoulders": "shoulders", "sidewalks": "sidewalks",
         "connectingRoads": "connecting", "lanes": "lanes", "laneGroups": "groups", "sections": "sections",
         "crossings": None}

FIND_REF = '''
def findPointIn(self, point, elems, reject):
    point = shapely.geometry.Point(_toVector(point))

    def findElementWithin(distance):
        target = point if distance == 0 else point.buffer(distance)
        indices = self._rtree.query(target, predicate="intersects")
        candidates = {self._uidForIndex[index] for index in indices}
        if candidates:
            for elem in elems:
                if elem.uid in candidates:
                    return elem
        return None

    if elem := findElementWithin(0):
        return elem

    if self.tolerance > 0 and (elem := findElementWithin(self.tolerance)):
        return elem

    if reject:
        if isinstance(reject, str):
            message = reject
        else:
            message = "requested element does not exist"
        raise RejectionException(message)
    return None
'''


def shape(fn):
    """ast dump of a function body with local names (arguments, assigned names, loop / comprehension variables,
    nested function names) replaced by positional placeholders; annotations, decorators and docstrings dropped"""
    fn = ast.parse(ast.unparse(fn)).body[0]
    fn.decorator_list = []
    fn.returns = None
    local = {}

    def add(name):
        if name not in local:
            local[name] = f"v{len(local)}"

    for node in ast.walk(fn):
        if isinstance(node, ast.arg):
            node.annotation = None
            if node.arg != "self" and node.arg != "cls":
                add(node.arg)
    for node in ast.walk(fn):
        if isinstance(node, ast.Name) and isinstance(node.ctx, ast.Store):
            add(node.id)
        elif isinstance(node, ast.FunctionDef) and node is not fn:
            add(node.name)
    for node in ast.walk(fn):
        if isinstance(node, ast.Name) and node.id in local:
            node.id = local[node.id]
        elif isinstance(node, ast.arg) and node.arg in local:
            node.arg = local[node.arg]
        elif isinstance(node, ast.FunctionDef):
            if node is not fn and node.name in local:
                node.name = local[node.name]
            node.body = body_nodoc(node) or [ast.Pass()]
    fn.name = "f"
    return ast.dump(fn)


def self_attr(node, owner="self"):
    if isinstance(node, ast.Attribute) and isinstance(node.value, ast.Name) and node.value.id == owner:
        return node.attr
    return None


def plus_chain(node):
    """self.a + self.b + self.c -> ['a', 'b', 'c']"""
    if isinstance(node, ast.BinOp) and isinstance(node.op, ast.Add):
        return plus_chain(node.left) + plus_chain(node.right)
    a = self_attr(node)
    if a is None:
        raise TemplateMismatch(f"expected self.<list> (+ …), got {ast.unparse(node)[:60]}")
    return [a]


def find_assign(fn, target_attr):
    for node in ast.walk(fn):
        if isinstance(node, ast.Assign) and len(node.targets) == 1 and self_attr(node.targets[0]) == target_attr:
            return node.value
    raise TemplateMismatch(f"assignment to self.{target_attr} not found")


def exc_class(node):
    """pickle.UnpicklingError -> 'unpickling'; cls.DigestMismatchError -> 'digestMismatch'"""
    if isinstance(node, ast.Call):
        node = node.func
    s = ast.unparse(node)
    if s == "pickle.UnpicklingError":
        return "unpickling"
    if s in ("cls.DigestMismatchError", "Network.DigestMismatchError", "self.DigestMismatchError"):
        return "digestMismatch"
    return "other"


def const_bytes(node):
    if isinstance(node, ast.Constant) and isinstance(node.value, bytes):
        return list(node.value)
    raise TemplateMismatch(f"expected a bytes literal, got {ast.unparse(node)[:40]}")


def direct_lookup(fn, aliases, owner_call="self"):
    """`return <owner>.findPointIn(point, self.<attr>, reject)` as the last statement -> expanded attr list"""
    body = body_nodoc(fn)
    ret = body[-1]
    expect(isinstance(ret, ast.Return) and isinstance(ret.value, ast.Call), f"{fn.name}: last statement is not `return ….findPointIn(…)`")
    call = ret.value
    expect(isinstance(call.func, ast.Attribute) and call.func.attr == "findPointIn" and len(call.args) == 3,
           f"{fn.name}: not a findPointIn call")
    expect(ast.unparse(call.func.value) in ("self", "self.network"), f"{fn.name}: findPointIn receiver")
    for st in body[:-1]:
        expect(isinstance(st, ast.Assign) and ast.unparse(st) == "point = _toVector(point)", f"{fn.name}: unexpected statement {ast.unparse(st)[:50]}")
    a = self_attr(call.args[1])
    expect(a is not None, f"{fn.name}: searched list is not self.<attr>")
    return aliases.get(a, [a])


def two_stage(fn):
    """point = _toVector(point); x = self.<first>(point, reject=reject); return None if x is None else x.<second>(point[, reject=reject])"""
    body = body_nodoc(fn)
    expect(len(body) == 3 and ast.unparse(body[0]) == "point = _toVector(point)", f"{fn.name}: two-stage shape")
    a = body[1]
    expect(isinstance(a, ast.Assign) and isinstance(a.value, ast.Call) and self_attr(a.value.func) is not None
           and isinstance(a.targets[0], ast.Name), f"{fn.name}: first stage")
    var = a.targets[0].id
    first = self_attr(a.value.func)
    r = body[2]
    expect(isinstance(r, ast.Return) and isinstance(r.value, ast.IfExp), f"{fn.name}: second stage")
    e = r.value
    expect(ast.unparse(e.test) == f"{var} is None" and ast.unparse(e.body) == "None", f"{fn.name}: None guard")
    expect(isinstance(e.orelse, ast.Call) and isinstance(e.orelse.func, ast.Attribute)
           and isinstance(e.orelse.func.value, ast.Name) and e.orelse.func.value.id == var, f"{fn.name}: second call")
    return first, e.orelse.func.attr


def extract():
    src, tree = load(REL)
    d = {}
    # ---- findPointIn: shape modulo local renaming
    fp = get_def(tree, "Network.findPointIn", REL)
    ref = ast.parse(FIND_REF).body[0]
    if shape(fp) != shape(ref):
        raise TemplateMismatch("Network.findPointIn no longer has the reference shape (exact pass, tolerant pass "
                               "guarded by tolerance > 0, first match in list order)")
    d["passes"] = ["exact", "tolerant"]
    # ---- element lists
    init = get_def(tree, "Network.__attrs_post_init__", REL)
    aliases = {
        "_topLevelElements": plus_chain(find_assign(init, "_topLevelElements")),
        "_nominalDirElems": plus_chain(find_assign(init, "_nominalDirElems")),
        "allRoads": plus_chain(find_assign(init, "allRoads")),
    }
    for k, v in aliases.items():
        for a in v:
            expect(a in FIELD and FIELD[a], f"{k}: unknown element list self.{a}")
    lookups = {}
    for name in ("elementAt", "roadAt", "laneAt", "intersectionAt", "sidewalkAt", "shoulderAt"):
        lookups[name] = (direct_lookup(get_def(tree, f"Network.{name}", REL), aliases), None)
    nd = get_def(tree, "Network.nominalDirectionsAt", REL)
    b = body_nodoc(nd)
    expect(len(b) == 2 and isinstance(b[0], ast.Assign) and isinstance(b[0].value, ast.Call)
           and ast.unparse(b[0].value.func) == "self.findPointIn" and self_attr(b[0].value.args[1]) == "_nominalDirElems",
           "nominalDirectionsAt: does not search self._nominalDirElems")
    rd = get_def(tree, "Network._defaultRoadDirection", REL)
    expect(any(isinstance(x, ast.Call) and ast.unparse(x.func) == "self.findPointIn" and self_attr(x.args[1]) == "_nominalDirElems"
               for x in ast.walk(rd)), "_defaultRoadDirection: does not search self._nominalDirElems")
    lookups["nominalDirElem"] = (aliases["_nominalDirElems"], None)
    child_lists = {
        ("Lane", "sectionAt"): direct_lookup(get_def(tree, "Lane.sectionAt", REL), {}),
        ("Road", "laneGroupAt"): direct_lookup(get_def(tree, "Road.laneGroupAt", REL), {}),
    }
    first, second = two_stage(get_def(tree, "Network.laneSectionAt", REL))
    expect(first == "laneAt" and second == "sectionAt", "laneSectionAt is not laneAt then lane.sectionAt")
    lookups["laneSectionAt"] = (lookups["laneAt"][0], child_lists[("Lane", "sectionAt")])
    first, second = two_stage(get_def(tree, "Network.laneGroupAt", REL))
    expect(first == "roadAt" and second == "laneGroupAt", "laneGroupAt is not roadAt then road.laneGroupAt")
    lookups["laneGroupAt"] = (lookups["roadAt"][0], child_lists[("Road", "laneGroupAt")])
    order = ["elementAt", "roadAt", "laneAt", "laneSectionAt", "laneGroupAt", "intersectionAt", "sidewalkAt",
             "shoulderAt", "nominalDirElem"]
    d["lookups"] = [(n, lookups[n]) for n in order]
    for n, (f, c) in d["lookups"]:
        for a in f + (c or []):
            expect(a in FIELD and FIELD[a], f"{n}: unknown element list self.{a}")
    # ---- cache header
    cfv = get_def(tree, "Network._currentFormatVersion", REL)
    ret = body_nodoc(cfv)[-1]
    expect(isinstance(ret, ast.Return) and isinstance(ret.value, ast.Constant) and isinstance(ret.value.value, int),
           "_currentFormatVersion does not return an integer literal")
    d["formatVersion"] = ret.value.value
    fpk = get_def(tree, "Network.fromPickle", REL)
    withs = [x for x in body_nodoc(fpk) if isinstance(x, ast.With)]
    expect(len(withs) == 1 and ast.unparse(withs[0].items[0].context_expr) == "open(path, 'rb')", "fromPickle: with open(path, 'rb')")
    stmts = withs[0].body
    fields = []
    i = 0
    fvar = withs[0].items[0].optional_vars.id
    while i < len(stmts) and isinstance(stmts[i], ast.Assign) and isinstance(stmts[i].value, ast.Call) \
            and ast.unparse(stmts[i].value.func) == f"{fvar}.read":
        var = stmts[i].targets[0].id
        size = stmts[i].value.args[0].value
        chk = stmts[i + 1]
        expect(isinstance(chk, ast.If) and ast.unparse(chk.test) == f"len({var}) != {size}" and isinstance(chk.body[0], ast.Raise),
               f"fromPickle: read of {var} is not length-checked")
        short = exc_class(chk.body[0].exc)
        i += 2
        if isinstance(stmts[i], ast.Assign):  # version = struct.unpack("<I", versionField)
            un = stmts[i]
            expect(ast.unparse(un.value.func) == "struct.unpack" and isinstance(un.value.args[0], ast.Constant),
                   "fromPickle: version decoding")
            fmt = un.value.args[0].value
            expect(fmt == "<I" and struct.calcsize(fmt) == size and ast.unparse(un.value.args[1]) == var,
                   f"fromPickle: version format {fmt!r} / size {size}")
            cmpv = un.targets[0].id
            i += 1
            test = stmts[i]
            expect(isinstance(test, ast.If) and ast.unparse(test.test) == f"{cmpv}[0] != cls._currentFormatVersion()"
                   and isinstance(test.body[0], ast.Raise), "fromPickle: version comparison")
            fields.append(("version", size, short, exc_class(test.body[0].exc), None))
        else:
            test = stmts[i]
            expect(isinstance(test, ast.If) and isinstance(test.test, ast.BoolOp) and isinstance(test.test.op, ast.And)
                   and len(test.test.values) == 2 and isinstance(test.test.values[0], ast.Name), "fromPickle: digest comparison")
            expected = test.test.values[0].id
            expect(ast.unparse(test.test.values[1]) == f"{expected} != {var}" and isinstance(test.body[0], ast.Raise),
                   "fromPickle: digest comparison is not `expected and expected != field`")
            fields.append((expected, size, short, exc_class(test.body[0].exc), expected))
        i += 1
    expect([f[0] for f in fields] == ["version", "originalDigest", "optionsDigest"],
           f"fromPickle: header fields are {[f[0] for f in fields]}")
    shorts = {f[2] for f in fields}
    expect(len(shorts) == 1, "fromPickle: short reads raise different exceptions")
    d["versionBytes"], d["digestBytes"], d["optionsBytes"] = fields[0][1], fields[1][1], fields[2][1]
    d["shortErr"] = shorts.pop()
    d["versionErr"], d["digestErr"], d["optionsErr"] = fields[0][3], fields[1][3], fields[2][3]
    rest = stmts[i:]
    expect(len(rest) == 1 and isinstance(rest[0], ast.With) and ast.unparse(rest[0].items[0].context_expr) == f"gzip.open({fvar})",
           "fromPickle: payload is not read with gzip.open(f)")
    tr = rest[0].body[0]
    expect(isinstance(tr, ast.Try) and ast.unparse(tr.body[0].value) == f"pickle.load({rest[0].items[0].optional_vars.id})",
           "fromPickle: pickle.load")
    perr = set()
    for hnd in tr.handlers:
        r = hnd.body[-1]
        expect(isinstance(r, ast.Raise), "fromPickle: payload handler does not raise")
        perr.add(exc_class(hnd.type) if r.exc is None else exc_class(r.exc))
    expect(perr == {"unpickling"} and any(ast.unparse(h.type) == "Exception" for h in tr.handlers),
           f"fromPickle: payload errors are {perr}")
    d["payloadErr"] = "unpickling"
    # ---- fromFile
    ff = get_def(tree, "Network.fromFile", REL)
    ifs = [x for x in body_nodoc(ff) if isinstance(x, ast.If) and ast.unparse(x.test) == "useCache and pickledPath.exists()"]
    expect(len(ifs) == 1 and len(ifs[0].body) == 1 and isinstance(ifs[0].body[0], ast.Try), "fromFile: cache guard")
    tr = ifs[0].body[0]
    expect(ast.unparse(tr.body[0]) == "return cls.fromPickle(pickledPath, originalDigest=digest, optionsDigest=optionsDigest)",
           "fromFile: fromPickle call")
    caught = []
    for hnd in tr.handlers:
        for st in hnd.body:
            expect(isinstance(st, ast.Expr) and isinstance(st.value, ast.Call) and ast.unparse(st.value.func) == "verbosePrint",
                   "fromFile: an exception handler does more than print")
        caught.append(exc_class(hnd.type))
    d["caught"] = caught
    srcs = {ast.unparse(x.targets[0]): ast.unparse(x.value) for x in body_nodoc(ff) if isinstance(x, ast.Assign)}
    expect(srcs.get("digest") == "hashlib.blake2b(data).digest()", "fromFile: map digest is not blake2b(data).digest()")
    expect(d["digestBytes"] == 64, "fromPickle: digest field is not the 64 bytes of blake2b")
    expect(srcs.get("optionsDigest") == f"deterministicHash(kwargs, digest_size={d['optionsBytes']})",
           "fromFile: options digest size differs from the header field")
    expect(srcs.get("pickledPath") == "path.with_suffix(cls.pickledExt)", "fromFile: cache path")
    # the parse + write-back tail
    tail = body_nodoc(ff)[-3:]
    expect(ast.unparse(tail[0]) == "network = handlers[ext](path, **kwargs)" and isinstance(tail[1], ast.If)
           and ast.unparse(tail[1].test) == "writeCache" and ast.unparse(tail[2]) == "return network", "fromFile: tail")
    dp = get_def(tree, "Network.dumpPickle", REL)
    writes = [ast.unparse(x.value.args[0]) for x in ast.walk(dp) if isinstance(x, ast.Expr) and isinstance(x.value, ast.Call)
              and isinstance(x.value.func, ast.Attribute) and x.value.func.attr == "write" and ast.unparse(x.value.func.value) == "f"]
    expect(writes == ["version", "digest", "optionsDigest"], f"dumpPickle writes {writes}")
    expect(any(isinstance(x, ast.Assign) and ast.unparse(x) == "version = struct.pack('<I', self._currentFormatVersion())"
               for x in ast.walk(dp)), "dumpPickle: version packing")
    # ---- deterministicHash
    ssrc, stree = load(SER)
    dh = get_def(stree, "deterministicHash", SER)
    b = body_nodoc(dh)
    expect(len(b) == 3 and ast.unparse(b[0]) == "hasher = hashlib.blake2b(digest_size=digest_size)"
           and isinstance(b[1], ast.For) and ast.unparse(b[1].iter) == "sorted(mapping.keys(), key=str)"
           and ast.unparse(b[2]) == "return hasher.digest()", "deterministicHash: outline")
    loop = b[1].body
    expect(len(loop) == 5, "deterministicHash: loop body")
    upd = lambda st: st.value.args[0] if (isinstance(st, ast.Expr) and isinstance(st.value, ast.Call)
                                          and ast.unparse(st.value.func) == "hasher.update") else None
    expect(upd(loop[0]) is not None and upd(loop[1]) is not None and upd(loop[2]) is not None, "deterministicHash: updates")
    d["sepKey"] = const_bytes(upd(loop[0]))
    expect(ast.unparse(upd(loop[1])) == "str(key).encode()", "deterministicHash: key encoding")
    d["sepVal"] = const_bytes(upd(loop[2]))
    expect(ast.unparse(loop[3]) == "value = mapping[key]", "deterministicHash: value lookup")
    cond = loop[4]
    expect(isinstance(cond, ast.If) and ast.unparse(cond.test) == "isinstance(value, (int, float, str))"
           and ast.unparse(upd(cond.body[0])) == "str(value).encode()", "deterministicHash: value encoding")
    d["placeholder"] = const_bytes(upd(cond.orelse[0]))
    return d


def paths(attrs):
    return "[" + ", ".join(f"[.{FIELD[a]}]" for a in attrs) + "]"


def to_lean(d):
    lk = []
    for name, (first, child) in d["lookups"]:
        c = f", child := some {paths(child)}" if child else ""
        lk.append(f'  ("{name}", {{ first := {paths(first)}{c} }})')
    nat_list = lambda l: "[" + ", ".join(map(str, l)) + "]"
    return f"""import ScenicModel.Model.RoadLookup
import ScenicModel.Model.RoadCache
namespace Scenic.Gen.Roads
open Scenic.Roads Scenic.RoadCache

/-- passes of `Network.findPointIn` (roads.py): exact, then tolerant guarded by `self.tolerance > 0` -/
def passes : List Pass := [{", ".join("." + p for p in d["passes"])}]

/-- the element lists searched by the `…At` methods of `Network`, in order (`_topLevelElements`,
`_nominalDirElems` and `allRoads` expanded) -/
def lookups : List (String × LookupDef) := [
{(","+chr(10)).join(lk)}
]

/-- header of the `.snet` cache: `_currentFormatVersion`, the three reads of `fromPickle`, the exception
raised by each check, the exception classes caught by `fromFile` -/
def cacheCfg : Cfg :=
  {{ formatVersion := {d["formatVersion"]}, versionBytes := {d["versionBytes"]}, digestBytes := {d["digestBytes"]}, optionsBytes := {d["optionsBytes"]},
    shortErr := .{d["shortErr"]}, versionErr := .{d["versionErr"]}, digestErr := .{d["digestErr"]},
    optionsErr := .{d["optionsErr"]}, payloadErr := .{d["payloadErr"]},
    caught := [{", ".join("." + c for c in d["caught"])}] }}

/-- separators of `deterministicHash` (serialization.py) -/
def hashCfg : HashCfg := {{ sepKey := {nat_list(d["sepKey"])}, sepVal := {nat_list(d["sepVal"])}, placeholder := {nat_list(d["placeholder"])} }}

end Scenic.Gen.Roads
"""
