"""visibility.py / object_types.py / vectors.py / veneer.py / requirements.py -> Gen/Visibility.lean

Extracts the *choices* made by the visibility code as data (`Cfg`, `ObjCfg`, `WrapCfg` of
lean/ScenicModel/Model/Visibility.lean).  The point branch of `visibility.canSee` is read by a small
symbolic evaluator (local names are followed through assignments, so renaming a local or reordering
independent statements does not matter); everything that is not recognised raises TemplateMismatch.
"""
import ast
from fractions import Fraction

from translate.astutil import TemplateMismatch, body_nodoc, expect, get_def, is_name, load

VIS = "src/scenic/core/visibility.py"
OBJ = "src/scenic/core/object_types.py"
VEC = "src/scenic/core/vectors.py"
VEN = "src/scenic/syntax/veneer.py"
REQ = "src/scenic/core/requirements.py"
REG = "src/scenic/core/regions.py"
GEO = "src/scenic/core/geometry.py"


# ----------------------------------------------------------------------------- small AST helpers
def dotted(node):
    """a.b.c -> 'a.b.c' (None when not a pure attribute chain)"""
    parts = []
    while isinstance(node, ast.Attribute):
        parts.append(node.attr)
        node = node.value
    if isinstance(node, ast.Name):
        parts.append(node.id)
        return ".".join(reversed(parts))
    return None


def pi_multiple(node):
    """multiple of pi denoted by a constant expression (math.pi, np.pi, math.tau, 2*np.pi, math.pi/2, -x)"""
    d = dotted(node)
    if d in ("math.pi", "np.pi", "numpy.pi"):
        return Fraction(1)
    if d in ("math.tau",):
        return Fraction(2)
    if isinstance(node, ast.UnaryOp) and isinstance(node.op, ast.USub):
        m = pi_multiple(node.operand)
        return None if m is None else -m
    if isinstance(node, ast.BinOp):
        if isinstance(node.op, ast.Mult):
            for a, b in ((node.left, node.right), (node.right, node.left)):
                if isinstance(a, ast.Constant) and isinstance(a.value, (int, float)) and not isinstance(a.value, bool):
                    m = pi_multiple(b)
                    if m is not None:
                        return Fraction(a.value) * m
        if isinstance(node.op, ast.Div) and isinstance(node.right, ast.Constant) \
                and isinstance(node.right.value, (int, float)) and node.right.value != 0:
            m = pi_multiple(node.left)
            if m is not None:
                return m / Fraction(node.right.value)
    return None


def const_index(node):
    """x[i] with a literal non-negative integer i -> (x, i)"""
    if isinstance(node, ast.Subscript):
        sl = node.slice
        if isinstance(sl, ast.Constant) and isinstance(sl.value, int) and not isinstance(sl.value, bool) and sl.value >= 0:
            return node.value, sl.value
    return None


def cmp_dir(op):
    """+1 for < / <=, -1 for > / >=, None otherwise"""
    if isinstance(op, (ast.Lt, ast.LtE)):
        return 1
    if isinstance(op, (ast.Gt, ast.GtE)):
        return -1
    return None


def returns_const(stmts, value):
    return (len(stmts) == 1 and isinstance(stmts[0], ast.Return) and isinstance(stmts[0].value, ast.Constant)
            and stmts[0].value.value is value)


# ----------------------------------------------------------------------------- symbolic evaluation (point branch)
class Sym:
    """Symbolic values of the point branch.  Terms are nested tuples:
    ('T',) target location, ('P',) viewer position, ('D',) visibleDistance,
    ('sub', a, b), ('rinv', a), ('rot', a), ('unit', a), ('list', a), ('dist', a, b),
    ('angle', num_idx, den_idx, quarter, of)  wrapped azimuth, ('asin', idx, of), ('half', i)"""

    def __init__(self, env):
        self.env = dict(env)

    def ev(self, node):
        if isinstance(node, ast.Name):
            if node.id in self.env:
                return self.env[node.id]
            raise TemplateMismatch(f"point branch: unknown name {node.id}")
        if isinstance(node, ast.BinOp) and isinstance(node.op, ast.Sub):
            # wrapped angle:  np.mod(E + pi, 2 pi) - pi
            if pi_multiple(node.right) == 1 and isinstance(node.left, ast.Call) and dotted(node.left.func) in ("np.mod", "numpy.mod", "math.fmod") \
                    and len(node.left.args) == 2 and pi_multiple(node.left.args[1]) == 2:
                at, off = self.angle_sum(node.left.args[0])
                off -= 1  # the "+ pi" inside the mod
                if off.denominator not in (1, 2):
                    raise TemplateMismatch("azimuth offset is not a multiple of pi/2")
                return ("angle", at[1], at[2], int(off * 2), at[3])
            return ("sub", self.ev(node.left), self.ev(node.right))
        if isinstance(node, ast.BinOp) and isinstance(node.op, ast.Div):
            # x / np.linalg.norm(x)
            r = node.right
            if isinstance(r, ast.Call) and dotted(r.func) in ("np.linalg.norm", "numpy.linalg.norm") and len(r.args) == 1:
                a, b = self.ev(node.left), self.ev(r.args[0])
                expect(a == b, "point branch: normalisation by the norm of a different vector")
                return ("unit", a)
            # viewAngles[i] / 2
            ci = const_index(node.left)
            if ci and is_name(ci[0], "viewAngles") and isinstance(r, ast.Constant) and r.value == 2:
                return ("half", ci[1])
            # (-viewAngles[i]) / 2
            if isinstance(node.left, ast.UnaryOp) and isinstance(node.left.op, ast.USub):
                ci = const_index(node.left.operand)
                if ci and is_name(ci[0], "viewAngles") and isinstance(r, ast.Constant) and r.value == 2:
                    return ("neg", ("half", ci[1]))
            raise TemplateMismatch("point branch: unexpected division " + ast.unparse(node)[:60])
        if isinstance(node, ast.UnaryOp) and isinstance(node.op, ast.USub):
            return ("neg", self.ev(node.operand))
        if isinstance(node, ast.Subscript):
            ci = const_index(node)
            if ci:
                base = self.ev(ci[0])
                if base[0] == "list" and ci[1] == 0:
                    return base[1]
                if base[0] in ("rinv", "rot") and base[1][0] == "list" and ci[1] == 0:
                    return (base[0], base[1][1])
                return ("idx", base, ci[1])
            raise TemplateMismatch("point branch: unexpected subscript " + ast.unparse(node)[:60])
        if isinstance(node, ast.List) and len(node.elts) == 1:
            return ("list", self.ev(node.elts[0]))
        if isinstance(node, ast.Call):
            f = dotted(node.func)
            if f == "toVector" and len(node.args) >= 1 and is_name(node.args[0], "target"):
                return ("T",)
            if f in ("np.array", "numpy.array", "np.asarray") and len(node.args) == 1:
                return self.ev(node.args[0])
            if f in ("np.arcsin", "numpy.arcsin", "math.asin") and len(node.args) == 1:
                a = self.ev(node.args[0])
                expect(a[0] == "idx", "arcsin of something that is not a ray component")
                return ("asin", a[2], a[1])
            if isinstance(node.func, ast.Attribute) and node.func.attr == "distanceTo" and len(node.args) == 1:
                return ("dist", self.ev(node.func.value), self.ev(node.args[0]))
            if isinstance(node.func, ast.Attribute) and node.func.attr == "apply" and len(node.args) == 1:
                rot = node.func.value
                if dotted(rot) in ("orientation._inverseRotation",) or (
                        isinstance(rot, ast.Call) and dotted(rot.func) in ("orientation._inverseRotation.inv",)):
                    return ("rinv", self.ev(node.args[0]))
                if isinstance(rot, ast.Call) and dotted(rot.func) == "orientation.getRotation" and not rot.args:
                    return ("rot", self.ev(node.args[0]))
                if isinstance(rot, ast.Call) and dotted(rot.func) in ("orientation.getRotation.inv", "orientation.r.inv"):
                    return ("rinv", self.ev(node.args[0]))
                if isinstance(rot, ast.Call) and isinstance(rot.func, ast.Attribute) and rot.func.attr == "inv" \
                        and isinstance(rot.func.value, ast.Call) and dotted(rot.func.value.func) == "orientation.getRotation":
                    return ("rinv", self.ev(node.args[0]))
            raise TemplateMismatch("point branch: unexpected call " + ast.unparse(node)[:70])
        raise TemplateMismatch("point branch: unexpected expression " + ast.unparse(node)[:70])

    def angle_sum(self, node):
        """E = atan2(ray[a], ray[b]) + q*pi  ->  (('atan2', a, b, of), q)"""
        if isinstance(node, ast.BinOp) and isinstance(node.op, (ast.Add, ast.Sub)):
            sign = 1 if isinstance(node.op, ast.Add) else -1
            m = pi_multiple(node.right)
            if m is not None:
                at, off = self.angle_sum(node.left)
                return at, off + sign * m
            m = pi_multiple(node.left)
            if m is not None and sign == 1:
                at, off = self.angle_sum(node.right)
                return at, off + m
            raise TemplateMismatch("azimuth: unexpected sum " + ast.unparse(node)[:70])
        if isinstance(node, ast.Call) and dotted(node.func) in ("np.arctan2", "numpy.arctan2", "math.atan2") and len(node.args) == 2:
            a, b = self.ev(node.args[0]), self.ev(node.args[1])
            expect(a[0] == "idx" and b[0] == "idx" and a[1] == b[1], "arctan2 arguments are not components of one ray")
            return ("atan2", a[2], b[2], a[1]), Fraction(0)
        raise TemplateMismatch("azimuth: unexpected term " + ast.unparse(node)[:70])


def window(sym, cmp):
    """not (-viewAngles[i]/2 <= name <= viewAngles[i]/2)   ->  (i, value term)"""
    expect(isinstance(cmp, ast.UnaryOp) and isinstance(cmp.op, ast.Not), "window test is not negated")
    c = cmp.operand
    expect(isinstance(c, ast.Compare) and len(c.ops) == 2 and all(cmp_dir(o) == 1 for o in c.ops),
           "window test is not a chained  lo <= x <= hi")
    lo, mid, hi = sym.ev(c.left), sym.ev(c.comparators[0]), sym.ev(c.comparators[1])
    expect(hi[0] == "half" and lo == ("neg", hi), "window bounds are not -viewAngles[i]/2 .. viewAngles[i]/2")
    return hi[1], mid


def is_orientation_guard(test):
    return (isinstance(test, ast.Compare) and is_name(test.left, "orientation") and len(test.ops) == 1
            and isinstance(test.ops[0], ast.IsNot) and isinstance(test.comparators[0], ast.Constant)
            and test.comparators[0].value is None)


def extract_point_branch(fn):
    main = [s for s in fn.body if isinstance(s, ast.If) and isinstance(s.test, ast.Call) and is_name(s.test.func, "isinstance")]
    expect(len(main) == 1 and len(main[0].orelse) == 1 and isinstance(main[0].orelse[0], ast.If),
           "canSee: the isinstance dispatch changed")
    obj_if, pt_if = main[0], main[0].orelse[0]
    sym = Sym({"position": ("P",), "visibleDistance": ("D",)})
    cfg = {}
    seen_window = False
    seen_return_true = False
    for st in pt_if.body:
        if isinstance(st, ast.Assign) and len(st.targets) == 1 and isinstance(st.targets[0], ast.Name):
            sym.env[st.targets[0].id] = sym.ev(st.value)
        elif isinstance(st, ast.If) and is_name(st.test, "debug"):
            continue
        elif isinstance(st, ast.If) and is_orientation_guard(st.test):
            expect(not st.orelse and len(st.body) == 1 and isinstance(st.body[0], ast.Assign)
                   and isinstance(st.body[0].targets[0], ast.Name), "orientation guard body")
            sym.env[st.body[0].targets[0].id] = sym.ev(st.body[0].value)
        elif isinstance(st, ast.If) and isinstance(st.test, ast.Compare) and len(st.test.ops) == 1 and returns_const(st.body, False) and not st.orelse:
            l, r = sym.ev(st.test.left), sym.ev(st.test.comparators[0])
            d = cmp_dir(st.test.ops[0])
            expect(d is not None, "distance test operator")
            if r[0] == "dist":
                l, r, d = r, l, -d
            expect(l in (("dist", ("P",), ("T",)), ("dist", ("T",), ("P",))) and r == ("D",), "distance test operands")
            cfg["distRejectBeyond"] = d == -1
            cfg["_dist_name_term"] = l
        elif isinstance(st, ast.If) and isinstance(st.test, ast.BoolOp) and isinstance(st.test.op, ast.Or) and returns_const(st.body, False):
            expect(len(st.test.values) == 2 and not st.orelse, "window test shape")
            ws = [window(sym, v) for v in st.test.values]
            az = [w for w in ws if w[1][0] == "angle"]
            al = [w for w in ws if w[1][0] == "asin"]
            expect(len(az) == 1 and len(al) == 1, "window test: need one azimuth and one altitude window")
            (azi, azt), (ali, alt) = az[0], al[0]
            cfg.update(azAngleIdx=azi, altAngleIdx=ali, azNum=azt[1], azDen=azt[2], azQuarter=azt[3], altComp=alt[1])
            ray = azt[4]
            expect(ray == alt[2], "azimuth and altitude are taken from different rays")
            expect(ray[0] == "unit", "candidate ray is not normalised")
            v = ray[1]
            if v == ("rinv", ("sub", ("T",), ("P",))):
                cfg["translateFirst"] = True
            elif v == ("sub", ("rinv", ("T",)), ("P",)):
                cfg["translateFirst"] = False
            else:
                raise TemplateMismatch(f"candidate ray is neither R^-1(t-p) nor R^-1 t - p: {v}")
            cfg["_ray"] = ray
            seen_window = True
        elif isinstance(st, ast.For):
            expect(seen_window, "occluder loop before the window test")
            expect(is_name(st.iter, "occludingObjects"), "occluder loop does not iterate occludingObjects")
            # ray_directions=<name>
            dirs = [kw.value for n in ast.walk(st) if isinstance(n, ast.Call) and isinstance(n.func, ast.Attribute)
                    and n.func.attr == "intersects_location" for kw in n.keywords if kw.arg == "ray_directions"]
            expect(len(dirs) == 1, "occluder loop: intersects_location(ray_directions=...)")
            dt = sym.ev(dirs[0])
            if dt == ("rot", ("list", cfg["_ray"])):
                cfg["rayRotatedBack"] = True
            elif dt == ("list", cfg["_ray"]):
                cfg["rayRotatedBack"] = False
            else:
                raise TemplateMismatch(f"occluder rays are not the candidate ray: {dt}")
            origins = [kw.value for n in ast.walk(st) if isinstance(n, ast.Call) and isinstance(n.func, ast.Attribute)
                       and n.func.attr == "intersects_location" for kw in n.keywords if kw.arg == "ray_origins"]
            expect(len(origins) == 1 and "position.coordinates" in ast.unparse(origins[0]), "occluder rays do not start at position")
            # the blocking comparison
            tests = [n for n in ast.walk(st) if isinstance(n, ast.If) and returns_const(n.body, False)]
            expect(len(tests) == 1 and isinstance(tests[0].test, ast.Compare) and len(tests[0].test.ops) == 1,
                   "occluder loop: blocking test")
            t = tests[0].test
            d = cmp_dir(t.ops[0])
            expect(d is not None, "blocking test operator")
            names = {n.id for n in ast.walk(t) if isinstance(n, ast.Name)}
            dist_names = {k for k, v in sym.env.items() if v == cfg["_dist_name_term"]}
            if isinstance(t.comparators[0], ast.Name) and t.comparators[0].id in dist_names:
                cfg["occBlockIfCloser"] = d == 1
            elif isinstance(t.left, ast.Name) and t.left.id in dist_names:
                cfg["occBlockIfCloser"] = d == -1
            else:
                raise TemplateMismatch("blocking test does not compare with the target distance")
            # occ_distance = position.distanceTo(Vector(*hit location))
            occ_name = t.left.id if isinstance(t.comparators[0], ast.Name) and t.comparators[0].id in dist_names else t.comparators[0].id
            asg = [n for n in ast.walk(st) if isinstance(n, ast.Assign) and is_name(n.targets[0], occ_name)]
            expect(len(asg) == 1 and isinstance(asg[0].value, ast.Call) and dotted(asg[0].value.func) == "position.distanceTo",
                   "occluder hit distance is not measured from position")
        elif isinstance(st, ast.Return):
            expect(isinstance(st.value, ast.Constant) and st.value.value is True, "final return of the point branch")
            seen_return_true = True
        else:
            raise TemplateMismatch(f"point branch: unexpected statement at line {st.lineno}")
    need = {"translateFirst", "rayRotatedBack", "distRejectBeyond", "azNum", "azDen", "azQuarter", "altComp",
            "azAngleIdx", "altAngleIdx", "occBlockIfCloser"}
    expect(need <= set(cfg) and seen_return_true, f"point branch: missing {sorted(need - set(cfg))}")
    # the occluder filter at the top of canSee
    filt = [s for s in fn.body if isinstance(s, ast.Assign) and is_name(s.targets[0], "occludingObjects")]
    expect(len(filt) == 1, "canSee: occluder filter")
    v = filt[0].value
    if isinstance(v, ast.Call) and is_name(v.func, "list") or isinstance(v, ast.Call) and is_name(v.func, "tuple"):
        v = v.args[0]
        expect(isinstance(v, (ast.ListComp, ast.GeneratorExp)), "occluder filter")
    else:
        expect(isinstance(v, ast.ListComp), "occluder filter is not materialised (list comprehension)")
    expect(len(v.generators) == 1 and is_name(v.generators[0].iter, "occludingObjects") and len(v.generators[0].ifs) == 1
           and isinstance(v.elt, ast.Name) and is_name(v.generators[0].target, v.elt.id), "occluder filter shape")
    c = v.generators[0].ifs[0]
    expect(isinstance(c, ast.Compare) and len(c.ops) == 1 and cmp_dir(c.ops[0]) is not None
           and isinstance(c.left, ast.Call) and dotted(c.left.func) == "position.distanceTo"
           and is_name(c.left.args[0], v.elt.id) and is_name(c.comparators[0], "visibleDistance"), "occluder filter test")
    cfg["occFilterWithin"] = cmp_dir(c.ops[0]) == 1
    return {k: v for k, v in cfg.items() if not k.startswith("_")}, obj_if


# ----------------------------------------------------------------------------- object branch (flags)
def find_all(node, pred):
    """matching nodes in source order"""
    return sorted((n for n in ast.walk(node) if pred(n)), key=lambda n: (getattr(n, "lineno", 0), getattr(n, "col_offset", 0)))


def extract_object_branch(obj_if_full):
    # only the body of the `isinstance(target, (Region, Object))` branch (its orelse is the point branch)
    obj_if = ast.Module(body=obj_if_full.body, type_ignores=[])
    src = ast.unparse(obj_if)
    flags = {}
    # centre shortcut:  if target.shape.containsCenter and canSee(<same viewer args>, target.position, occludingObjects): return True
    sc = find_all(obj_if, lambda n: isinstance(n, ast.If) and isinstance(n.test, ast.BoolOp) and isinstance(n.test.op, ast.And)
                  and any(dotted(v) == "target.shape.containsCenter" for v in n.test.values))
    expect(len(sc) == 1 and returns_const(sc[0].body, True) and len(sc[0].test.values) == 2, "centre shortcut")
    call = [v for v in sc[0].test.values if isinstance(v, ast.Call)]
    expect(len(call) == 1 and is_name(call[0].func, "canSee") and not call[0].keywords, "centre shortcut call")
    args = [ast.unparse(a) for a in call[0].args]
    expect(args == ["position", "orientation", "visibleDistance", "viewAngles", "rayCount", "rayDensity", "distanceScaling",
                    "target.position", "occludingObjects"], "centre shortcut arguments")
    flags["centreShortcut"] = True
    # distance rejection: if target.distanceTo(position) > visibleDistance: return False
    dr = find_all(obj_if, lambda n: isinstance(n, ast.If) and isinstance(n.test, ast.Compare) and isinstance(n.test.left, ast.Call)
                  and dotted(n.test.left.func) == "target.distanceTo" and returns_const(n.body, False))
    expect(len(dr) == 1 and len(dr[0].test.ops) == 1 and is_name(dr[0].test.left.args[0], "position")
           and is_name(dr[0].test.comparators[0], "visibleDistance") and cmp_dir(dr[0].test.ops[0]) is not None, "object distance test")
    flags["distRejectBeyond"] = cmp_dir(dr[0].test.ops[0]) == -1
    # vertices translated before being rotated
    tv = find_all(obj_if, lambda n: isinstance(n, ast.Assign) and is_name(n.targets[0], "target_vertices"))
    expect(len(tv) >= 2, "target_vertices assignments")
    first, second = ast.unparse(tv[0].value), ast.unparse(tv[1].value)
    if first == "target_region.mesh.vertices - np.array(position.coordinates)" and second == "orientation._inverseRotation.apply(target_vertices)":
        flags["translateFirst"] = True
    elif first == "orientation._inverseRotation.apply(target_region.mesh.vertices)" and "position" in second:
        flags["translateFirst"] = False
    else:
        raise TemplateMismatch("object branch: target_vertices are not (vertices - position) then R^-1")
    # ray directions: (-sin az, cos az, tan alt), rotated back by orientation.getRotation()
    rv = {}
    for n in find_all(obj_if, lambda n: isinstance(n, ast.Assign) and isinstance(n.targets[0], ast.Subscript)
                      and is_name(n.targets[0].value, "ray_vectors")):
        sl = n.targets[0].slice
        if isinstance(sl, ast.Tuple) and len(sl.elts) == 2 and isinstance(sl.elts[1], ast.Constant):
            rv[sl.elts[1].value] = ast.unparse(n.value)
    expect(rv == {0: "-np.sin(angle_matrix[:, 0])", 1: "np.cos(angle_matrix[:, 0])", 2: "np.tan(angle_matrix[:, 1])"},
           f"object branch: ray direction formula changed: {rv}")
    flags["rayFormula"] = True
    rb = find_all(obj_if, lambda n: isinstance(n, ast.If) and is_orientation_guard(n.test) and not n.orelse
                  and len(n.body) == 1 and isinstance(n.body[0], ast.Assign) and is_name(n.body[0].targets[0], "ray_vectors")
                  and ast.unparse(n.body[0].value) == "orientation.getRotation().apply(ray_vectors)")
    anyrot = find_all(obj_if, lambda n: isinstance(n, ast.Assign) and is_name(n.targets[0], "ray_vectors")
                      and "getRotation" in ast.unparse(n.value))
    expect(len(anyrot) <= 1 and (len(rb) == 1 or len(anyrot) <= 1), "object branch: ray rotation")
    if len(anyrot) == 1 and len(rb) == 0:
        # the rotation is there but not under the plain `if orientation is not None:` guard
        guards = find_all(obj_if, lambda n: isinstance(n, ast.If) and anyrot[0] in n.body)
        expect(len(guards) == 1 and not is_orientation_guard(guards[0].test), "object branch: ray rotation guard")
        raise TemplateMismatch("object branch: ray rotation is guarded by an unexpected condition: " + ast.unparse(guards[0].test))
    flags["rayRotatedBack"] = len(rb) == 1
    # hits farther than visibleDistance are ignored
    hd = find_all(obj_if, lambda n: isinstance(n, ast.If) and isinstance(n.test, ast.Compare) and len(n.test.ops) == 1
                  and is_name(n.test.left, "hit_dist") and is_name(n.test.comparators[0], "visibleDistance")
                  and len(n.body) == 1 and isinstance(n.body[0], ast.Continue))
    expect(len(hd) == 1 and cmp_dir(hd[0].test.ops[0]) is not None, "object branch: hit distance test")
    flags["hitRejectBeyond"] = cmp_dir(hd[0].test.ops[0]) == -1
    # occlusion: if hit_dist <= target_dist_map[hit_ray]: occluded_rays.add(hit_ray)
    oc = find_all(obj_if, lambda n: isinstance(n, ast.If) and isinstance(n.test, ast.Compare) and len(n.test.ops) == 1
                  and is_name(n.test.left, "hit_dist") and ast.unparse(n.test.comparators[0]) == "target_dist_map[hit_ray]")
    expect(len(oc) == 1 and cmp_dir(oc[0].test.ops[0]) is not None and ast.unparse(oc[0].body[0]) == "occluded_rays.add(hit_ray)",
           "object branch: occlusion test")
    flags["occBlockIfCloser"] = cmp_dir(oc[0].test.ops[0]) == 1
    # closest target hit is kept
    expect("if hit_ray not in target_dist_map or hit_dist < target_dist_map[hit_ray]:" in src, "object branch: closest hit kept")
    flags["closestHit"] = True
    expect("candidate_rays = candidate_rays - occluded_rays" in src, "object branch: occluded rays removed")
    # visible when a candidate ray survives
    sv = find_all(obj_if, lambda n: isinstance(n, ast.If) and ast.unparse(n.test) in ("len(candidate_rays) > 0", "candidate_rays")
                  and returns_const(n.body, True))
    expect(len(sv) == 1, "object branch: survivor test")
    flags["survivorVisible"] = True
    # the occluder loops iterate the filtered list
    loops = find_all(obj_if, lambda n: isinstance(n, ast.For) and is_name(n.iter, "occludingObjects") and is_name(n.target, "occ_obj"))
    expect(len(loops) == 1, "object branch: occluder loop")
    expect("occ_obj.occupiedSpace.mesh.ray.intersects_location(ray_origins=np.full(candidate_ray_list.shape, position.coordinates), ray_directions=candidate_ray_list)"
           in ast.unparse(loops[0]), "object branch: occluder ray cast")
    expect("target_region.mesh.ray.intersects_location(ray_origins=np.full(ray_batch.shape, position.coordinates), ray_directions=ray_batch)"
           in src, "object branch: target ray cast")
    # last statement of the branch
    last = obj_if.body[-1]
    expect(isinstance(last, ast.Return) and isinstance(last.value, ast.Constant) and last.value.value is False,
           "object branch: final return False")
    return flags


# ----------------------------------------------------------------------------- wrappers
def kwargs_of_cansee(fn, callee="canSee"):
    calls = find_all(fn, lambda n: isinstance(n, ast.Return) and isinstance(n.value, ast.Call) and is_name(n.value.func, callee))
    expect(len(calls) == 1 and not calls[0].value.args, f"{fn.name}: single `return {callee}(keywords...)`")
    return {kw.arg: kw.value for kw in calls[0].value.keywords}


def local_assigns(fn):
    out = {}
    for st in body_nodoc(fn):
        if isinstance(st, ast.Assign) and len(st.targets) == 1 and isinstance(st.targets[0], ast.Name):
            out[st.targets[0].id] = st.value
    return out


def resolve(node, env):
    return env.get(node.id, node) if isinstance(node, ast.Name) else node


CAM_LOCAL = "self.position.offsetLocally(self.orientation, self.cameraOffset)"


def extract_wrappers():
    _, tree = load(OBJ)
    w = {}
    # Object.canSee / visibleRegion
    fn = get_def(tree, "Object.canSee", OBJ)
    kw, env = kwargs_of_cansee(fn), local_assigns(fn)
    pos = ast.unparse(resolve(kw.get("position", ast.Constant(None)), env))
    if pos == CAM_LOCAL:
        w["objCamOffsetLocal"] = True
    elif pos in ("self.position + self.cameraOffset", "self.position"):
        w["objCamOffsetLocal"] = False
    else:
        raise TemplateMismatch(f"Object.canSee: camera position is {pos}")
    common = {"target": "other", "occludingObjects": "occludingObjects", "rayCount": "self.viewRayCount",
              "rayDensity": "self.viewRayDensity", "distanceScaling": "self.viewRayDistanceScaling"}
    for k, v in common.items():
        expect(k in kw and ast.unparse(kw[k]) == v, f"Object.canSee: {k} is not {v}")
    obj_orient = ast.unparse(kw["orientation"]) == "self.orientation" and ast.unparse(kw["viewAngles"]) == "self.viewAngles"
    obj_dist = ast.unparse(kw["visibleDistance"]) == "self.visibleDistance"
    fn = get_def(tree, "Object.visibleRegion", OBJ)
    kwr, envr = kwargs_of_cansee(fn, "ViewRegion"), local_assigns(fn)
    w["objRegionSameCam"] = (ast.unparse(resolve(kwr["position"], envr)) == pos == CAM_LOCAL
                             and ast.unparse(kwr["rotation"]) == "self.orientation"
                             and ast.unparse(kwr["viewAngles"]) == "self.viewAngles"
                             and ast.unparse(kwr["visibleDistance"]) == "self.visibleDistance")
    # OrientedPoint
    fn = get_def(tree, "OrientedPoint.canSee", OBJ)
    kw2 = kwargs_of_cansee(fn)
    for k, v in common.items():
        expect(k in kw2 and ast.unparse(kw2[k]) == v, f"OrientedPoint.canSee: {k} is not {v}")
    op_orient = ast.unparse(kw2["orientation"]) == "self.orientation" and ast.unparse(kw2["viewAngles"]) == "self.viewAngles"
    fn = get_def(tree, "OrientedPoint.visibleRegion", OBJ)
    kwr2 = kwargs_of_cansee(fn, "ViewRegion")
    w["orientedPassOrientation"] = obj_orient and op_orient and ast.unparse(kwr2["rotation"]) == "self.orientation" \
        and ast.unparse(kwr2["viewAngles"]) == "self.viewAngles"
    w["orientedCamIsPosition"] = ast.unparse(kw2["position"]) == "self.position" and ast.unparse(kwr2["position"]) == "self.position"
    # Point
    fn = get_def(tree, "Point.canSee", OBJ)
    kw3 = kwargs_of_cansee(fn)
    for k, v in common.items():
        expect(k in kw3 and ast.unparse(kw3[k]) == v, f"Point.canSee: {k} is not {v}")
    va = kw3["viewAngles"]
    w["pointFullSphere"] = (isinstance(kw3["orientation"], ast.Constant) and kw3["orientation"].value is None
                            and isinstance(va, ast.Tuple) and len(va.elts) == 2 and pi_multiple(va.elts[0]) == 2
                            and pi_multiple(va.elts[1]) == 1 and ast.unparse(kw3["position"]) == "self.position")
    w["passVisibleDistance"] = obj_dist and ast.unparse(kw2["visibleDistance"]) == "self.visibleDistance" \
        and ast.unparse(kw3["visibleDistance"]) == "self.visibleDistance" and ast.unparse(kwr2["visibleDistance"]) == "self.visibleDistance"
    # Vector.offsetLocally = position + R . offset
    _, vt = load(VEC)
    ol = get_def(vt, "Vector.offsetLocally", VEC)
    body = [ast.unparse(s) for s in body_nodoc(ol)]
    expect(body == ["r = orientation.getRotation()", "ro = r.apply(offset)", "x, y, z = self", "ox, oy, oz = ro",
                    "return Vector(x + ox, y + oy, z + oz)"], "Vector.offsetLocally changed")
    inv = get_def(vt, "Orientation._inverseRotation", VEC)
    expect([ast.unparse(s) for s in body_nodoc(inv)] == ["return self.r.inv()"], "Orientation._inverseRotation changed")
    gr = get_def(vt, "Orientation.getRotation", VEC)
    expect([ast.unparse(s) for s in body_nodoc(gr)] == ["return self.r"], "Orientation.getRotation changed")
    # operator plumbing
    _, ven = load(VEN)
    cs = get_def(ven, "CanSee", VEN)
    helper = [n for n in ast.walk(cs) if isinstance(n, ast.FunctionDef) and n.name == "canSeeHelper"]
    expect(len(helper) == 1, "CanSee.canSeeHelper")
    asg = [n for n in ast.walk(helper[0]) if isinstance(n, ast.Assign) and is_name(n.targets[0], "occludingObjects")]
    ret = [n for n in ast.walk(helper[0]) if isinstance(n, ast.Return)]
    expect(len(asg) == 1 and len(ret) == 1 and ast.unparse(ret[0].value) == "X.canSee(Y, occludingObjects=occludingObjects)",
           "CanSee: return X.canSee(Y, occludingObjects=occludingObjects)")
    w["opOccludersFiltered"] = materialised_filter(asg[0].value, "objects", {"obj.occluding", "X is not obj", "Y is not obj"},
                                                   {"obj is not X": "X is not obj", "obj is not Y": "Y is not obj"})
    # requirement plumbing
    _, req = load(REQ)
    init = get_def(req, "VisibilityRequirement.__init__", REQ)
    a1 = [n for n in ast.walk(init) if isinstance(n, ast.Assign) and ast.unparse(n.targets[0]) == "self.potential_occluders"]
    expect(len(a1) == 1, "VisibilityRequirement.__init__: potential_occluders")
    ok1 = materialised_filter(a1[0].value, "objects", {"obj is not self.source", "obj is not self.target"}, {})
    fb = get_def(req, "VisibilityRequirement.falsifiedByInner", REQ)
    env = local_assigns(fb)
    rets = [n for n in body_nodoc(fb) if isinstance(n, ast.Return)]
    expect(len(rets) == 1 and set(env) == {"source", "target", "potential_occluders", "occluders"},
           "VisibilityRequirement.falsifiedByInner changed")
    expect(ast.unparse(env["source"]) == "sample[self.source]" and ast.unparse(env["target"]) == "sample[self.target]",
           "VisibilityRequirement.falsifiedByInner: source/target")
    expect(ast.unparse(rets[0].value) == "not source.canSee(target, occludingObjects=occluders)",
           "VisibilityRequirement.falsifiedByInner: return")
    po = env["potential_occluders"]
    ok_po = (isinstance(po, ast.Call) and dotted(po.func) in ("tuple", "list") and len(po.args) == 1
             and ast.unparse(po.args[0]) in ("(sample[obj] for obj in self.potential_occluders)",
                                             "[sample[obj] for obj in self.potential_occluders]")) \
        or ast.unparse(po) == "[sample[obj] for obj in self.potential_occluders]"
    ok2 = ok_po and materialised_filter(env["occluders"], "potential_occluders", {"obj.occluding"}, {})
    nv = get_def(req, "NonVisibilityRequirement.falsifiedByInner", REQ)
    ok3 = [ast.unparse(s) for s in body_nodoc(nv)] == ["return not super().falsifiedByInner(sample)"]
    w["reqOccludersFiltered"] = bool(ok1 and ok2 and ok3)
    # Point.visibleRegion = SpheroidRegion(position=self.position, dimensions=(k*D, k*D, k*D))
    fn = get_def(tree, "Point.visibleRegion", OBJ)
    kwp, envp = kwargs_of_cansee(fn, "SpheroidRegion"), local_assigns(fn)
    expect(set(kwp) == {"position", "dimensions"} and ast.unparse(resolve(kwp["position"], envp)) == "self.position",
           "Point.visibleRegion: SpheroidRegion(position=self.position, dimensions=...)")
    w["pointRegionDiamFactor"] = cube_factor(kwp["dimensions"], envp, "self.visibleDistance", "Point.visibleRegion")
    # ViewRegion: base sphere of diameter k*visibleDistance; every form is the sphere or an intersection with it
    _, reg = load(REG)
    vr = get_def(reg, "ViewRegion.__init__", REG)
    envv = {}
    for n in ast.walk(vr):
        if isinstance(n, ast.Assign) and len(n.targets) == 1 and isinstance(n.targets[0], ast.Name) \
                and n.targets[0].id not in ("view_region", "viewAngles"):
            expect(n.targets[0].id not in envv, f"ViewRegion.__init__: {n.targets[0].id} assigned twice")
            envv[n.targets[0].id] = n.value
    expect("base_sphere" in envv and isinstance(envv["base_sphere"], ast.Call) and is_name(envv["base_sphere"].func, "SpheroidRegion")
           and not envv["base_sphere"].args and [k.arg for k in envv["base_sphere"].keywords] == ["dimensions"],
           "ViewRegion.__init__: base_sphere = SpheroidRegion(dimensions=...)")
    w["viewRegionDiamFactor"] = cube_factor(envv["base_sphere"].keywords[0].value, envv, "visibleDistance", "ViewRegion.__init__")
    forms = [n.value for n in ast.walk(vr) if isinstance(n, ast.Assign) and is_name(n.targets[0], "view_region")]
    ok_forms = len(forms) >= 2 and all(
        (isinstance(v, ast.Constant) and v.value is None) or is_name(v, "base_sphere")
        or (isinstance(v, ast.Call) and dotted(v.func) == "base_sphere.intersect" and len(v.args) == 1 and not v.keywords)
        for v in forms)
    sup = [n for n in ast.walk(vr) if isinstance(n, ast.Call) and ast.unparse(n.func) == "super().__init__"]
    expect(len(sup) == 1, "ViewRegion.__init__: super().__init__")
    skw = {k.arg: ast.unparse(k.value) for k in sup[0].keywords}
    w["viewRegionWithinSphere"] = bool(ok_forms and skw.get("mesh") == "view_region.mesh" and skw.get("position") == "position"
                                       and skw.get("rotation") == "rotation" and skw.get("centerMesh") == "False")
    return w


def scale_factor(node, env, base, where, depth=0):
    """k such that node denotes k * <base> (names are followed through the local assignments)"""
    expect(depth < 8, f"{where}: cyclic local definitions")
    if isinstance(node, ast.Name) and node.id in env:
        return scale_factor(env[node.id], env, base, where, depth + 1)
    if ast.unparse(node) == base:
        return Fraction(1)
    if isinstance(node, ast.BinOp) and isinstance(node.op, ast.Mult):
        for a, b in ((node.left, node.right), (node.right, node.left)):
            if isinstance(a, ast.Constant) and isinstance(a.value, (int, float)) and not isinstance(a.value, bool):
                return Fraction(a.value) * scale_factor(b, env, base, where, depth + 1)
    if isinstance(node, ast.BinOp) and isinstance(node.op, ast.Div) and isinstance(node.right, ast.Constant) \
            and isinstance(node.right.value, (int, float)) and node.right.value:
        return scale_factor(node.left, env, base, where, depth + 1) / Fraction(node.right.value)
    if isinstance(node, ast.BinOp) and isinstance(node.op, ast.Add):
        return scale_factor(node.left, env, base, where, depth + 1) + scale_factor(node.right, env, base, where, depth + 1)
    raise TemplateMismatch(f"{where}: {ast.unparse(node)[:60]} is not a multiple of {base}")


def cube_factor(node, env, base, where):
    """(k*base, k*base, k*base) -> k (a natural number)"""
    node = resolve(node, env)
    expect(isinstance(node, ast.Tuple) and len(node.elts) == 3, f"{where}: dimensions is not a 3-tuple")
    ks = {scale_factor(e, env, base, where) for e in node.elts}
    expect(len(ks) == 1, f"{where}: the three dimensions differ")
    k = ks.pop()
    expect(k.denominator == 1 and k >= 0, f"{where}: diameter factor {k} is not a natural number")
    return int(k)


# ----------------------------------------------------------------------------- 2D compatibility mode
def stmts(fn):
    return [ast.unparse(s) for s in body_nodoc(fn)]


def extract_2d():
    c = {}
    _, tree = load(OBJ)
    cs = get_def(tree, "Point2D.canSee", OBJ)
    expect([a.arg for a in cs.args.args] == ["self", "other", "occludingObjects"], "Point2D.canSee signature")
    body = body_nodoc(cs)
    c["fastPathWithoutOccluders"] = (
        len(body) == 2 and isinstance(body[0], ast.If) and not body[0].orelse
        and ast.unparse(body[0].test) == "not occludingObjects"
        and [ast.unparse(x) for x in body[0].body] == ["return self._canSee2D(other)"]
        and ast.unparse(body[1]) in ("return self._3DClass.canSee(self, other, occludingObjects)",
                                     "return self._3DClass.canSee(self, other, occludingObjects=occludingObjects)"))
    expect(c["fastPathWithoutOccluders"], "Point2D.canSee: fast path shape changed")
    for cls, k3 in (("Point2D", "Point"), ("OrientedPoint2D", "OrientedPoint"), ("Object2D", "Object")):
        cd = get_def(tree, cls, OBJ)
        a = [n for n in cd.body if isinstance(n, ast.Assign) and is_name(n.targets[0], "_3DClass")]
        expect(len(a) == 1 and is_name(a[0].value, k3), f"{cls}._3DClass is not {k3}")
    c2 = get_def(tree, "Point2D._canSee2D", OBJ)
    body = body_nodoc(c2)
    expect(len(body) == 1 and isinstance(body[0], ast.If), "_canSee2D: dispatch")
    branches, node = [], body[0]
    while isinstance(node, ast.If):
        branches.append((ast.unparse(node.test), [ast.unparse(x) for x in node.body]))
        node = node.orelse[0] if len(node.orelse) == 1 and isinstance(node.orelse[0], ast.If) else None
    pt = [b for t, b in branches if t in ("isinstance(other, (Vector, Point2D))", "isinstance(other, (Point2D, Vector))")]
    expect(len(pt) == 1 and len(branches) == 2 and branches[0][0] == "isinstance(other, Object2D)", "_canSee2D: branches")
    c["pointViaRegion"] = pt[0] == ["return self.visibleRegion.containsPoint(toVector(other))"]
    expect(branches[0][1] == ["return self.visibleRegion.polygons.intersects(other._boundingPolygon)"], "_canSee2D: object branch")
    c["discArgs"] = stmts(get_def(tree, "Point2D.visibleRegion", OBJ)) == ["return CircularRegion(self.position, self.visibleDistance)"]
    sec = "SectorRegion({}, self.visibleDistance, self.heading, self.viewAngle)"
    c["sectorArgs"] = stmts(get_def(tree, "OrientedPoint2D.visibleRegion", OBJ)) == ["return " + sec.format("self.position")]
    fn = get_def(tree, "Object2D.visibleRegion", OBJ)
    env = local_assigns(fn)
    rets = [n for n in body_nodoc(fn) if isinstance(n, ast.Return)]
    expect(len(rets) == 1 and isinstance(rets[0].value, ast.Call) and is_name(rets[0].value.func, "SectorRegion")
           and len(rets[0].value.args) == 4 and not rets[0].value.keywords, "Object2D.visibleRegion: return SectorRegion(4 args)")
    args = [ast.unparse(resolve(a, env)) for a in rets[0].value.args]
    expect(args[1:] == ["self.visibleDistance", "self.heading", "self.viewAngle"], "Object2D.visibleRegion: sector arguments")
    if args[0] == "self.position.offsetRotated(self.heading, self.cameraOffset)":
        c["objCamOffsetRotated"] = True
    elif args[0] == "self.position":
        c["objCamOffsetRotated"] = False
    else:
        raise TemplateMismatch(f"Object2D.visibleRegion: camera is {args[0]}")
    # Vector.rotatedBy / offsetRotated
    _, vt = load(VEC)
    rb = get_def(vt, "Vector.rotatedBy", VEC)
    body = stmts(rb)
    expect(len(body) == 4 and body[0].startswith("if isinstance(angleOrOrientation, Orientation):")
           and body[1] == "x, y, z = (self.x, self.y, self.z)" and body[2] == "c, s = (cos(angleOrOrientation), sin(angleOrOrientation))",
           "Vector.rotatedBy changed")
    if body[3] == "return Vector(c * x - s * y, s * x + c * y, z)":
        c["rotatedByCCW"] = True
    elif body[3] == "return Vector(c * x + s * y, -s * x + c * y, z)" or body[3] == "return Vector(c * x + s * y, c * y - s * x, z)":
        c["rotatedByCCW"] = False
    else:
        raise TemplateMismatch("Vector.rotatedBy: rotation formula changed: " + body[3])
    expect(stmts(get_def(vt, "Vector.offsetRotated", VEC)) == ["ro = offset.rotatedBy(angleOrOrientation)", "return self + ro"],
           "Vector.offsetRotated changed")
    # SectorRegion / CircularRegion .containsPoint
    _, reg = load(REG)
    planar, within = [], []
    for cls, cone in (("SectorRegion", True), ("CircularRegion", False)):
        init = get_def(reg, cls + ".__init__", REG)
        sup = [n for n in ast.walk(init) if isinstance(n, ast.Call) and ast.unparse(n.func) == "super().__init__"]
        expect(len(sup) == 1 and {k.arg: ast.unparse(k.value) for k in sup[0].keywords}.get("z") == "self.center.z",
               f"{cls}.__init__: z=self.center.z")
        cp = body_nodoc(get_def(reg, cls + ".containsPoint", REG))
        expect(len(cp) == (4 if cone else 3) and ast.unparse(cp[0]) == "point = toVector(point)", f"{cls}.containsPoint shape")
        z = cp[1]
        expect(isinstance(z, ast.If) and not z.orelse and returns_const(z.body, False), f"{cls}.containsPoint: planarity test")
        planar.append(ast.unparse(z.test) in ("point.z != self.z", "self.z != point.z"))
        if cone:
            expect(ast.unparse(cp[2]) == "if not pointIsInCone(tuple(point), tuple(self.center), self.heading, self.angle):\n    return False",
                   "SectorRegion.containsPoint: cone test")
        r = cp[-1]
        expect(isinstance(r, ast.Return) and isinstance(r.value, ast.Compare) and len(r.value.ops) == 1
               and cmp_dir(r.value.ops[0]) is not None, f"{cls}.containsPoint: distance test")
        l, rr, d = ast.unparse(r.value.left), ast.unparse(r.value.comparators[0]), cmp_dir(r.value.ops[0])
        if l == "self.radius":
            l, rr, d = rr, l, -d
        expect(l in ("point.distanceTo(self.center)", "self.center.distanceTo(point)") and rr == "self.radius",
               f"{cls}.containsPoint: distance test operands")
        within.append(d == 1)
    expect(len(set(planar)) == 1 and len(set(within)) == 1, "sector and disc membership tests differ")
    c["planarOnly"], c["distWithin"] = planar[0], within[0]
    # geometry.pointIsInCone / viewAngleToPoint
    _, geo = load(GEO)
    pic = get_def(geo, "pointIsInCone", GEO)
    expect([a.arg for a in pic.args.args] == ["point", "base", "heading", "angle"], "pointIsInCone signature")
    body = stmts(pic)
    expect(len(body) == 2 and body[0] == "va = viewAngleToPoint(point, base, heading)", "pointIsInCone changed")
    if body[1] in ("return abs(va) <= angle / 2.0", "return abs(va) <= angle / 2"):
        c["coneHalfAngle"] = True
    else:
        raise TemplateMismatch("pointIsInCone: comparison changed: " + body[1])
    va = get_def(geo, "viewAngleToPoint", GEO)
    expect([a.arg for a in va.args.args] == ["point", "base", "heading"], "viewAngleToPoint signature")
    env = {}
    ret = None
    for st in body_nodoc(va):
        if isinstance(st, ast.Assign) and isinstance(st.targets[0], ast.Tuple) and isinstance(st.value, ast.Name) \
                and st.value.id in ("point", "base"):
            for i, e in enumerate(st.targets[0].elts):
                expect(isinstance(e, ast.Name), "viewAngleToPoint: unpacking")
                env[e.id] = (st.value.id, i)
        elif isinstance(st, ast.Assign) and isinstance(st.targets[0], ast.Name):
            env[st.targets[0].id] = st.value
        elif isinstance(st, ast.Return):
            ret = st.value
        else:
            raise TemplateMismatch("viewAngleToPoint: unexpected statement")
    expect(isinstance(ret, ast.Call) and is_name(ret.func, "normalizeAngle") and len(ret.args) == 1, "viewAngleToPoint: return normalizeAngle(..)")
    e = ret.args[0]
    e = env.get(e.id, e) if isinstance(e, ast.Name) else e
    at, head, quarter = cone_terms(e, 1)
    expect(head == -1, "viewAngleToPoint: the heading is not subtracted exactly once")
    expect((quarter * 2).denominator == 1, "viewAngleToPoint: offset is not a multiple of pi/2")
    c["coneQuarter"] = int(quarter * 2)

    def comp(n):
        expect(isinstance(n, ast.BinOp) and isinstance(n.op, ast.Sub) and isinstance(n.left, ast.Name) and isinstance(n.right, ast.Name)
               and env.get(n.left.id, (None,))[0] == "point" and env.get(n.right.id, (None,))[0] == "base"
               and env[n.left.id][1] == env[n.right.id][1], "viewAngleToPoint: atan2 arguments are not point[i] - base[i]")
        return env[n.left.id][1]
    c["coneNum"], c["coneDen"] = comp(at.args[0]), comp(at.args[1])
    return c


def cone_terms(node, sign):
    """node = atan2(..) + a*heading + q*pi   ->  (atan2 call, a, q)"""
    if isinstance(node, ast.BinOp) and isinstance(node.op, (ast.Add, ast.Sub)):
        a1, h1, q1 = cone_terms(node.left, sign)
        a2, h2, q2 = cone_terms(node.right, sign if isinstance(node.op, ast.Add) else -sign)
        expect(a1 is None or a2 is None, "viewAngleToPoint: two atan2 terms")
        return a1 or a2, h1 + h2, q1 + q2
    m = pi_multiple(node)
    if m is not None:
        return None, 0, sign * m
    if is_name(node, "heading"):
        return None, sign, Fraction(0)
    if isinstance(node, ast.Call) and dotted(node.func) in ("math.atan2", "np.arctan2", "atan2") and len(node.args) == 2:
        expect(sign == 1, "viewAngleToPoint: atan2 is negated")
        return node, 0, Fraction(0)
    raise TemplateMismatch("viewAngleToPoint: unexpected term " + ast.unparse(node)[:60])


def materialised_filter(value, source, conds, alias):
    """tuple(obj for obj in <source> if c1 and c2 ...) or a list comprehension, with exactly the given conditions"""
    if isinstance(value, ast.Call) and dotted(value.func) in ("tuple", "list") and len(value.args) == 1:
        comp = value.args[0]
    elif isinstance(value, ast.ListComp):
        comp = value
    else:
        return False
    if not isinstance(comp, (ast.GeneratorExp, ast.ListComp)) or len(comp.generators) != 1:
        return False
    g = comp.generators[0]
    if not (is_name(g.target, "obj") and is_name(comp.elt, "obj") and ast.unparse(g.iter) == source):
        return False
    got = set()
    for c in g.ifs:
        parts = c.values if isinstance(c, ast.BoolOp) and isinstance(c.op, ast.And) else [c]
        for p in parts:
            s = ast.unparse(p)
            got.add(alias.get(s, s))
    return got == conds


# ----------------------------------------------------------------------------- entry points
def extract():
    _, tree = load(VIS)
    fn = get_def(tree, "canSee", VIS)
    cfg, obj_if = extract_point_branch(fn)
    obj = extract_object_branch(obj_if)
    wrap = extract_wrappers()
    return {"cfg": cfg, "obj": obj, "wrap": wrap, "c2d": extract_2d()}


def lean_bool(b):
    return "true" if b else "false"


def lean_val(v):
    if isinstance(v, bool):
        return lean_bool(v)
    if isinstance(v, int):
        return f"({v})" if v < 0 else str(v)
    raise TemplateMismatch(f"cannot render {v!r}")


CFG_FIELDS = ["translateFirst", "rayRotatedBack", "distRejectBeyond", "azNum", "azDen", "azQuarter", "altComp",
              "azAngleIdx", "altAngleIdx", "occBlockIfCloser", "occFilterWithin"]
OBJ_FIELDS = ["centreShortcut", "distRejectBeyond", "translateFirst", "rayFormula", "rayRotatedBack", "hitRejectBeyond",
              "occBlockIfCloser", "closestHit", "survivorVisible"]
WRAP_FIELDS = ["objCamOffsetLocal", "objRegionSameCam", "orientedPassOrientation", "orientedCamIsPosition", "pointFullSphere",
               "passVisibleDistance", "opOccludersFiltered", "reqOccludersFiltered", "pointRegionDiamFactor",
               "viewRegionDiamFactor", "viewRegionWithinSphere"]
C2D_FIELDS = ["fastPathWithoutOccluders", "pointViaRegion", "discArgs", "sectorArgs", "objCamOffsetRotated", "rotatedByCCW",
              "planarOnly", "distWithin", "coneNum", "coneDen", "coneQuarter", "coneHalfAngle"]


REFERENCE = {
    "cfg": dict(translateFirst=True, rayRotatedBack=True, distRejectBeyond=True, azNum=1, azDen=0, azQuarter=-1, altComp=2,
                azAngleIdx=0, altAngleIdx=1, occBlockIfCloser=True, occFilterWithin=True),
    "obj": {k: True for k in OBJ_FIELDS},
    "wrap": dict({k: True for k in WRAP_FIELDS}, pointRegionDiamFactor=2, viewRegionDiamFactor=2),
    "c2d": dict({k: True for k in C2D_FIELDS}, coneNum=1, coneDen=0, coneQuarter=-1),
}


def to_lean(d):
    def rec(fields, vals):
        return ",\n    ".join(f"{k} := {lean_val(vals[k])}" for k in fields)
    return f"""import ScenicModel.Model.Visibility
namespace Scenic.Gen
open Scenic.Vis

/-- choices of the point branch of `visibility.canSee` (src/scenic/core/visibility.py) -/
def visCfg : Cfg :=
  {{ {rec(CFG_FIELDS, d['cfg'])} }}

/-- shape of the object branch of `visibility.canSee` -/
def visObjCfg : ObjCfg :=
  {{ {rec(OBJ_FIELDS, d['obj'])} }}

/-- choices of `Point/OrientedPoint/Object.canSee`, `visibleRegion`, `CanSee`, `VisibilityRequirement` -/
def visWrapCfg : WrapCfg :=
  {{ {rec(WRAP_FIELDS, d['wrap'])} }}

/-- choices of the 2D compatibility mode (`Point2D.canSee`, the 2D `visibleRegion`s, `SectorRegion.containsPoint`,
    `geometry.pointIsInCone`, `Vector.rotatedBy`) -/
def visCfg2D : Cfg2D :=
  {{ {rec(C2D_FIELDS, d['c2d'])} }}

end Scenic.Gen
"""


if __name__ == "__main__":
    import json
    print(json.dumps(extract(), indent=1))
