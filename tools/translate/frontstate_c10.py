"""veneer.activate / veneer.deactivate / compile-time writers of veneer globals, and the try/finally skeletons of
translator._scenarioFromStream / compileStream  ->  Gen/FrontStateC10.lean  (C10).

Template extraction (Python ast).  The *order* of the statements of activate/deactivate is matched against a fixed
template (it is hard-wired in Model/FrontState.lean); what is extracted is data: which globals are written on
activation (always / with overrides / in 2D mode), which are written by the compile-time API of the veneer without
a local `finally` that restores them, which are reset by deactivate (always / when activity reaches 0), whether every
reset assigns the global's initial value, and the shape of the two try/finally skeletons.
Anything unexpected raises TemplateMismatch (the tie then rests on the correspondence run at thorough budget)."""
import ast
import os

from translate.astutil import TemplateMismatch, expect, get_def, load

VENEER = "src/scenic/syntax/veneer.py"
TRANSLATOR = "src/scenic/syntax/translator.py"

# functions of veneer.py that only run at sampling / simulation time (never while a module is being compiled)
SIM_TIME = {"beginSimulation", "endSimulation", "executeInRequirement", "executeInBehavior", "executeInGuard",
            "startScenario", "endScenario", "_makeTerminationAction", "_makeSimulationTerminationAction"}
CONSTRUCTIBLES = {"Point", "OrientedPoint", "Object"}
MUTATORS = {"append", "update", "add", "pop", "clear", "extend", "remove", "insert", "discard", "setdefault", "popitem"}


def _canon(name):
    return "constructibles" if name in CONSTRUCTIBLES else name


def _module_globals(tree):
    """top-level `name = <expr>` assignments -> {name: ast.dump(expr)} (first assignment wins: the initial value)"""
    init = {}
    for st in tree.body:
        if isinstance(st, ast.Assign) and len(st.targets) == 1 and isinstance(st.targets[0], ast.Name):
            init.setdefault(st.targets[0].id, ast.dump(st.value))
    return init


def _written(node, tracked, declared_global):
    """names of tracked module globals written by the statements under `node` (assignment needs a global declaration,
    mutation through a method / subscript does not)"""
    out = []
    for n in ast.walk(node):
        if isinstance(n, (ast.Assign, ast.AugAssign, ast.AnnAssign)):
            targets = n.targets if isinstance(n, ast.Assign) else [n.target]
            for t in targets:
                for e in (t.elts if isinstance(t, (ast.Tuple, ast.List)) else [t]):
                    if isinstance(e, ast.Name) and e.id in declared_global and _canon(e.id) in tracked:
                        out.append(_canon(e.id))
                    elif isinstance(e, ast.Subscript) and isinstance(e.value, ast.Name) and e.value.id in tracked:
                        out.append(e.value.id)
        elif isinstance(n, ast.Call) and isinstance(n.func, ast.Attribute) and isinstance(n.func.value, ast.Name) \
                and n.func.value.id in tracked and n.func.attr in MUTATORS:
            out.append(n.func.value.id)
        elif isinstance(n, ast.Delete):
            for t in n.targets:
                if isinstance(t, ast.Subscript) and isinstance(t.value, ast.Name) and t.value.id in tracked:
                    out.append(t.value.id)
    return out


def _globals_declared(fn):
    names = set()
    for n in ast.walk(fn):
        if isinstance(n, ast.Global):
            names.update(n.names)
    return names


def _is_call_to(node, dotted):
    """Expr(Call(func = a.b.c))"""
    if isinstance(node, ast.Expr):
        node = node.value
    if not isinstance(node, ast.Call):
        return False
    parts = []
    f = node.func
    while isinstance(f, ast.Attribute):
        parts.append(f.attr)
        f = f.value
    if isinstance(f, ast.Name):
        parts.append(f.id)
    return ".".join(reversed(parts)) == dotted


def _strip_doc(body):
    if body and isinstance(body[0], ast.Expr) and isinstance(body[0].value, ast.Constant) and isinstance(body[0].value.value, str):
        return body[1:]
    return body


def _simple_reset(st, init, declared):
    """`name = <initial value>` -> name ; else None"""
    if isinstance(st, ast.Assign) and len(st.targets) == 1 and isinstance(st.targets[0], ast.Name):
        n = st.targets[0].id
        expect(n in declared, f"deactivate assigns {n} without a global declaration (the assignment is local)")
        expect(n in init, f"deactivate resets unknown global {n}")
        expect(ast.dump(st.value) == init[n], f"deactivate resets {n} to a value that is not its initial value")
        return n
    return None


def extract(repo=None):
    src, vt = load(VENEER)
    init = _module_globals(vt)
    act = get_def(vt, "activate", VENEER)
    dea = get_def(vt, "deactivate", VENEER)
    expect(get_def(vt, "isActive", VENEER) is not None, "isActive")
    isact = get_def(vt, "isActive", VENEER)
    ret = _strip_doc(isact.body)
    expect(len(ret) == 1 and isinstance(ret[0], ast.Return) and isinstance(ret[0].value, ast.Compare)
           and isinstance(ret[0].value.left, ast.Name) and ret[0].value.left.id == "activity"
           and isinstance(ret[0].value.ops[0], ast.Gt) and isinstance(ret[0].value.comparators[0], ast.Constant)
           and ret[0].value.comparators[0].value == 0, "isActive is not `return activity > 0`")
    expect(init.get("activity") == ast.dump(ast.Constant(0)), "initial value of activity is not 0")

    # ---- tracked globals: module-level names that some function declares global or mutates in place
    tracked = set()
    funcs = [n for n in vt.body if isinstance(n, (ast.FunctionDef, ast.AsyncFunctionDef))]
    for fn in funcs:
        for g in _globals_declared(fn):
            if _canon(g) == "constructibles" or g in init:
                tracked.add(_canon(g))
    for fn in funcs:
        for n in ast.walk(fn):
            if isinstance(n, ast.Call) and isinstance(n.func, ast.Attribute) and isinstance(n.func.value, ast.Name) \
                    and n.func.attr in MUTATORS and n.func.value.id in init \
                    and init[n.func.value.id] in (ast.dump(ast.List([], ast.Load())), ast.dump(ast.Dict([], [])),
                                                   ast.dump(ast.Call(ast.Name("set", ast.Load()), [], []))):
                tracked.add(n.func.value.id)
    tracked.discard("activity")
    tracked.discard("scenarioStack")
    expect("activity" in init and "scenarioStack" in init, "activity / scenarioStack globals")

    # ---- activate
    body = _strip_doc(act.body)
    declared = _globals_declared(act)
    i = 0
    expect(isinstance(body[i], ast.Global), "activate: global declaration first")
    i += 1
    ov = body[i]
    expect(isinstance(ov, ast.If) and "paramOverrides" in ast.dump(ov.test) and "modelOverride" in ast.dump(ov.test)
           and not ov.orelse, "activate: `if options.paramOverrides or options.modelOverride:` block")
    a0 = ov.body[0]
    expect(isinstance(a0, ast.Assert) and ast.dump(a0.test) == ast.dump(ast.parse("activity == 0", mode="eval").body),
           "activate: the override block does not start with `assert activity == 0`")
    override_writes = sorted(set(_written(ast.Module(ov.body[1:], []), tracked, declared)))
    i += 1
    m2 = body[i]
    expect(isinstance(m2, ast.If) and ast.dump(m2.test) == ast.dump(ast.parse("options.mode2D", mode="eval").body)
           and not m2.orelse, "activate: `if options.mode2D:` block")
    declared2 = declared | _globals_declared(m2)
    mb = [s for s in m2.body if not isinstance(s, ast.Global)]
    expect(isinstance(mb[0], ast.Assert)
           and ast.dump(mb[0].test) == ast.dump(ast.parse("mode2D or activity == 0", mode="eval").body),
           "activate: the 2D block does not start with `assert mode2D or activity == 0`")
    mode2d_writes = sorted(set(_written(ast.Module(mb[1:], []), tracked, declared2)))
    expect("mode2D" in mode2d_writes, "activate: the 2D block does not set mode2D")
    i += 1
    inc = body[i]
    expect(isinstance(inc, ast.AugAssign) and isinstance(inc.op, ast.Add) and isinstance(inc.target, ast.Name)
           and inc.target.id == "activity" and isinstance(inc.value, ast.Constant) and inc.value.value == 1
           and "activity" in declared, "activate: `activity += 1`")
    i += 1
    nassert = 0
    while i < len(body) and isinstance(body[i], ast.Assert):
        expect("activity" not in ast.dump(body[i].test) and "scenarioStack" not in ast.dump(body[i].test),
               "activate: unexpected assertion about activity after the increment")
        nassert += 1
        i += 1
    rest = body[i:]
    expect(len(rest) == 3 and isinstance(rest[0], ast.Assign) and _is_call_to(rest[1], "scenarioStack.append")
           and isinstance(rest[2], ast.Assign) and isinstance(rest[2].targets[0], ast.Name)
           and rest[2].targets[0].id == "currentScenario" and "currentScenario" in declared,
           "activate: tail is not `new = ...; scenarioStack.append(new); currentScenario = new`")
    activate_always = ["currentScenario"]

    # ---- deactivate
    body = _strip_doc(dea.body)
    ddecl = _globals_declared(dea)
    body = [s for s in body if not isinstance(s, ast.Global)]
    i = 0
    dec = body[i]
    expect(isinstance(dec, ast.AugAssign) and isinstance(dec.op, ast.Sub) and isinstance(dec.target, ast.Name)
           and dec.target.id == "activity" and isinstance(dec.value, ast.Constant) and dec.value.value == 1
           and "activity" in ddecl, "deactivate: `activity -= 1` first")
    i += 1
    expect(isinstance(body[i], ast.Assert)
           and ast.dump(body[i].test) == ast.dump(ast.parse("activity >= 0", mode="eval").body),
           "deactivate: `assert activity >= 0`")
    i += 1
    while isinstance(body[i], ast.Assert):
        expect("activity" not in ast.dump(body[i].test), "deactivate: unexpected assertion about activity")
        i += 1
    expect(_is_call_to(body[i], "scenarioStack.pop") and not body[i].value.args, "deactivate: `scenarioStack.pop()`")
    i += 1
    expect(isinstance(body[i], ast.Assert)
           and ast.dump(body[i].test) == ast.dump(ast.parse("len(scenarioStack) == activity", mode="eval").body),
           "deactivate: `assert len(scenarioStack) == activity`")
    i += 1
    reset_always = []
    while i < len(body) and not isinstance(body[i], ast.If):
        n = _simple_reset(body[i], init, ddecl)
        expect(n is not None, f"deactivate: unexpected statement {ast.dump(body[i])[:80]}")
        reset_always.append(n)
        i += 1
    expect(i == len(body) - 1, "deactivate: statements after the `if activity == 0` block")
    z = body[i]
    expect(isinstance(z, ast.If) and ast.dump(z.test) == ast.dump(ast.parse("activity == 0", mode="eval").body),
           "deactivate: `if activity == 0:`")
    reset_zero = []
    mode2d_reset = False
    for st in z.body:
        n = _simple_reset(st, init, ddecl | _globals_declared(z))
        if n is not None:
            reset_zero.append(n)
            continue
        expect(isinstance(st, ast.If) and ast.dump(st.test) == ast.dump(ast.Name("mode2D", ast.Load())) and not st.orelse,
               f"deactivate: unexpected statement in the zero branch {ast.dump(st)[:80]}")
        inner_decl = ddecl | _globals_declared(st)
        sts = [s for s in st.body if not isinstance(s, ast.Global)]
        got = set()
        for s2 in sts:
            if isinstance(s2, ast.Assign) and isinstance(s2.targets[0], ast.Name) and s2.targets[0].id == "mode2D":
                expect(ast.dump(s2.value) == init["mode2D"] and "mode2D" in inner_decl, "deactivate: mode2D reset value")
                got.add("mode2D")
            elif isinstance(s2, ast.Assign) and isinstance(s2.targets[0], ast.Tuple):
                names = [e.id for e in s2.targets[0].elts if isinstance(e, ast.Name)]
                expect(names == ["Point", "OrientedPoint", "Object"] and set(names) <= inner_decl
                       and ast.dump(s2.value) == ast.dump(ast.Name("_originalConstructibles", ast.Load())),
                       "deactivate: constructibles are not restored from _originalConstructibles")
                got.add("constructibles")
            elif isinstance(s2, ast.Assign) and isinstance(s2.targets[0], ast.Attribute):
                expect(s2.targets[0].attr in CONSTRUCTIBLES and isinstance(s2.value, ast.Name)
                       and s2.value.id == s2.targets[0].attr, "deactivate: object_types constructible restore")
                got.add("ot." + s2.targets[0].attr)
            else:
                raise TemplateMismatch(f"deactivate: unexpected statement in the mode2D reset {ast.dump(s2)[:80]}")
        expect({"mode2D", "constructibles", "ot.Point", "ot.OrientedPoint", "ot.Object"} <= got,
               "deactivate: the mode2D reset block is incomplete")
        mode2d_reset = True
    expect(len(z.orelse) == 1 and isinstance(z.orelse[0], ast.Assign) and isinstance(z.orelse[0].targets[0], ast.Name)
           and z.orelse[0].targets[0].id == "currentScenario"
           and ast.dump(z.orelse[0].value) == ast.dump(ast.parse("scenarioStack[-1]", mode="eval").body),
           "deactivate: else branch is not `currentScenario = scenarioStack[-1]`")
    if mode2d_reset:
        reset_zero += ["mode2D", "constructibles"]

    # ---- compile-time writers
    compile_writes = {}
    for fn in funcs:
        if fn.name in ("activate", "deactivate") or fn.name in SIM_TIME:
            continue
        decl = _globals_declared(fn)
        w = set(_written(fn, tracked, decl))
        restored = set()
        for n in ast.walk(fn):
            if isinstance(n, ast.Try) and n.finalbody:
                restored |= set(_written(ast.Module(n.finalbody, []), tracked, decl))
        for g in sorted(w - restored):
            compile_writes.setdefault(g, []).append(fn.name)
    names = sorted(tracked | set(compile_writes) | set(reset_always) | set(reset_zero) | set(override_writes)
                   | set(mode2d_writes) | set(activate_always))

    # ---- translator skeletons
    tsrc, tt = load(TRANSLATOR)
    sfs = get_def(tt, "_scenarioFromStream", TRANSLATOR)
    cs = get_def(tt, "compileStream", TRANSLATOR)
    sk = {}
    body = _strip_doc(sfs.body)
    tries = [s for s in body if isinstance(s, ast.Try)]
    expect(len(tries) == 1, "_scenarioFromStream: exactly one try statement expected")
    tr = tries[0]
    pre = body[:body.index(tr)]
    expect(not body[body.index(tr) + 1:], "_scenarioFromStream: statements after the try")
    act_in_try = any(_is_call_to(n, "veneer.activate") for n in ast.walk(ast.Module(tr.body, [])) if isinstance(n, ast.Expr))
    act_before = any(_is_call_to(n, "veneer.activate") for n in ast.walk(ast.Module(pre, [])) if isinstance(n, ast.Expr))
    expect(act_in_try != act_before, "_scenarioFromStream: veneer.activate must be called exactly once (before or inside the try)")
    expect(not tr.handlers and not tr.orelse, "_scenarioFromStream: unexpected except/else clauses")
    fin_plain = any(_is_call_to(s, "veneer.deactivate") for s in tr.finalbody)
    fin_guard = None
    for s in tr.finalbody:
        if isinstance(s, ast.If) and isinstance(s.test, ast.Name) and not s.orelse \
                and any(_is_call_to(x, "veneer.deactivate") for x in s.body):
            fin_guard = s.test.id
    expect(fin_plain != (fin_guard is not None), "_scenarioFromStream: the finally block must deactivate exactly once")
    guarded = False
    if fin_guard is not None:
        # the flag must be False before the try and set True by the statement right after the activate call
        flag_init = [s for s in pre if isinstance(s, ast.Assign) and isinstance(s.targets[0], ast.Name)
                     and s.targets[0].id == fin_guard]
        expect(len(flag_init) == 1 and isinstance(flag_init[0].value, ast.Constant) and flag_init[0].value.value is False,
               f"_scenarioFromStream: guard flag {fin_guard} is not initialised to False before the try")
        ok = False
        for n in ast.walk(ast.Module(tr.body, [])):
            stmts = getattr(n, "body", None)
            if isinstance(stmts, list):
                for a, b in zip(stmts, stmts[1:]):
                    if _is_call_to(a, "veneer.activate") and isinstance(b, ast.Assign) and isinstance(b.targets[0], ast.Name) \
                            and b.targets[0].id == fin_guard and isinstance(b.value, ast.Constant) and b.value.value is True:
                        ok = True
        expect(ok, f"_scenarioFromStream: {fin_guard} is not set to True right after veneer.activate")
        nsets = sum(1 for n in ast.walk(sfs) if isinstance(n, ast.Assign) and isinstance(n.targets[0], ast.Name)
                    and n.targets[0].id == fin_guard)
        expect(nsets == 2, f"_scenarioFromStream: {fin_guard} is assigned in unexpected places")
        guarded = True
    if act_before:
        guarded = True  # a failing activation then never reaches the finally block
    inner = [n for n in ast.walk(ast.Module(tr.body, [])) if isinstance(n, ast.Call) and isinstance(n.func, ast.Name)
             and n.func.id == "compileStream"]
    expect(len(inner) == 1, "_scenarioFromStream: exactly one call of compileStream expected")
    kw = {k.arg: k.value for k in inner[0].keywords}
    inner_activates = not ("activate" in kw and isinstance(kw["activate"], ast.Constant) and kw["activate"].value is False)
    if len(inner[0].args) >= 5:
        a5 = inner[0].args[4]
        inner_activates = not (isinstance(a5, ast.Constant) and a5.value is False)
    expect(any(isinstance(n, ast.Return) and isinstance(n.value, ast.Call) and isinstance(n.value.func, ast.Name)
               and n.value.func.id == "constructScenarioFrom" for n in tr.body),
           "_scenarioFromStream: `return constructScenarioFrom(...)` is not inside the try")

    body = _strip_doc(cs.body)
    tries = [s for s in body if isinstance(s, ast.Try)]
    expect(len(tries) == 1, "compileStream: exactly one try statement expected")
    tr = tries[0]
    pre = body[:body.index(tr)]
    post = body[body.index(tr) + 1:]

    def guarded_call(stmts, dotted, flag):
        for s in stmts:
            if isinstance(s, ast.If) and isinstance(s.test, ast.Name) and s.test.id == flag and not s.orelse \
                    and len(s.body) == 1 and _is_call_to(s.body[0], dotted):
                return True
        return False

    expect(guarded_call(pre, "veneer.activate", "activate"), "compileStream: `if activate: veneer.activate(...)` before the try")
    expect(guarded_call(tr.finalbody, "veneer.deactivate", "activate") and len(tr.finalbody) == 1,
           "compileStream: finally block is not `if activate: veneer.deactivate()`")
    expect(not tr.handlers and not tr.orelse, "compileStream: unexpected except/else clauses")
    expect(not any("veneer.activate" in ast.unparse(s) or "veneer.deactivate" in ast.unparse(s) for s in tr.body + post),
           "compileStream: activation calls in unexpected places")
    order = []
    for n in ast.walk(ast.Module(tr.body, [])):
        if isinstance(n, ast.Call) and isinstance(n.func, ast.Name) and n.func.id in (
                "parse_string", "compileScenicAST", "compileTranslatedTree", "executeCodeIn", "storeScenarioStateIn"):
            order.append((n.lineno, n.func.id))
    order = [f for _, f in sorted(order)]
    expect(order == ["parse_string", "compileScenicAST", "compileTranslatedTree", "executeCodeIn", "storeScenarioStateIn"],
           f"compileStream: phases are not called in the expected order inside the try ({order})")
    defaults = {a.arg: d for a, d in zip(reversed(cs.args.args), reversed(cs.args.defaults))}
    expect("activate" in defaults and isinstance(defaults["activate"], ast.Constant) and defaults["activate"].value is True,
           "compileStream: `activate` does not default to True")
    # ScenicLoader.exec_module must use the default (activating) form
    ld = get_def(tt, "ScenicLoader.exec_module", TRANSLATOR)
    calls = [n for n in ast.walk(ld) if isinstance(n, ast.Call) and isinstance(n.func, ast.Name) and n.func.id == "compileStream"]
    expect(len(calls) == 1 and not any(k.arg == "activate" for k in calls[0].keywords) and len(calls[0].args) <= 4,
           "ScenicLoader.exec_module: compileStream is not called in its activating form")

    return {
        "names": names,
        "overrideWrites": override_writes,
        "mode2DWrites": mode2d_writes,
        "activateAlways": activate_always,
        "compileWrites": sorted(compile_writes),
        "compileWriters": compile_writes,
        "resetAlways": sorted(set(reset_always)),
        "resetAtZero": sorted(set(reset_zero)),
        "mode2DReset": mode2d_reset,
        "sfsGuarded": guarded,
        "sfsInnerActivates": inner_activates,
    }


def leaks(d):
    w = set(d["compileWrites"]) | set(d["overrideWrites"]) | set(d["mode2DWrites"]) | set(d["activateAlways"])
    return sorted(w - set(d["resetAlways"]) - set(d["resetAtZero"]))


def to_lean(d):
    idx = {n: i for i, n in enumerate(d["names"])}

    def lst(key):
        return "[" + ", ".join(str(idx[n]) for n in d[key]) + "]"

    names = "[" + ", ".join(f'"{n}"' for n in d["names"]) + "]"
    writers = "; ".join(f"{g} <- {', '.join(fs)}" for g, fs in sorted(d["compileWriters"].items()))
    return f"""import ScenicModel.Model.FrontState
namespace Scenic.Gen
open Scenic.FrontState
/-- tracked veneer globals (index = position) -/
def frontGlobalNames : List String := {names}
/-- compile-time writers found in veneer.py: {writers} -/
def frontData : Data where
  nGlobals := {len(d['names'])}
  overrideWrites := {lst('overrideWrites')}
  mode2DWrites := {lst('mode2DWrites')}
  activateAlways := {lst('activateAlways')}
  compileWrites := {lst('compileWrites')}
  resetAlways := {lst('resetAlways')}
  resetAtZero := {lst('resetAtZero')}
  mode2DIdx := {idx.get('mode2D', 0)}
  mode2DReset := {str(d['mode2DReset']).lower()}
  sfsGuarded := {str(d['sfsGuarded']).lower()}
end Scenic.Gen
"""
