"""scenic.gram -> Gen/PegGrammarC10.lean (C10): the whole grammar, flattened exactly as pegen's Python generator
flattens it, plus a claimed nullable table and a claimed rank function that the Lean checker `WF` re-verifies.

pegen's own grammar parser and generator objects are used (`pegen.build.build_parser`,
`pegen.python_generator.PythonParserGenerator`): the artificial rules (_tmp/_loop/_gather), the call form of each
item (`self.expect('x')`, `self.name()`, `(x := self.rule(),)`, `self.positive_lookahead(...)`,
`self.expect_forced(...)`, cut), the `call_invalid_rules` guard of an alternative and the memoisation kind of each
rule (`@memoize`, `@memoize_left_rec`, `@logger`) are read off the very objects that produce parser.py.
Anything unexpected raises TemplateMismatch."""
import ast
import io
import os
import re

from vlib.ctx import REPO, TemplateMismatch

GRAM = "src/scenic/syntax/scenic.gram"
TOKEN_KINDS = ("name", "number", "string", "fstring_start", "fstring_middle", "fstring_end", "op", "type_comment",
               "soft_keyword")


def _call_to_atom(call, rules, terms):
    """'self.expect("x")' | 'self.name()' | 'self.rule()' -> ('tok', id) | ('rule', name)"""
    m = re.fullmatch(r"self\.expect\((.+)\)", call, re.S)
    if m:
        try:
            lit = ast.literal_eval(m.group(1))
        except (ValueError, SyntaxError):
            raise TemplateMismatch(f"cannot read terminal {call!r}")
        return ("tok", terms.setdefault(("lit", lit), len(terms)))
    m = re.fullmatch(r"self\.(\w+)\(\)", call)
    if not m:
        raise TemplateMismatch(f"unexpected call form {call!r}")
    nm = m.group(1)
    if nm in rules:
        return ("rule", nm)
    if nm in TOKEN_KINDS:
        return ("tok", terms.setdefault(("kind", nm), len(terms)))
    raise TemplateMismatch(f"call to unknown rule or token kind {nm!r}")


def _split_head_tail(s):
    """'self.positive_lookahead(self.expect, "x")' -> ('self.expect', '"x"')"""
    inner = s[s.index("(") + 1:-1]
    head, _, tail = inner.partition(",")
    return head.strip(), tail.strip()


def extract(repo=None):
    repo = repo or REPO
    try:
        from pegen import grammar as G
        from pegen.build import build_parser
        from pegen.python_generator import InvalidNodeVisitor, PythonParserGenerator
    except ImportError as e:
        raise TemplateMismatch(f"pegen not importable: {e}")
    path = os.path.join(repo, GRAM)
    try:
        grammar, _parser, _tok = build_parser(path)
    except BaseException as e:  # noqa: pegen raises SystemExit / SyntaxError on a malformed grammar
        raise TemplateMismatch(f"pegen cannot read the grammar: {type(e).__name__}: {e}")

    seen = {}

    class Gen(PythonParserGenerator):
        def visit_Rule(self, node):
            seen[node.name] = node
            return super().visit_Rule(node)

    out = io.StringIO()
    try:
        gen = Gen(grammar, out)
        gen.generate(os.path.basename(path))
    except BaseException as e:  # noqa
        raise TemplateMismatch(f"pegen cannot generate a parser: {type(e).__name__}: {e}")
    names = list(seen)
    index = {n: i for i, n in enumerate(names)}
    inval = InvalidNodeVisitor()
    terms = {}
    rules = []
    nact = 0
    for name in names:
        node = seen[name]
        is_loop, is_gather = node.is_loop(), node.is_gather()
        rhs = node.flatten()
        if node.left_recursive:
            kind = "leader" if node.leader else "nomemo"
        else:
            kind = "memo"
        alts = []
        if is_loop and len(rhs.alts) != 1:
            raise TemplateMismatch(f"loop rule {name} with {len(rhs.alts)} alternatives")
        for alt in rhs.alts:
            items = []
            for ni in alt.items:
                it = ni.item
                _nm, call = gen.callmakervisitor.visit(it)
                call = call.strip()
                if isinstance(it, G.Cut):
                    items.append(("cut", None))
                    continue
                if isinstance(it, G.PositiveLookahead) or isinstance(it, G.NegativeLookahead):
                    head, tail = _split_head_tail(call)
                    inner = f"{head}({tail})"
                    items.append(("pos" if isinstance(it, G.PositiveLookahead) else "neg", _call_to_atom(inner, seen, terms)))
                    continue
                if isinstance(it, G.Forced):
                    m = re.fullmatch(r"self\.expect_forced\((self\.\w+\(.*?\)), .*\)", call, re.S)
                    if not m:
                        raise TemplateMismatch(f"unexpected forced form {call!r}")
                    items.append(("forced", _call_to_atom(m.group(1), seen, terms)))
                    continue
                if call.endswith(","):
                    # Opt and Repeat0: `(x := call,)` is always truthy
                    items.append(("opt", _call_to_atom(call[:-1].strip(), seen, terms)))
                    continue
                atom = _call_to_atom(call, seen, terms)
                if is_gather and atom[0] == "rule" and seen[atom[1]].is_loop():
                    # gather: `(seq := self._loop0_N()) is not None` — an empty list is accepted
                    items.append(("opt", atom))
                else:
                    items.append(("plain", atom))
            act = (alt.action or "").strip()
            alts.append({"items": items, "guard": bool(inval.visit(alt)), "act": nact, "actNone": act == "None",
                         "loc": "LOCATIONS" in act, "action": act[:60]})
            nact += 1
        rules.append({"name": name, "kind": kind, "loop": bool(is_loop), "gather": bool(is_gather),
                      "noinv": name.endswith("without_invalid"), "alts": alts})
    # resolve rule names
    for r in rules:
        for a in r["alts"]:
            a["items"] = [(w, (("rule", index[at[1]]) if at and at[0] == "rule" else at)) for w, at in a["items"]]
    g = {"rules": rules, "index": index, "terms": {f"{k[0]}:{k[1]}": v for k, v in terms.items()},
         "termlist": [k for k, _ in sorted(terms.items(), key=lambda kv: kv[1])], "nact": nact}
    g["nullable"] = compute_nullable(g)
    g["rank"] = compute_rank(g)
    for start in ("file", "eval"):
        if start not in index:
            raise TemplateMismatch(f"start rule {start} missing")
    g["start"] = index["file"]
    g["keywords"] = sorted(gen.callmakervisitor.keywords)
    g["soft_keywords"] = sorted(gen.callmakervisitor.soft_keywords)
    return g


def item_nullable(g, null, w, at):
    if w in ("opt", "pos", "neg", "cut"):
        return True
    if at[0] == "tok":
        return False
    return null[at[1]]


def compute_nullable(g):
    """least fixpoint of: a rule is nullable if some alternative consists of nullable items only"""
    rules = g["rules"]
    null = [False] * len(rules)
    changed = True
    while changed:
        changed = False
        for i, r in enumerate(rules):
            if not null[i] and any(all(item_nullable(g, null, w, at) for w, at in a["items"]) for a in r["alts"]):
                null[i] = True
                changed = True
    return null


def left_calls(g, null, r):
    out = set()
    for a in r["alts"]:
        for w, at in a["items"]:
            if at is not None and at[0] == "rule":
                out.add(at[1])
            if not item_nullable(g, null, w, at):
                break
    return out


def compute_rank(g):
    """rank(r) = 0 for leaders; for the others 1 + the longest chain of left calls that avoids leaders
    (0 everywhere if such a chain is cyclic: the Lean checker then rejects the grammar)"""
    rules, null = g["rules"], g["nullable"]
    n = len(rules)
    leader = [r["kind"] == "leader" for r in rules]
    succ = [[b for b in left_calls(g, null, r) if not leader[b]] for r in rules]
    rank = [None] * n
    state = [0] * n
    cyclic = False
    for root in range(n):
        if leader[root] or state[root] == 2:
            continue
        stack = [(root, iter(succ[root]))]
        state[root] = 1
        while stack:
            v, it = stack[-1]
            adv = False
            for w in it:
                if state[w] == 0:
                    state[w] = 1
                    stack.append((w, iter(succ[w])))
                    adv = True
                    break
                if state[w] == 1:
                    cyclic = True
            if not adv:
                state[v] = 2
                rank[v] = 1 + max([rank[w] or 0 for w in succ[v] if rank[w] is not None] + [0])
                stack.pop()
    if cyclic:
        return [0] * n
    return [0 if leader[i] else rank[i] for i in range(n)]


def stats(g):
    rules = g["rules"]
    return {"rules": len(rules), "alternatives": sum(len(r["alts"]) for r in rules),
            "items": sum(len(a["items"]) for r in rules for a in r["alts"]),
            "terminals": len(g["termlist"]), "leaders": sum(r["kind"] == "leader" for r in rules),
            "unmemoised_left_recursive": sum(r["kind"] == "nomemo" for r in rules),
            "loops": sum(r["loop"] for r in rules), "nullable_rules": sum(g["nullable"]),
            "max_rank": max(g["rank"]) if g["rank"] else 0,
            "invalid_guarded_alternatives": sum(a["guard"] for r in rules for a in r["alts"]),
            "actions_using_LOCATIONS": sum(bool(a.get("loc")) for r in rules for a in r["alts"])}


def _atom(at):
    return f".tok {at[1]}" if at[0] == "tok" else f".rule {at[1]}"


def _item(w, at):
    return ".cut" if w == "cut" else f".{w} ({_atom(at)})"


CHUNK = 40


def to_lean(g):
    lines = ["import ScenicModel.Model.PegTotal", "set_option maxRecDepth 8000", "namespace Scenic.Gen",
             "open Scenic.PegTotal",
             f"/-! scenic.gram flattened by pegen: {len(g['rules'])} rules, {len(g['termlist'])} terminals -/"]
    rl = []
    for i, r in enumerate(g["rules"]):
        alts = ", ".join("⟨[" + ", ".join(_item(w, at) for w, at in a["items"]) + f"], {str(a['guard']).lower()}, {a['act']}⟩"
                         for a in r["alts"])
        rl.append(f"  /- {i} {r['name']} -/ ⟨[{alts}], .{r['kind']}, {str(r['loop']).lower()}, {str(r['noinv']).lower()}⟩")
    chunks = [rl[i:i + CHUNK] for i in range(0, len(rl), CHUNK)] or [[]]
    for k, ch in enumerate(chunks):
        lines.append(f"def pegRules{k} : List Rule := [")
        lines.append(",\n".join(ch))
        lines.append("]")
    lines.append("def pegRules : Array Rule := (" + " ++ ".join(f"pegRules{k}" for k in range(len(chunks))) + ").toArray")

    nullable = sum(1 << i for i, b in enumerate(g["nullable"]) if b)
    leaders = sum(1 << i for i, r in enumerate(g["rules"]) if r["kind"] == "leader")
    base = max(64, max(g["rank"] + [0]) + 1)
    rank = sum(k * base ** i for i, k in enumerate(g["rank"]))
    lines.append(f"def pegNullable : Nat := {nullable}")
    lines.append(f"def pegLeaders : Nat := {leaders}")
    lines.append(f"def pegRankBase : Nat := {base}")
    lines.append(f"def pegRank : Nat := {rank}")
    lines.append("def pegGrammar : Grammar := ⟨pegRules, pegNullable, pegLeaders, pegRank, pegRankBase⟩")
    lines.append(f"def pegStart : Nat := {g['start']}")
    none_acts = [a["act"] for r in g["rules"] for a in r["alts"] if a["actNone"]]
    lines.append("/-- alternatives whose action is the literal `None` -/")
    lines.append("def pegNoneActions : List Nat := [" + ", ".join(map(str, none_acts)) + "]")
    loc_bits = sum(1 << a["act"] for r in g["rules"] for a in r["alts"] if a.get("loc"))
    lines.append("/-- bit `a` is set when the action of alternative `a` uses LOCATIONS (pegen then emits "
                 "`tok = self._tokenizer.get_last_non_whitespace_token()` before it) -/")
    lines.append(f"def pegLocBits : Nat := {loc_bits}")
    lines.append("end Scenic.Gen")
    return "\n".join(lines) + "\n"
