"""C05: the interval arithmetic of distributions.py -> Gen/SupportFormulas.lean

`OperatorDistribution.supportInterval` is matched against its template and every per-operator formula is
translated (restricted Python expression -> Lean term over Rat).  The small helpers
(`supportInterval`, `supmin`, `supmax`, `unionOfSupports`, `addSupports`, `Range/DiscreteRange/
MultiplexerDistribution/TruncatedNormal/AttributeDistribution/FunctionDistribution.supportInterval`,
`monotonicDistributionFunction`) are compared with their expected normal forms (ast.unparse); a change there is
a TemplateMismatch (the tie then rests on the correspondence run).
"""
import ast

from translate.astutil import TemplateMismatch, body_nodoc, expect, get_def, is_name, load

DIST = "src/scenic/core/distributions.py"

# expected normal forms of the hand-modelled helpers (docstrings removed)
EXPECTED = {
    "supportInterval": "if hasattr(thing, 'supportInterval'):\n    return thing.supportInterval()\nelif isinstance(thing, (int, float)):\n    return (thing, thing)\nelse:\n    return (None, None)",
    "supmin": "return None if None in vals else min(vals)",
    "supmax": "return None if None in vals else max(vals)",
    "unionOfSupports": "mins, maxes = zip(*supports)\nreturn (supmin(*mins), supmax(*maxes))",
    "addSupports": "l1, u1 = sup1\nl2, u2 = sup2\nlower = None if l1 is None or l2 is None else l1 + l2\nupper = None if u1 is None or u2 is None else u1 + u2\nreturn (lower, upper)",
    "Range.supportInterval": "return unionOfSupports((supportInterval(self.low), supportInterval(self.high)))",
    "DiscreteRange.supportInterval": "ll, lh = supportInterval(self.low)\nhl, hh = supportInterval(self.high)\nreturn (ll, hh)",
    "MultiplexerDistribution.supportInterval": "return unionOfSupports((supportInterval(opt) for opt in self.options))",
    "TruncatedNormal.supportInterval": "return (self.low, self.high)",
    "Distribution.supportInterval": "return (None, None)",
    "AttributeDistribution.supportInterval": "obj = self.object\nif isinstance(obj, MultiplexerDistribution):\n    attrs = (getattr(opt, self.attribute) for opt in obj.options)\n    return unionOfSupports((supportInterval(attr) for attr in attrs))\nreturn (None, None)",
    "FunctionDistribution.supportInterval": "if self.support is None:\n    return (None, None)\nsubsupports = (supportInterval(arg) for arg in self.arguments)\nkwss = {name: supportInterval(arg) for name, arg in self.kwargs.items()}\nreturn self.support(*subsupports, **kwss)",
    "monotonicDistributionFunction": "def support(*subsupports, **kwss):\n    mins, maxes = zip(*subsupports)\n    kwmins = {name: interval[0] for name, interval in kwss.items()}\n    kwmaxes = {name: interval[1] for name, interval in kwss.items()}\n    l = None if None in mins or None in kwmins else method(*mins, **kwmins)\n    r = None if None in maxes or None in kwmaxes else method(*maxes, **kwmaxes)\n    return (l, r)\nreturn distributionFunction(method, support=support, valueType=valueType)",
}


def _norm(fn):
    return "\n".join(ast.unparse(s) for s in body_nodoc(fn))


# ------------------------------------------------------------------ restricted expression translator
class Sym:
    """symbolic value: kind in {'rat','none','opt','tuple'}"""

    def __init__(self, kind, text=None, items=None):
        self.kind, self.text, self.items = kind, text, items

    def as_opt(self):
        if self.kind == "rat":
            return f"some ({self.text})"
        if self.kind == "none":
            return "none"
        if self.kind == "opt":
            return self.text
        raise TemplateMismatch("tuple where a bound was expected")


CMP = {ast.Gt: ">", ast.GtE: "≥", ast.Lt: "<", ast.LtE: "≤", ast.Eq: "="}
ARITH = {ast.Add: "+", ast.Sub: "-", ast.Mult: "*", ast.Div: "/"}


def expr(node, env):
    if isinstance(node, ast.Name):
        if node.id not in env:
            raise TemplateMismatch(f"unknown name {node.id} in a support formula")
        return env[node.id]
    if isinstance(node, ast.Constant):
        if node.value is None:
            return Sym("none")
        if isinstance(node.value, int) and not isinstance(node.value, bool):
            return Sym("rat", f"({node.value} : Rat)")
        raise TemplateMismatch(f"constant {node.value!r} in a support formula")
    if isinstance(node, ast.UnaryOp) and isinstance(node.op, ast.USub):
        v = expr(node.operand, env)
        expect(v.kind == "rat", "negation of a non-number")
        return Sym("rat", f"(-{v.text})")
    if isinstance(node, ast.BinOp) and type(node.op) in ARITH:
        a, b = expr(node.left, env), expr(node.right, env)
        expect(a.kind == "rat" and b.kind == "rat", "arithmetic on a non-number")
        return Sym("rat", f"({a.text} {ARITH[type(node.op)]} {b.text})")
    if isinstance(node, ast.Tuple):
        return Sym("tuple", items=[expr(e, env) for e in node.elts])
    if isinstance(node, ast.IfExp):
        c = cond(node.test, env)
        a, b = expr(node.body, env), expr(node.orelse, env)
        return merge(c, a, b)
    if isinstance(node, ast.Call) and isinstance(node.func, ast.Name) and node.func.id in ("min", "max") and not node.keywords:
        args = []
        for a in node.args:
            if isinstance(a, ast.Starred):
                t = expr(a.value, env)
                expect(t.kind == "tuple", "min/max of a starred non-tuple")
                args += t.items
            else:
                args.append(expr(a, env))
        expect(all(a.kind == "rat" for a in args), "min/max of non-numbers")
        f = "rmin" if node.func.id == "min" else "rmax"
        if len(args) == 2:
            return Sym("rat", f"({f} {args[0].text} {args[1].text})")
        if len(args) == 4:
            return Sym("rat", f"({f}4 {' '.join(a.text for a in args)})")
        raise TemplateMismatch("min/max with an unexpected number of arguments")
    raise TemplateMismatch("unsupported expression in a support formula: " + ast.dump(node)[:80])


def cond(node, env):
    if isinstance(node, ast.Compare) and len(node.ops) == 1 and type(node.ops[0]) in CMP:
        a, b = expr(node.left, env), expr(node.comparators[0], env)
        expect(a.kind == "rat" and b.kind == "rat", "comparison of a non-number")
        return f"{a.text} {CMP[type(node.ops[0])]} {b.text}"
    raise TemplateMismatch("unsupported condition in a support formula: " + ast.dump(node)[:80])


def merge(c, a, b):
    if a.kind == "tuple" or b.kind == "tuple":
        expect(a.kind == b.kind and len(a.items) == len(b.items), "tuple merge")
        return Sym("tuple", items=[merge(c, x, y) for x, y in zip(a.items, b.items)])
    if a.kind == "rat" and b.kind == "rat":
        return Sym("rat", f"(if {c} then {a.text} else {b.text})")
    return Sym("opt", f"(if {c} then {a.as_opt()} else {b.as_opt()})")


def block(stmts, env):
    """execute a straight-line/if block symbolically; returns ('ret', Sym) or ('env', env)"""
    env = dict(env)
    for i, st in enumerate(stmts):
        if isinstance(st, ast.Assign) and len(st.targets) == 1:
            t = st.targets[0]
            v = expr(st.value, env)
            if isinstance(t, ast.Name):
                env[t.id] = v
            elif isinstance(t, ast.Tuple):
                expect(v.kind == "tuple" and len(v.items) == len(t.elts), "tuple assignment arity")
                for n, x in zip(t.elts, v.items):
                    expect(isinstance(n, ast.Name), "tuple assignment target")
                    env[n.id] = x
            else:
                raise TemplateMismatch("assignment target")
        elif isinstance(st, ast.Return):
            return ("ret", expr(st.value, env))
        elif isinstance(st, ast.If):
            c = cond(st.test, env)
            ka, a = block(st.body, env)
            kb, b = block(st.orelse, env) if st.orelse else ("env", env)
            rest = stmts[i + 1:]
            if ka == "ret" and kb == "ret":
                expect(not rest, "statements after an if that always returns")
                return ("ret", merge(c, a, b))
            if ka == "env" and kb == "env":
                new = {}
                for k in set(a) | set(b):
                    if k in a and k in b:
                        new[k] = a[k] if a[k] is b[k] else merge(c, a[k], b[k])
                env = new
                continue
            # one branch returns, the other falls through to the rest
            if ka == "ret":
                kr, r = block(rest, b)
                expect(kr == "ret", "fall-through without return")
                return ("ret", merge(c, a, r))
            kr, r = block(rest, a)
            expect(kr == "ret", "fall-through without return")
            return ("ret", merge(c, r, b))
        elif isinstance(st, ast.Raise):
            raise TemplateMismatch("raise inside a formula branch")
        else:
            raise TemplateMismatch("unsupported statement in a support formula: " + type(st).__name__)
    return ("env", env)


def _op_names(test):
    """`self.operator == "a" or self.operator == "b"` / `self.operator in ("a", "b")` -> names"""
    def is_selfop(n):
        return isinstance(n, ast.Attribute) and n.attr == "operator" and is_name(n.value, "self")
    if isinstance(test, ast.BoolOp) and isinstance(test.op, ast.Or):
        out = []
        for v in test.values:
            out += _op_names(v)
        return out
    if isinstance(test, ast.Compare) and len(test.ops) == 1 and is_selfop(test.left):
        c = test.comparators[0]
        if isinstance(test.ops[0], ast.Eq) and isinstance(c, ast.Constant):
            return [c.value]
        if isinstance(test.ops[0], ast.In) and isinstance(c, ast.Tuple):
            return [e.value for e in c.elts]
    raise TemplateMismatch("operator dispatch test: " + ast.unparse(test)[:80])


def _chain(node):
    """if/elif/else chain -> [(names, body)], else-body"""
    out = []
    while True:
        out.append((_op_names(node.test), node.body))
        if len(node.orelse) == 1 and isinstance(node.orelse[0], ast.If):
            node = node.orelse[0]
        else:
            return out, node.orelse


def extract_operator_support(tree):
    fn = get_def(tree, "OperatorDistribution.supportInterval", DIST)
    body = body_nodoc(fn)
    expect(len(body) == 2 and isinstance(body[0], ast.If) and ast.unparse(body[1]) == "return (None, None)",
           "OperatorDistribution.supportInterval: outer shape")
    top, other = _chain(body[0])
    expect(len(top) == 2 and not other, "OperatorDistribution.supportInterval: expected a binary and a unary branch")
    (bin_names, bin_body), (un_names, un_body) = top
    # binary branch
    expect(len(bin_body) == 6, "binary branch: statement count")
    expect(ast.unparse(bin_body[0]) == "assert len(self.operands) == 1 and len(self.kwoperands) == 0", "binary branch: assert")
    expect(ast.unparse(bin_body[1]) == "l1, r1 = supportInterval(self.object)", "binary branch: l1, r1")
    expect(ast.unparse(bin_body[2]) == "l2, r2 = supportInterval(self.operands[0])", "binary branch: l2, r2")
    expect(ast.unparse(bin_body[3]) == "if l1 is None or l2 is None or r1 is None or (r2 is None):\n    return (None, None)",
           "binary branch: None guard")
    expect(isinstance(bin_body[4], ast.If) and ast.unparse(bin_body[5]) == "return (l, r)", "binary branch: dispatch / return")
    chain, els = _chain(bin_body[4])
    expect(len(els) == 1 and isinstance(els[0], ast.Raise), "binary branch: final else is not a raise")
    env0 = {n: Sym("rat", n) for n in ("l1", "r1", "l2", "r2")}
    formulas, covered = {}, []
    for names, stmts in chain:
        kind, env = block(stmts, env0)
        expect(kind == "env" and "l" in env and "r" in env, "a binary branch does not assign l and r")
        key = names[0].strip("_")
        formulas[key] = (env["l"].as_opt(), env["r"].as_opt())
        for n in names:
            covered.append((n, key))
    expect(sorted(n for n, _ in covered) == sorted(bin_names), "binary branch: dispatch does not cover exactly the listed operators")
    # unary branch
    expect(len(un_body) == 3, "unary branch: statement count")
    expect(ast.unparse(un_body[0]) == "assert len(self.operands) == 0 and len(self.kwoperands) == 0", "unary branch: assert")
    expect(ast.unparse(un_body[1]) == "l, r = supportInterval(self.object)", "unary branch: l, r")
    chain, els = _chain(un_body[2])
    expect(len(els) == 1 and isinstance(els[0], ast.Raise), "unary branch: final else")
    envu = {n: Sym("rat", n) for n in ("l", "r")}
    ucovered = []
    for names, stmts in chain:
        kind, v = block(stmts, envu)
        expect(kind == "ret" and v.kind == "tuple" and len(v.items) == 2, "a unary branch does not return a pair")
        key = names[0].strip("_")
        formulas[key] = (v.items[0].as_opt(), v.items[1].as_opt())
        for n in names:
            ucovered.append((n, key))
    expect(sorted(n for n, _ in ucovered) == sorted(un_names), "unary branch: dispatch")
    for k in ("add", "sub", "rsub", "mul", "truediv", "rtruediv", "neg", "abs"):
        expect(k in formulas, f"no formula for {k}")
    expect(set(formulas) == {"add", "sub", "rsub", "mul", "truediv", "rtruediv", "neg", "abs"}, "unexpected extra formula")
    return formulas, covered, ucovered


def check_helpers(tree):
    bad = []
    for qual, want in EXPECTED.items():
        fn = get_def(tree, qual, DIST)
        if _norm(fn) != want:
            bad.append(qual)
    if bad:
        raise TemplateMismatch("support helpers changed shape: " + ", ".join(bad))


GEOM = "src/scenic/core/geometry.py"


def extract_hypot_support(gtree):
    """the per-argument transform of `geometry._hypotSupport` as a pair of Lean terms over (l, r); the identity when
    `hypot` is declared a monotonicDistributionFunction (its support is then method(*lows), method(*highs))"""
    fn = get_def(gtree, "hypot", GEOM)
    expect(ast.unparse(body_nodoc(fn)[-1]) == "return math.hypot(*args)", "geometry.hypot is not math.hypot(*args)")
    decs = [ast.unparse(d) for d in fn.decorator_list]
    if decs == ["monotonicDistributionFunction"]:
        return ("l", "r")
    expect(decs == ["distributionFunction(support=_hypotSupport)"], "geometry.hypot: unexpected decorators " + repr(decs))
    sup = get_def(gtree, "_hypotSupport", GEOM)
    expect(sup.args.vararg is not None and sup.args.vararg.arg == "subsupports" and not sup.args.args and sup.args.kwarg is None,
           "_hypotSupport signature")
    b = body_nodoc(sup)
    expect(len(b) == 3 and ast.unparse(b[0]) == "lows, highs = ([], [])" and isinstance(b[1], ast.For)
           and ast.unparse(b[2]) == "return (math.hypot(*lows), math.hypot(*highs))", "_hypotSupport: outer shape")
    loop = b[1]
    expect(ast.unparse(loop.target) == "(l, r)" and ast.unparse(loop.iter) == "subsupports" and not loop.orelse, "_hypotSupport: loop header")
    lb = loop.body
    expect(len(lb) >= 3 and ast.unparse(lb[0]) == "if l is None or r is None:\n    return (None, None)", "_hypotSupport: None guard")
    expect(ast.unparse(lb[-2]) == "lows.append(l)" and ast.unparse(lb[-1]) == "highs.append(r)", "_hypotSupport: appends")
    kind, env = block(lb[1:-2], {"l": Sym("rat", "l"), "r": Sym("rat", "r")})
    expect(kind == "env" and env["l"].kind == "rat" and env["r"].kind == "rat", "_hypotSupport: transform")
    return (env["l"].text, env["r"].text)


def extract():
    _, tree = load(DIST)
    _, gtree = load(GEOM)
    formulas, covered, ucovered = extract_operator_support(tree)
    check_helpers(tree)
    return {"formulas": formulas, "binOps": covered, "unOps": ucovered, "hypAbs": extract_hypot_support(gtree)}


def to_lean(d):
    f = d["formulas"]
    rows = []
    for k in ("add", "sub", "rsub", "mul", "truediv", "rtruediv"):
        rows.append(f"    {k} := fun l1 r1 l2 r2 => ({f[k][0]}, {f[k][1]}),")
    for k in ("neg", "abs"):
        rows.append(f"    {k} := fun l r => ({f[k][0]}, {f[k][1]}),")
    def binrow(name, key):
        core = name.strip("_")
        refl = core.startswith("r") and core[1:] in ("add", "sub", "mul", "truediv")
        if refl:
            core = core[1:]
        if core not in ("add", "sub", "mul", "truediv"):
            raise TemplateMismatch(f"support formula for an operator outside the model: {name}")
        return f"(.{core}, {'true' if refl else 'false'}, .{key})"
    def unrow(name, key):
        core = name.strip("_")
        if core not in ("neg", "abs", "pos"):
            raise TemplateMismatch(f"support formula for an operator outside the model: {name}")
        return f"(.{core}, .{key})"
    bins = "[" + ", ".join(binrow(a, b) for a, b in d["binOps"]) + "]"
    uns = "[" + ", ".join(unrow(a, b) for a, b in d["unOps"]) + "]"
    return f"""import ScenicModel.Model.Support
namespace Scenic.Gen
open Scenic.Support

/-- the formulas of `OperatorDistribution.supportInterval` (src/scenic/core/distributions.py) -/
def supportFormulas : Formulas :=
  {{
{chr(10).join(rows)}
    hypAbs := fun l r => ({d["hypAbs"][0]}, {d["hypAbs"][1]}),
    binOps := {bins},
    unOps := {uns} }}

end Scenic.Gen
"""


if __name__ == "__main__":
    d = extract()
    print(to_lean(d))
