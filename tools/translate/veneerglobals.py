"""veneer.py (+ the `with veneer.executeIn*` sites of core/)  ->  Gen/VeneerGlobals.lean

For every top-level function of `scenic/syntax/veneer.py` the translator collects the module globals it
assigns (names declared `global`, plus in-place mutation of module-level containers such as
`runningScenarios.append`) and classifies the function by a *whitelist*:

  opener/closer   beginSimulation/endSimulation (simulation session), activate/deactivate (compilation session)
  context manager @contextmanager functions with one `yield` inside `try … finally` (what they assign before the
                  yield = writes, what they assign in the `finally` = restores: a local saved from the global
                  before = `saved`, a literal = `const`), and plain `try … finally` functions (model, instantiateSimulator)
  plain           known functions that assign a global and do not restore it

A function that assigns a tracked global and is not on the whitelist, or whose shape is not the expected
one, raises TemplateMismatch (the tie then rests on the correspondence/direct oracle at thorough budget).
It also lists the `with veneer.executeIn*(…)` blocks whose body contains a `yield` (blocks held open by a
suspended generator).
"""
import ast
import glob
import os

from translate.astutil import TemplateMismatch, expect, load
from vlib.ctx import REPO

VENEER = "src/scenic/syntax/veneer.py"
MUTATORS = {"append", "remove", "pop", "update", "clear", "add", "extend", "insert", "discard", "setdefault", "popitem"}
CLASSES = ("Point", "OrientedPoint", "Object")

# whitelist: function -> sessions in which it can run
PLAIN = {
    "finishScenarioSetup": ("sim", "compile"),
    "startScenario": ("sim",),
    "endScenario": ("sim",),
    "registerDynamicScenarioClass": ("compile",),
    "simulator": ("compile",),
    "param": ("compile",),
}
CMS = {
    "executeInRequirement": ("sim", "compile"),
    "executeInScenario": ("sim", "compile"),
    "executeInBehavior": ("sim",),
    "executeInGuard": ("sim",),
    "model": ("compile",),
    "instantiateSimulator": ("sim", "compile"),
}
SESSIONS = {"sim": ("beginSimulation", "endSimulation"), "compile": ("activate", "deactivate")}
READONLY_OK = {"param"}  # declares a global it only reads


def absval(node):
    """abstract value of an initialiser / reset expression"""
    if isinstance(node, ast.Constant):
        v = node.value
        if v is None:
            return "none"
        if v is False:
            return "false_"
        if v is True:
            return "true_"
        if v == 0 and isinstance(v, int):
            return "zero"
        return None
    if isinstance(node, (ast.List, ast.Tuple, ast.Set)) and not node.elts:
        return "empty"
    if isinstance(node, ast.Dict) and not node.keys:
        return "empty"
    if isinstance(node, ast.Call) and isinstance(node.func, ast.Name) and node.func.id in ("set", "dict", "list") and not node.args and not node.keywords:
        return "empty"
    if isinstance(node, ast.Name) and node.id == "_originalConstructibles":
        return "orig"
    return None


def own_nodes(fn):
    """nodes of the function body, not descending into nested function/class definitions"""
    todo = list(fn.body)
    while todo:
        n = todo.pop()
        yield n
        for ch in ast.iter_child_nodes(n):
            if not isinstance(ch, (ast.FunctionDef, ast.AsyncFunctionDef, ast.ClassDef, ast.Lambda)):
                todo.append(ch)


def target_names(t):
    if isinstance(t, ast.Name):
        return [t.id]
    if isinstance(t, (ast.Tuple, ast.List)):
        return [n for e in t.elts for n in target_names(e)]
    return []


class FnInfo:
    def __init__(self, fn, tracked):
        self.fn = fn
        self.name = fn.name
        self.globals = set()
        for n in own_nodes(fn):
            if isinstance(n, ast.Global):
                self.globals |= set(n.names)
        params = {a.arg for a in fn.args.args + fn.args.kwonlyargs}
        self.events = []  # (lineno, name, kind, valuenode)
        local_assigned = set()
        for n in own_nodes(fn):
            if isinstance(n, ast.Assign):
                for t in n.targets:
                    for nm in target_names(t):
                        if nm in self.globals:
                            self.events.append((n.lineno, nm, "assign", n.value))
                        else:
                            local_assigned.add(nm)
            elif isinstance(n, ast.AugAssign) and isinstance(n.target, ast.Name) and n.target.id in self.globals:
                self.events.append((n.lineno, n.target.id, "aug" + type(n.op).__name__, n.value))
        for n in own_nodes(fn):
            base = None
            if isinstance(n, ast.Call) and isinstance(n.func, ast.Attribute) and isinstance(n.func.value, ast.Name) and n.func.attr in MUTATORS:
                base, kind = n.func.value.id, "mut:" + n.func.attr
            elif isinstance(n, (ast.Assign, ast.Delete)):
                for t in n.targets:
                    if isinstance(t, ast.Subscript) and isinstance(t.value, ast.Name):
                        base, kind = t.value.id, "mut:setitem"
            if base and base in tracked and base not in params and (base in self.globals or base not in local_assigned):
                self.events.append((n.lineno, base, kind, None))
        self.events.sort(key=lambda e: e[0])

    def written(self):
        seen = []
        for _, nm, _, _ in self.events:
            if nm not in seen:
                seen.append(nm)
        return seen


def module_tracked(tree):
    """module-level `name = <literal>` assignments that some function declares global or mutates"""
    declared = set()
    for n in tree.body:
        if isinstance(n, ast.FunctionDef):
            for m in ast.walk(n):
                if isinstance(m, ast.Global):
                    declared |= set(m.names)
    init = {}
    for n in tree.body:
        if isinstance(n, ast.Assign) and len(n.targets) == 1 and isinstance(n.targets[0], ast.Name):
            init[n.targets[0].id] = n.value
    tracked = {}
    for nm in sorted(declared):
        if nm in CLASSES:
            tracked[nm] = "orig"
            continue
        expect(nm in init, f"global {nm} is declared in a function but has no module-level initialiser")
        v = absval(init[nm])
        expect(v is not None, f"module-level initialiser of {nm} is not a recognised literal: {ast.unparse(init[nm])}")
        tracked[nm] = v
    # containers that are mutated in place without a global declaration
    for nm, val in init.items():
        if nm not in tracked and absval(val) == "empty":
            tracked[nm] = "empty"
    return tracked


def cm_spec(info, tracked):
    """writes / restores of a try…finally function (generator context manager or plain)"""
    fn = info.fn
    tries = [n for n in own_nodes(fn) if isinstance(n, ast.Try) and n.finalbody]
    expect(len(tries) == 1, f"{fn.name}: expected exactly one try/finally")
    tr = tries[0]
    is_gen = any(isinstance(n, (ast.Yield, ast.YieldFrom)) for n in own_nodes(fn))
    if is_gen:
        ys = [n for st in tr.body for n in ast.walk(st) if isinstance(n, ast.Yield)]
        expect(len(ys) == 1 and sum(isinstance(n, ast.Yield) for n in own_nodes(fn)) == 1, f"{fn.name}: the single yield is not inside the try")
    fin_lines = {n.lineno for st in tr.finalbody for n in ast.walk(st) if hasattr(n, "lineno")}
    # locals holding the value of a global before it is assigned: old = G
    saved_locals = {}
    first_write = {}
    for ln, nm, kind, val in info.events:
        first_write.setdefault(nm, ln)
    for n in own_nodes(fn):
        if isinstance(n, ast.Assign) and len(n.targets) == 1 and isinstance(n.targets[0], ast.Name) and isinstance(n.value, ast.Name):
            g = n.value.id
            if g in tracked and n.targets[0].id not in info.globals and n.lineno < first_write.get(g, 10 ** 9):
                saved_locals[n.targets[0].id] = g
    writes, restores = [], []
    for ln, nm, kind, val in info.events:
        if ln in fin_lines:
            if kind != "assign":
                raise TemplateMismatch(f"{fn.name}: {nm} is mutated (not assigned) in the finally block")
            if isinstance(val, ast.Name) and saved_locals.get(val.id) == nm:
                restores.append((nm, "saved"))
            elif absval(val) is not None:
                restores.append((nm, absval(val)))
            else:
                raise TemplateMismatch(f"{fn.name}: cannot classify the restore of {nm}: {ast.unparse(val)}")
        else:
            if nm not in writes:
                writes.append(nm)
    if fn.name == "executeInRequirement":
        # currentScenario is set only if it was None and reset to None under the same flag: equivalent to `saved`
        src = ast.unparse(fn)
        expect("if currentScenario is None:\n        currentScenario = scenario\n        clearScenario = True" in src
               and "clearScenario = False" in src
               and "if clearScenario:\n            currentScenario = None" in src,
               "executeInRequirement: the conditional set/reset of currentScenario changed shape")
        restores = [(n, ("saved" if n == "currentScenario" else r)) for n, r in restores]
    return writes, restores


def closer_resets(info, tracked, opener_info, session):
    """(name, abstract value) assigned by the closer; for `deactivate` only what holds when activity returns to 0"""
    fn = info.fn
    resets = []

    def add(nm, v):
        if nm not in [r[0] for r in resets]:
            resets.append((nm, v))

    def scan(stmts, cond):
        for st in stmts:
            if isinstance(st, ast.If):
                test = ast.unparse(st.test)
                if test == "activity == 0":
                    scan(st.body, cond)            # the outermost deactivate
                    # else-branch: nested deactivate (handled as a context manager)
                elif test == "mode2D":
                    # classes are swapped only together with mode2D = True (checked on the opener)
                    scan(st.body, cond)
                else:
                    raise TemplateMismatch(f"{fn.name}: unexpected condition `{test}` around a reset")
            elif isinstance(st, ast.Assign):
                for t in st.targets:
                    names = target_names(t)
                    for nm in names:
                        if nm in info.globals:
                            v = absval(st.value)
                            expect(v is not None, f"{fn.name}: reset of {nm} to a non-literal {ast.unparse(st.value)}")
                            add(nm, v)
            elif isinstance(st, ast.AugAssign) and isinstance(st.target, ast.Name) and st.target.id in info.globals:
                nm = st.target.id
                # balanced counter: += 1 in the opener, -= 1 in the closer
                ok = (isinstance(st.op, ast.Sub) and isinstance(st.value, ast.Constant) and st.value.value == 1
                      and [k for _, n2, k, _ in opener_info.events if n2 == nm] == ["augAdd"])
                expect(ok, f"{fn.name}: {nm} is not a balanced counter")
                add(nm, tracked[nm])
            elif isinstance(st, ast.Expr) and isinstance(st.value, ast.Call) and isinstance(st.value.func, ast.Attribute) \
                    and isinstance(st.value.func.value, ast.Name) and st.value.func.value.id in tracked \
                    and st.value.func.attr in MUTATORS:
                nm, m = st.value.func.value.id, st.value.func.attr
                ok = m == "pop" and not st.value.args and [k for _, n2, k, _ in opener_info.events if n2 == nm] == ["mut:append"]
                expect(ok, f"{fn.name}: {nm}.{m} is not the inverse of the opener's mutation")
                add(nm, tracked[nm])
            elif isinstance(st, (ast.Global, ast.Assert, ast.Expr, ast.For)):
                if isinstance(st, ast.For):
                    # for modName, (namespace, sampledNS, originalNS) in sim.scene.behaviorNamespaces.items(): restore
                    s = ast.unparse(st)
                    expect("behaviorNamespaces" in s and "namespace.clear()" in s and "namespace.update(originalNS)" in s,
                           f"{fn.name}: unexpected loop")
            else:
                raise TemplateMismatch(f"{fn.name}: unexpected statement {ast.unparse(st)[:60]}")

    scan([s for s in fn.body if not (isinstance(s, ast.Expr) and isinstance(s.value, ast.Constant))], None)
    return resets


def check_mode2d_pairing(info):
    """in an opener the classes are swapped only in the block that sets mode2D = True"""
    for n in own_nodes(info.fn):
        if isinstance(n, ast.If):
            names = [nm for st in n.body if isinstance(st, ast.Assign) for t in st.targets for nm in target_names(t)]
            if any(c in names for c in CLASSES):
                expect("mode2D" in names, f"{info.name}: classes swapped outside the mode2D block")
                return
    assigned = info.written()
    expect(not any(c in assigned for c in CLASSES), f"{info.name}: classes swapped unconditionally")


def suspended_blocks():
    """`with veneer.executeIn*(…)` blocks (anywhere under src/scenic/core and syntax) whose body yields"""
    out = []
    files = sorted(glob.glob(os.path.join(REPO, "src/scenic/core/**/*.py"), recursive=True)) + \
        sorted(glob.glob(os.path.join(REPO, "src/scenic/syntax/*.py")))
    for path in files:
        try:
            src = open(path).read()
        except OSError:
            continue
        if "executeIn" not in src:
            continue
        try:
            tree = ast.parse(src)
        except SyntaxError as e:
            raise TemplateMismatch(f"cannot parse {path}: {e}")
        for fn in ast.walk(tree):
            if not isinstance(fn, (ast.FunctionDef, ast.AsyncFunctionDef)):
                continue
            for n in own_nodes(fn):
                if isinstance(n, ast.With):
                    cms = []
                    for it in n.items:
                        c = it.context_expr
                        if isinstance(c, ast.Call) and isinstance(c.func, ast.Attribute) and c.func.attr.startswith("executeIn"):
                            cms.append(c.func.attr)
                    if not cms:
                        continue
                    yields = False
                    todo = list(n.body)
                    while todo:
                        m = todo.pop()
                        if isinstance(m, (ast.Yield, ast.YieldFrom)):
                            yields = True
                        for ch in ast.iter_child_nodes(m):
                            if not isinstance(ch, (ast.FunctionDef, ast.AsyncFunctionDef, ast.ClassDef, ast.Lambda)):
                                todo.append(ch)
                    if yields:
                        for c in cms:
                            out.append((c, os.path.relpath(path, REPO) + ":" + fn.name))
    return out


def extract():
    _, tree = load(VENEER)
    tracked = module_tracked(tree)
    infos = {}
    for n in tree.body:
        if isinstance(n, ast.FunctionDef):
            fi = FnInfo(n, tracked)
            if fi.events or fi.globals:
                infos[n.name] = fi
    known = set(PLAIN) | set(CMS) | {f for pair in SESSIONS.values() for f in pair}
    for name, fi in infos.items():
        if name in known:
            continue
        if fi.events:
            raise TemplateMismatch(f"veneer.{name} assigns {fi.written()} and is not on the whitelist")
    for name in known:
        expect(name in infos, f"veneer.{name} not found or no longer touches a global")
    for name in PLAIN:
        if not infos[name].events:
            expect(name in READONLY_OK, f"veneer.{name} no longer assigns a global")
    out = {"initial": sorted(tracked.items()), "sessions": {}}
    cm_specs = {}
    for name in CMS:
        cm_specs[name] = cm_spec(infos[name], tracked)
    for sess, (op, cl) in SESSIONS.items():
        oi, ci = infos[op], infos[cl]
        check_mode2d_pairing(oi)
        open_writes = oi.written()
        resets = closer_resets(ci, tracked, oi, sess)
        plains = [(f, infos[f].written()) for f, ss in PLAIN.items() if sess in ss and infos[f].written()]
        cms = [(f, cm_specs[f][0], cm_specs[f][1]) for f, ss in CMS.items() if sess in ss]
        if sess == "compile":
            # a nested activate/deactivate pair (a Scenic module importing another) behaves like a context manager
            nested_restores = []
            src = ast.unparse(ci.fn)
            expect("else:\n        currentScenario = scenarioStack[-1]" in src, "deactivate: nested branch changed")
            for nm, v in resets:
                if nm in ("activity", "scenarioStack"):
                    nested_restores.append((nm, "saved"))
            nested_restores.append(("currentScenario", "saved"))
            nested_restores.append(("scenarios", "empty"))
            expect(("scenarios", "empty") in resets, "deactivate no longer resets `scenarios`")
            cms.append(("activateNested", open_writes, nested_restores))
        out["sessions"][sess] = {"openWrites": open_writes, "closeResets": resets, "plains": plains, "cms": cms}
    # behaviour-namespace rebinding is symmetric
    bs = ast.unparse(infos["beginSimulation"].fn)
    expect("namespace.clear()" in bs and "namespace.update(sampledNS)" in bs, "beginSimulation: behaviour namespaces")
    out["suspended"] = suspended_blocks()
    return out


def _lv(v):
    return "." + v


def _strs(xs):
    return "[" + ", ".join(f'"{x}"' for x in xs) + "]"


def to_lean(d):
    lines = ["import ScenicModel.Model.Veneer", "namespace Scenic.Gen", "open Scenic.Veneer", ""]
    lines.append("/-- module-level initial values of the interpreter state of `scenic.syntax.veneer` -/")
    lines.append("def veneerInitial : List (String × GVal) :=\n  [" + ",\n   ".join(f'("{n}", {_lv(v)})' for n, v in d["initial"]) + "]")
    lines.append("")
    lines.append("/-- `with veneer.executeIn*(…)` blocks whose body yields (held open by a suspended generator) -/")
    lines.append("def veneerSuspended : List String := " + _strs(sorted({c for c, _ in d["suspended"]})))
    for c, where in d["suspended"]:
        lines.append(f"-- {c} in {where}")
    for sess, s in d["sessions"].items():
        lines.append("")
        cms = []
        for name, writes, restores in s["cms"]:
            rs = ", ".join(f'("{n}", ' + ("Restore.saved" if r == "saved" else f"Restore.const {_lv(r)}") + ")" for n, r in restores)
            cms.append(f'{{ name := "{name}", writes := {_strs(writes)}, restores := [{rs}] }}')
        lines.append(f"def {sess}Tables : Tables :=")
        lines.append("  { initial := veneerInitial,")
        lines.append(f"    openWrites := {_strs(s['openWrites'])},")
        lines.append("    closeResets := [" + ", ".join(f'("{n}", {_lv(v)})' for n, v in s["closeResets"]) + "],")
        lines.append("    plains := [" + ", ".join(f'("{f}", {_strs(ws)})' for f, ws in s["plains"]) + "],")
        lines.append("    cms := [" + ",\n            ".join(cms) + "],")
        lines.append("    suspended := veneerSuspended }")
    lines.append("")
    lines.append("end Scenic.Gen")
    return "\n".join(lines) + "\n"
