"""simulators.py Simulation.valuesHaveDiverged -> Gen/Divergence.lean (`divergenceUsesAbs`)."""
import ast

from translate.astutil import TemplateMismatch, body_nodoc, expect, get_def, is_name, load

REL = "src/scenic/core/simulators.py"


def _is_diff(node):
    return (isinstance(node, ast.BinOp) and isinstance(node.op, ast.Sub)
            and is_name(node.left, "actual") and is_name(node.right, "expected"))


def extract():
    src, tree = load(REL)
    fn = get_def(tree, "Simulation.valuesHaveDiverged", REL)
    body = body_nodoc(fn)
    # diff = None; if isinstance(expected, Real): diff = <E> elif isinstance(expected, Vector): diff = (a-e).norm()
    # if diff: return diff > self.divergenceTolerance else: return actual != expected
    expect(len(body) == 3, "valuesHaveDiverged: body shape changed")
    first = body[1]
    expect(isinstance(first, ast.If) and isinstance(first.body[0], ast.Assign) and is_name(first.body[0].targets[0], "diff"),
           "scalar branch")
    e = first.body[0].value
    if _is_diff(e):
        use_abs = False
    elif isinstance(e, ast.Call) and is_name(e.func, "abs") and len(e.args) == 1 and _is_diff(e.args[0]):
        use_abs = True
    else:
        raise TemplateMismatch("scalar difference is neither `actual - expected` nor `abs(actual - expected)`")
    vec = first.orelse[0]
    expect(isinstance(vec, ast.If) and isinstance(vec.body[0].value, ast.Call)
           and isinstance(vec.body[0].value.func, ast.Attribute) and vec.body[0].value.func.attr == "norm"
           and _is_diff(vec.body[0].value.func.value), "vector branch is not (actual - expected).norm()")
    last = body[2]
    expect(isinstance(last, ast.If) and is_name(last.test, "diff"), "if diff:")
    ret = last.body[0]
    expect(isinstance(ret, ast.Return) and isinstance(ret.value, ast.Compare) and is_name(ret.value.left, "diff")
           and isinstance(ret.value.ops[0], ast.Gt)
           and isinstance(ret.value.comparators[0], ast.Attribute) and ret.value.comparators[0].attr == "divergenceTolerance",
           "return diff > self.divergenceTolerance")
    ret2 = last.orelse[0]
    expect(isinstance(ret2, ast.Return) and isinstance(ret2.value, ast.Compare) and isinstance(ret2.value.ops[0], ast.NotEq),
           "return actual != expected")
    return {"useAbs": use_abs}


def to_lean(d):
    return f"""namespace Scenic.Gen
/-- the scalar branch of `Simulation.valuesHaveDiverged` computes `abs(actual - expected)` -/
def divergenceUsesAbs : Bool := {str(d['useAbs']).lower()}
end Scenic.Gen
"""
