"""regions.py / object_types.py overlap & containment procedures -> Gen/Solid.lean  (property C04).

Template extraction with a small symbolic interpreter: the anchored method bodies are walked statement by
statement; local assignments are resolved symbolically (so renaming a local or reordering independent
assignments does not matter), and every `if <cond>: return <value>` becomes an *exit* whose comparator,
operands, connective and returned constant are emitted as data.  The skeleton of each procedure (which
exits exist, in which order, under which guards) must match the decision tree of `Model/Solid.lean`;
anything else raises TemplateMismatch (never guess).

Extracted (see `to_lean`):
  MeshVolumeRegion.intersects(MeshVolumeRegion)   -> intersectCfg  (comparators, operands, connectives, constants)
  MeshVolumeRegion.containsObject                 -> containCfg
  PolygonalFootprintRegion.containsObject         -> footCfg
  Object.intersects / minimumDistanceTo / _isPlanarBox -> objCfg, distCfg, planarCfg
  MeshVolumeRegion._circumradius                  -> fallbackCenter (origin | position), shapeScaleIsMax
"""
import ast
from fractions import Fraction

from translate.astutil import TemplateMismatch, body_nodoc, expect, get_def, load

REGIONS = "src/scenic/core/regions.py"
OBJECTS = "src/scenic/core/object_types.py"


# --------------------------------------------------------------------------- symbolic values
class Sym:
    def __init__(self, kind, lean=None, tag=None, items=None, data=None):
        self.kind = kind      # num | bool | vec | tuple | opaque
        self.lean = lean      # Lean text (num / atomic bool)
        self.tag = tag        # identity for vec / opaque values
        self.items = items    # tuple elements
        self.data = data      # structured bool: ('cmp', l, op, r) | ('conn', op, [..]) | ('not', b) | ('atom', name)

    def __repr__(self):
        return f"Sym({self.kind},{self.lean or self.tag or self.data})"


def num(lean):
    return Sym("num", lean=lean)


def atom(name):
    return Sym("bool", lean=name, data=("atom", name))


def opaque(tag):
    return Sym("opaque", tag=tag)


CMP = {ast.Lt: "lt", ast.LtE: "le", ast.Gt: "gt", ast.GtE: "ge", ast.Eq: "eq", ast.NotEq: "ne"}


def dotted(node):
    parts = []
    while isinstance(node, ast.Attribute):
        parts.append(node.attr)
        node = node.value
    if isinstance(node, ast.Name):
        parts.append(node.id)
        return ".".join(reversed(parts))
    return None


def lean_rat(x):
    f = Fraction(x)
    s = f"{f.numerator}" if f.denominator == 1 else f"{f.numerator} / {f.denominator}"
    return f"(({s}) : Rat)" if f < 0 or f.denominator != 1 else f"({s} : Rat)"


class Interp:
    """attrs: dotted Python expression -> Sym;  norms: frozenset({tagA, tagB}) -> Sym(num);
    calls: handler(interp, node, env) -> Sym or None"""

    def __init__(self, attrs, norms=None, calls=None, what="?"):
        self.attrs, self.norms, self.calls, self.what = attrs, norms or {}, calls or [], what

    def fail(self, node, why):
        src = ast.unparse(node) if isinstance(node, ast.AST) else str(node)
        raise TemplateMismatch(f"{self.what}: {why}: `{src[:90]}`")

    def ev(self, node, env):
        if isinstance(node, ast.Constant):
            if isinstance(node.value, bool):
                return Sym("bool", lean=str(node.value).lower(), data=("const", node.value))
            if isinstance(node.value, (int, float)):
                return Sym("num", lean=lean_rat(node.value), data=("const", Fraction(node.value)))
            self.fail(node, "unexpected constant")
        if isinstance(node, ast.Name):
            if node.id in env:
                return env[node.id]
            if node.id in self.attrs:
                return self.attrs[node.id]
            self.fail(node, "unknown name")
        if isinstance(node, ast.Attribute):
            d = dotted(node)
            if d and d in self.attrs:
                return self.attrs[d]
            if d:  # attribute of a local alias, e.g. bounds = self.mesh.bounds
                head, _, rest = d.partition(".")
                if head in env and env[head].kind == "opaque":
                    full = env[head].tag + "." + rest
                    if full in self.attrs:
                        return self.attrs[full]
                    return opaque(full)
                return opaque(d)
            self.fail(node, "unknown attribute")
        if isinstance(node, ast.Subscript):
            base = self.ev(node.value, env)
            if base.kind == "tuple" and isinstance(node.slice, ast.Constant) and isinstance(node.slice.value, int):
                return base.items[node.slice.value]
            if base.kind == "opaque":
                return opaque(base.tag + "[" + ast.unparse(node.slice) + "]")
            self.fail(node, "unsupported subscript")
        if isinstance(node, ast.UnaryOp):
            v = self.ev(node.operand, env)
            if isinstance(node.op, ast.Not) and v.kind == "bool":
                return Sym("bool", data=("not", v))
            if isinstance(node.op, ast.USub) and v.kind == "num":
                return num(f"(-{v.lean})")
            self.fail(node, "unsupported unary operator")
        if isinstance(node, ast.BinOp):
            a, b = self.ev(node.left, env), self.ev(node.right, env)
            if a.kind == "num" and b.kind == "num":
                op = {ast.Add: "+", ast.Sub: "-", ast.Mult: "*", ast.Div: "/"}.get(type(node.op))
                if op is None:
                    self.fail(node, "unsupported arithmetic operator")
                return num(f"({a.lean} {op} {b.lean})")
            if a.kind == "vec" and b.kind == "vec" and isinstance(node.op, ast.Sub):
                return Sym("vec", tag=("diff", a.tag, b.tag))
            self.fail(node, "unsupported operands")
        if isinstance(node, ast.Compare):
            if len(node.ops) != 1:
                self.fail(node, "chained comparison")
            a, b = self.ev(node.left, env), self.ev(node.comparators[0], env)
            op = CMP.get(type(node.ops[0]))
            if op is None or a.kind != "num" or b.kind != "num":
                self.fail(node, "unsupported comparison")
            return Sym("bool", data=("cmp", a, op, b))
        if isinstance(node, ast.BoolOp):
            vals = [self.ev(v, env) for v in node.values]
            if any(v.kind != "bool" for v in vals):
                self.fail(node, "boolean connective over non-booleans")
            return Sym("bool", data=("conn", "and" if isinstance(node.op, ast.And) else "or", vals))
        if isinstance(node, ast.Tuple):
            return Sym("tuple", items=[self.ev(e, env) for e in node.elts])
        if isinstance(node, ast.NamedExpr):
            v = self.ev(node.value, env)
            env[node.target.id] = v
            return v
        if isinstance(node, ast.Call):
            d = dotted(node.func)
            if d in ("numpy.linalg.norm", "np.linalg.norm") and len(node.args) == 1 and not node.keywords:
                v = self.ev(node.args[0], env)
                if v.kind == "vec" and isinstance(v.tag, tuple) and v.tag[0] == "diff":
                    key = frozenset(v.tag[1:])
                    if key in self.norms and len(key) == 2:
                        return self.norms[key]
                self.fail(node, "norm of an unexpected vector")
            if d == "abs" and len(node.args) == 1:
                v = self.ev(node.args[0], env)
                if v.kind == "num":
                    return num(f"(absQ {v.lean})")
                self.fail(node, "abs of non-number")
            for h in self.calls:
                r = h(self, node, env)
                if r is not None:
                    return r
            self.fail(node, "unexpected call")
        self.fail(node, "unsupported expression")

    # ---- statements -> events
    def walk(self, stmts, env):
        """events: ('exit', cond, ret) | ('ifelse', cond, then_events, else_events) | ('return', sym)"""
        events = []
        for st in stmts:
            if isinstance(st, ast.Expr) and isinstance(st.value, ast.Constant) and isinstance(st.value.value, str):
                continue
            if isinstance(st, ast.Assign):
                expect(len(st.targets) == 1, f"{self.what}: multiple assignment targets")
                tgt, val = st.targets[0], self.ev(st.value, env)
                if isinstance(tgt, ast.Name):
                    env[tgt.id] = val
                elif isinstance(tgt, ast.Tuple) and val.kind == "tuple" and len(tgt.elts) == len(val.items):
                    for t, v in zip(tgt.elts, val.items):
                        expect(isinstance(t, ast.Name), f"{self.what}: tuple target")
                        env[t.id] = v
                else:
                    self.fail(st, "unsupported assignment")
                continue
            if isinstance(st, ast.Return):
                expect(st.value is not None, f"{self.what}: bare return")
                events.append(("return", self.ev(st.value, env)))
                continue
            if isinstance(st, ast.If):
                cond = self.ev(st.test, env)
                if cond.kind != "bool":
                    self.fail(st.test, "condition is not boolean")
                if not st.orelse and len(st.body) == 1 and isinstance(st.body[0], ast.Return):
                    events.append(("exit", cond, self.ev(st.body[0].value, env)))
                    continue
                env_t, env_e = dict(env), dict(env)
                ev_t = self.walk(st.body, env_t)
                ev_e = self.walk(st.orelse, env_e)
                # names assigned in both/either branch stay visible afterwards (Python scoping) when they agree
                for k in set(env_t) | set(env_e):
                    if k not in env:
                        a, b = env_t.get(k), env_e.get(k)
                        env[k] = a if b is None else b if a is None else Sym("phi", items=[a, b], data=cond)
                    elif env_t.get(k) is not env[k] or env_e.get(k) is not env[k]:
                        env[k] = Sym("phi", items=[env_t.get(k), env_e.get(k)], data=cond)
                events.append(("ifelse", cond, ev_t, ev_e))
                continue
            self.fail(st, "unsupported statement")
        return events


# --------------------------------------------------------------------------- rendering helpers
def cmp_parts(sym, what):
    expect(sym.kind == "bool" and sym.data and sym.data[0] == "cmp", f"{what}: expected a numeric comparison")
    _, a, op, b = sym.data
    return a.lean, op, b.lean


def conn_atoms(sym, names, what):
    """`x <conn> y` over exactly the atoms `names` (any order) -> conn"""
    expect(sym.kind == "bool" and sym.data and sym.data[0] == "conn" and len(sym.data[2]) == 2,
           f"{what}: expected a binary boolean connective")
    got = []
    for v in sym.data[2]:
        expect(v.data and v.data[0] == "atom", f"{what}: operand is not a plain flag")
        got.append(v.data[1])
    expect(sorted(got) == sorted(names), f"{what}: operands are {got}, expected {names}")
    return sym.data[1]


def const_bool(sym, what):
    expect(sym.kind == "bool" and sym.data and sym.data[0] == "const", f"{what}: returned value is not a boolean literal")
    return sym.data[1]


def is_atom(sym, name):
    return sym.kind == "bool" and sym.data and sym.data[0] == "atom" and sym.data[1] == name


def is_not_atom(sym, name):
    return sym.kind == "bool" and sym.data and sym.data[0] == "not" and is_atom(sym.data[1], name)


def lb(b):
    return "true" if b else "false"


# --------------------------------------------------------------------------- MeshVolumeRegion.intersects
def _mv_branch(fn, what):
    """body of `if isinstance(other, MeshVolumeRegion):` inside the method"""
    for st in body_nodoc(fn):
        if (isinstance(st, ast.If) and isinstance(st.test, ast.Call) and dotted(st.test.func) == "isinstance"
                and len(st.test.args) == 2 and dotted(st.test.args[0]) == "other"
                and dotted(st.test.args[1]) == "MeshVolumeRegion"):
            return st.body
    raise TemplateMismatch(f"{what}: no `if isinstance(other, MeshVolumeRegion):` branch")


def _bbox_all(interp, node, env):
    """all(<generator>) where the generator is the 3-dimensional closed-interval overlap test"""
    if dotted(node.func) != "all" or len(node.args) != 1:
        return None
    g = node.args[0]
    if isinstance(g, ast.Name) and g.id in env:
        return env[g.id] if env[g.id].kind == "bool" else None
    return None


def _bbox_gen(interp, node, env_self="self", env_other="other"):
    """(a[0,dim] <= b[1,dim]) and (b[0,dim] <= a[1,dim]) for dim in range(3), a/b = bounds of the two meshes"""
    expect(isinstance(node, (ast.GeneratorExp, ast.ListComp)) and len(node.generators) == 1, "bbox test: not a comprehension")
    gen = node.generators[0]
    expect(isinstance(gen.target, ast.Name) and isinstance(gen.iter, ast.Call) and dotted(gen.iter.func) == "range"
           and len(gen.iter.args) == 1 and isinstance(gen.iter.args[0], ast.Constant), "bbox test: iteration is not range(n)")
    ndim = gen.iter.args[0].value
    dim = gen.target.id
    e = node.elt
    expect(isinstance(e, ast.BoolOp) and isinstance(e.op, ast.And) and len(e.values) == 2, "bbox test: not `a and b`")
    sides = []
    for c in e.values:
        expect(isinstance(c, ast.Compare) and len(c.ops) == 1 and isinstance(c.ops[0], ast.LtE), "bbox test: comparison is not `<=`")
        pair = []
        for x in (c.left, c.comparators[0]):
            expect(isinstance(x, ast.Subscript) and isinstance(x.slice, ast.Tuple) and len(x.slice.elts) == 2
                   and isinstance(x.slice.elts[0], ast.Constant) and isinstance(x.slice.elts[1], ast.Name)
                   and x.slice.elts[1].id == dim, "bbox test: operand is not bounds[k, dim]")
            pair.append((x.value, x.slice.elts[0].value))
        expect(pair[0][1] == 0 and pair[1][1] == 1, "bbox test: must compare a lower bound with an upper bound")
        sides.append((pair[0][0], pair[1][0]))
    return ndim, sides


def extract_intersects():
    src, tree = load(REGIONS)
    fn = get_def(tree, "MeshVolumeRegion.intersects", REGIONS)
    what = "MeshVolumeRegion.intersects"
    body = _mv_branch(fn, what)
    attrs = {
        "self.position": Sym("vec", tag="posS"), "other.position": Sym("vec", tag="posO"),
        "self._interiorPoint": Sym("vec", tag="ipS"), "other._interiorPoint": Sym("vec", tag="ipO"),
        "self._circumradius": num("o.circS"), "other._circumradius": num("o.circO"),
        "self._interiorPointRadii": Sym("tuple", items=[num("o.inS"), num("o.pcircS")]),
        "other._interiorPointRadii": Sym("tuple", items=[num("o.inO"), num("o.pcircO")]),
        "self._scaledShape": atom("scaledS"), "other._scaledShape": atom("scaledO"),
        "self.isConvex": atom("convexS"), "other.isConvex": atom("convexO"),
        "self._bodyCount": num("BODIES_S"), "other._bodyCount": num("BODIES_O"),
        "self.mesh.bounds": opaque("boundsS"), "other.mesh.bounds": opaque("boundsO"),
        "self._fclData": opaque("fclS"), "other._fclData": opaque("fclO"),
        "self": opaque("self"), "other": opaque("other"),
    }
    norms = {frozenset(("posS", "posO")): num("o.centerDist"), frozenset(("ipS", "ipO")): num("o.pointDist")}

    def calls(interp, node, env):
        d = dotted(node.func)
        if d == "fcl.CollisionObject" and len(node.args) == 1 and isinstance(node.args[0], ast.Starred):
            v = interp.ev(node.args[0].value, env)
            if v.kind == "opaque" and v.tag in ("fclS", "fclO"):
                return opaque("obj:" + v.tag)
        if d == "fcl.collide" and len(node.args) == 2 and not node.keywords:
            a, b = (interp.ev(x, env) for x in node.args)
            if {a.tag, b.tag} == {"obj:fclS", "obj:fclO"}:
                return atom("collide")
        if d == "self._containsPointExact" and len(node.args) == 1:
            v = interp.ev(node.args[0], env)
            if v.kind == "vec" and v.tag == "ipO":
                return atom("sHasO")
        if d == "other._containsPointExact" and len(node.args) == 1:
            v = interp.ev(node.args[0], env)
            if v.kind == "vec" and v.tag == "ipS":
                return atom("oHasS")
        if d == "isinstance" and len(node.args) == 2 and dotted(node.args[1]) == "EmptyRegion":
            c = node.args[0]
            if (isinstance(c, ast.Call) and dotted(c.func) in ("self.intersect", "other.intersect") and len(c.args) == 1
                    and {dotted(c.func).split(".")[0], dotted(c.args[0])} == {"self", "other"}):
                return atom("boolEmpty")
        if d == "all" and len(node.args) == 1:
            g = node.args[0]
            if isinstance(g, ast.Name) and g.id in env and env[g.id].kind == "bool":
                return env[g.id]
            if isinstance(g, (ast.GeneratorExp, ast.ListComp)):
                return _bbox_sym(interp, g, env)
        return None

    def _bbox_sym(interp, g, env):
        ndim, sides = _bbox_gen(interp, g)
        expect(ndim == 3, f"{what}: bounding boxes compared in {ndim} dimensions")
        tags = []
        for lo, hi in sides:
            a, b = interp.ev(lo, env), interp.ev(hi, env)
            tags.append((a.tag, b.tag))
        expect(sorted(tags) == [("boundsO", "boundsS"), ("boundsS", "boundsO")], f"{what}: bbox test does not compare both ways")
        return atom("bbOverlap")

    class I2(Interp):
        def ev(self, node, env):
            if isinstance(node, (ast.GeneratorExp, ast.ListComp)):
                return _bbox_sym(self, node, env)
            return super().ev(node, env)

    it = I2(attrs, norms, [calls], what)
    ev = it.walk(body, {})
    # skeleton: exit(p1) ifelse(guard,[exit in, exit circ],[exit bb]) exit(hit) exit(convex) exit(bodies -> return) return
    kinds = [e[0] for e in ev]
    expect(kinds == ["exit", "ifelse", "exit", "exit", "ifelse", "return"] or kinds == ["exit", "ifelse", "exit", "exit", "exit", "return"],
           f"{what}: pass skeleton changed: {kinds}")
    d = {}
    l, op, r = cmp_parts(ev[0][1], what + " pass 1")
    d["p1"] = (l, op, r, const_bool(ev[0][2], what + " pass 1"))
    _, guard, th, el = ev[1]
    d["p2Guard"] = conn_atoms(guard, ["scaledS", "scaledO"], what + " pass 2 guard")
    expect([e[0] for e in th] == ["exit", "exit"] and [e[0] for e in el] == ["exit"], f"{what}: pass 2 skeleton changed")
    l, op, r = cmp_parts(th[0][1], what + " pass 2A inradius")
    d["p2aIn"] = (l, op, r, const_bool(th[0][2], what + " pass 2A"))
    l, op, r = cmp_parts(th[1][1], what + " pass 2A circumradius")
    d["p2aCirc"] = (l, op, r, const_bool(th[1][2], what + " pass 2A"))
    expect(is_not_atom(el[0][1], "bbOverlap"), f"{what}: pass 2B condition is not `not bb_overlap`")
    d["p2bRet"] = const_bool(el[0][2], what + " pass 2B")
    expect(is_atom(ev[2][1], "collide"), f"{what}: pass 3 condition is not the FCL collision flag")
    d["p3HitRet"] = const_bool(ev[2][2], what + " pass 3")
    d["p3Convex"] = conn_atoms(ev[3][1], ["convexS", "convexO"], what + " pass 3 convex guard")
    expect(is_atom(ev[3][2], "collide"), f"{what}: convex shortcut does not return the collision flag")
    # pass 4: `if A == 1 and B == 1: overlap = x or y; return overlap`
    p4 = ev[4]
    if p4[0] == "ifelse":
        expect([e[0] for e in p4[2]] == ["return"] and p4[3] == [], f"{what}: pass 4 skeleton changed")
        cond, ret = p4[1], p4[2][0][1]
    else:
        cond, ret = p4[1], p4[2]
    expect(cond.data and cond.data[0] == "conn" and len(cond.data[2]) == 2, f"{what}: pass 4 guard is not binary")
    bodies, who = set(), []
    for c in cond.data[2]:
        expect(c.data and c.data[0] == "cmp" and c.data[2] == "eq", f"{what}: pass 4 guard does not test `== n`")
        a, b = c.data[1], c.data[3]
        if a.lean in ("BODIES_S", "BODIES_O"):
            who.append(a.lean); k = b
        else:
            who.append(b.lean); k = a
        expect(k.data and k.data[0] == "const" and k.data[1].denominator == 1, f"{what}: body count is not an integer literal")
        bodies.add(int(k.data[1]))
    expect(sorted(who) == ["BODIES_O", "BODIES_S"] and len(bodies) == 1, f"{what}: pass 4 guard operands changed")
    d["p4Bodies"] = bodies.pop()
    d["p4Guard"] = cond.data[1]
    d["p4Conn"] = conn_atoms(ret, ["sHasO", "oHasS"], what + " pass 4 overlap")
    fin = ev[5][1]
    if is_not_atom(fin, "boolEmpty"):
        d["p5Negate"] = True
    elif is_atom(fin, "boolEmpty"):
        d["p5Negate"] = False
    else:
        raise TemplateMismatch(f"{what}: pass 5 is not [not] isinstance(self.intersect(other), EmptyRegion)")
    return d


# --------------------------------------------------------------------------- MeshVolumeRegion.containsObject
def extract_contains():
    src, tree = load(REGIONS)
    fn = get_def(tree, "MeshVolumeRegion.containsObject", REGIONS)
    what = "MeshVolumeRegion.containsObject"
    attrs = {
        "self.isConvex": atom("convex"),
        "self.mesh": opaque("meshS"), "self.mesh.bounds": opaque("boundsS"),
        "obj.occupiedSpace.mesh.bounds": opaque("boundsO"),
        "obj.occupiedSpace.mesh": opaque("meshO"),
        "obj.occupiedSpace.mesh.vertices": opaque("vertsO"),
        "self.mesh.vertices": opaque("vertsS"),
        "obj.boundingBox.mesh.vertices": opaque("cornersO"),
        "obj.position": Sym("vec", tag="objPos"),
        "obj.occupiedSpace.num_samples": opaque("nsO"), "self.num_samples": opaque("nsS"),
        "self.mesh.bounding_box.center_mass": opaque("comS"),
        "self": opaque("self"), "obj": opaque("obj"), "obj.occupiedSpace": opaque("spaceO"),
    }

    def bbox_sym(interp, g, env):
        ndim, sides = _bbox_gen(interp, g)
        expect(ndim == 3, f"{what}: bounding boxes compared in {ndim} dimensions")
        tags = [(interp.ev(lo, env).tag, interp.ev(hi, env).tag) for lo, hi in sides]
        expect(sorted(tags) == [("boundsO", "boundsS"), ("boundsS", "boundsO")], f"{what}: bbox test does not compare both ways")
        return atom("bbOverlap")

    def calls(interp, node, env):
        d = dotted(node.func)
        args = node.args
        if d == "all" and len(args) == 1:
            v = interp.ev(args[0], env)
            if v.kind == "bool":
                return v
        if d == "trimesh.proximity.ProximityQuery" and len(args) == 1 and interp.ev(args[0], env).tag == "meshS":
            return opaque("pqS")
        if d and d.endswith(".signed_distance") and len(args) == 1:
            base = interp.ev(node.func.value, env)
            if base.tag == "pqS":
                a = args[0]
                if isinstance(a, ast.List) and len(a.elts) == 1:
                    v = interp.ev(a.elts[0], env)
                    if v.tag == "cand":
                        return Sym("tuple", items=[num("o.sdCand")])
                else:
                    v = interp.ev(a, env)
                    if v.tag == "cornersO":
                        return opaque("sdCorners")
                    if v.tag == "vertsO":
                        return opaque("sdVerts")
        if d == "numpy.all" and len(args) == 1:
            c = args[0]
            if isinstance(c, ast.Compare) and len(c.ops) == 1 and isinstance(c.comparators[0], ast.Constant):
                v = interp.ev(c.left, env)
                op = CMP.get(type(c.ops[0]))
                thr = Fraction(c.comparators[0].value)
                if v.tag in ("sdCorners", "sdVerts") and op:
                    return Sym("bool", data=("allcmp", v.tag, op, thr))
        if d == "obj.containsPoint" and len(args) == 1 and interp.ev(args[0], env).tag == "objPos":
            return atom("objHasPos")
        if d == "self.containsPoint" and len(args) == 1:
            a = args[0]
            v = interp.ev(a, env)
            if v.tag == "cand":
                return atom("regionHasCand")
            if v.tag == "comVec":
                return atom("regHasCom")
        if d == "Vector" and len(args) == 1 and isinstance(args[0], ast.Starred):
            v = interp.ev(args[0].value, env)
            if v.tag == "comS":
                return Sym("vec", tag="comVec")
            if v.tag and v.tag.startswith("samples"):
                return Sym("vec", tag="sample:" + v.tag)
        if d == "trimesh.sample.volume_mesh" and len(args) == 2:
            a, b = interp.ev(args[0], env), interp.ev(args[1], env)
            if (a.tag, b.tag) == ("meshO", "nsO"):
                return opaque("samplesO")
            if (a.tag, b.tag) == ("meshS", "nsS"):
                return opaque("samplesS")
        if d == "len" and len(args) == 1:
            v = interp.ev(args[0], env)
            if v.tag in ("samplesO", "samplesS"):
                return num("LEN_" + v.tag)
        if d == "numpy.max" and len(args) == 1:
            c = args[0]
            if isinstance(c, ast.Call) and dotted(c.func) == "numpy.linalg.norm" and len(c.args) == 1 \
                    and [k.arg for k in c.keywords] == ["axis"] and isinstance(c.keywords[0].value, ast.Constant) \
                    and c.keywords[0].value.value == 1 and isinstance(c.args[0], ast.BinOp) and isinstance(c.args[0].op, ast.Sub):
                a, b = interp.ev(c.args[0].left, env), interp.ev(c.args[0].right, env)
                key = (a.tag, b.tag)
                table = {("vertsO", "cand"): "o.objCirc", ("vertsS", "regcand"): "o.regCirc", ("vertsO", "regcand"): "o.objMaxDist"}
                if key in table:
                    return num(table[key])
        if d == "isinstance" and len(args) == 2 and dotted(args[1]) == "EmptyRegion":
            v = interp.ev(args[0], env)
            if v.tag == "diff":
                return atom("diffEmpty")
        if d == "obj.occupiedSpace.difference" and len(args) == 1 and dotted(args[0]) == "self":
            return opaque("diff")
        return None

    class I2(Interp):
        def ev(self, node, env):
            if isinstance(node, (ast.GeneratorExp, ast.ListComp)):
                return bbox_sym(self, node, env)
            if isinstance(node, ast.Constant) and node.value is None:
                return opaque("None")
            if isinstance(node, ast.Compare) and len(node.ops) == 1 and isinstance(node.ops[0], (ast.IsNot, ast.Is)):
                v = self.ev(node.left, env)
                r = node.comparators[0]
                if isinstance(r, ast.Constant) and r.value is None and v.kind in ("phi", "vec", "opaque"):
                    return Sym("bool", data=("notnone" if isinstance(node.ops[0], ast.IsNot) else "isnone", v))
            return super().ev(node, env)

    it = I2(attrs, {}, [calls], what)
    body = body_nodoc(fn)
    env = {}
    d = {}
    # ---- pass 1 and 2 (everything up to and including `if self.isConvex:`)
    idx = None
    for i, st in enumerate(body):
        if isinstance(st, ast.If) and dotted(st.test) == "self.isConvex":
            idx = i
            break
    expect(idx is not None, f"{what}: no `if self.isConvex:` block")
    ev1 = it.walk(body[:idx], env)
    expect([e[0] for e in ev1] == ["exit"] and is_not_atom(ev1[0][1], "bbOverlap"), f"{what}: pass 1 skeleton changed")
    d["p1Ret"] = const_bool(ev1[0][2], what + " pass 1")
    ev2 = it.walk(body[idx].body, dict(env))
    expect(not body[idx].orelse and [e[0] for e in ev2] == ["exit", "return"], f"{what}: pass 2 skeleton changed")
    c = ev2[0][1]
    expect(c.data and c.data[0] == "allcmp" and c.data[1] == "sdCorners", f"{what}: pass 2 corner test changed")
    d["p2Corner"] = (c.data[2], c.data[3], const_bool(ev2[0][2], what + " pass 2"))
    c = ev2[1][1]
    expect(c.data and c.data[0] == "allcmp" and c.data[1] == "sdVerts", f"{what}: pass 2 vertex test changed")
    d["p2Vert"] = (c.data[2], c.data[3])
    # ---- pass 3: candidate selection if/elif/else, then `if cand is not None:` block
    rest = body[idx + 1:]
    expect(len(rest) == 6 and all(isinstance(rest[i], ast.If) for i in (0, 1, 2, 3)) and isinstance(rest[5], ast.Return),
           f"{what}: passes 3-5 skeleton changed ({len(rest)} statements)")
    sel, blk3, sel4, blk4, asg, ret = rest

    def candidate(sel, first_atom, sample_tag, name):
        # if <first>: X = P  elif len(samples := ...) > 0: X = Vector(*samples[0])  else: X = None
        cond = it.ev(sel.test, env)
        expect(is_atom(cond, first_atom), f"{what}: {name} selection does not start with the expected containment test")
        expect(len(sel.body) == 1 and isinstance(sel.body[0], ast.Assign) and len(sel.orelse) == 1 and isinstance(sel.orelse[0], ast.If),
               f"{what}: {name} selection skeleton changed")
        target = sel.body[0].targets[0].id
        el = sel.orelse[0]
        c2 = it.ev(el.test, env)
        expect(c2.data and c2.data[0] == "cmp" and c2.data[1].lean == "LEN_" + sample_tag and c2.data[2] == "gt"
               and c2.data[3].data == ("const", Fraction(0)), f"{what}: {name} sampling fallback changed")
        expect(len(el.body) == 1 and isinstance(el.body[0], ast.Assign) and el.body[0].targets[0].id == target, f"{what}: {name} sample assignment")
        expect(len(el.orelse) == 1 and isinstance(el.orelse[0], ast.Assign) and isinstance(el.orelse[0].value, ast.Constant)
               and el.orelse[0].value.value is None, f"{what}: {name} `= None` fallback changed")
        return target

    cand = candidate(sel, "objHasPos", "samplesO", "object candidate")
    env[cand] = Sym("vec", tag="cand")
    c = it.ev(blk3.test, env)
    expect(c.data and c.data[0] == "notnone" and c.data[1].tag == "cand" and not blk3.orelse, f"{what}: pass 3 guard changed")
    ev3 = it.walk(blk3.body, env)
    expect([e[0] for e in ev3] == ["exit", "exit"] and is_not_atom(ev3[0][1], "regionHasCand"), f"{what}: pass 3 skeleton changed")
    d["p3OutRet"] = const_bool(ev3[0][2], what + " pass 3")
    l, op, r = cmp_parts(ev3[1][1], what + " pass 3")
    d["p3"] = (l, op, r, const_bool(ev3[1][2], what + " pass 3"))
    rc = candidate(sel4, "regHasCom", "samplesS", "region candidate")
    # the first branch must assign the same centre of mass that was tested
    v = it.ev(sel4.body[0].value, env)
    expect(v.tag == "comVec", f"{what}: region candidate is not the tested centre of mass")
    v = it.ev(sel.body[0].value, env)
    expect(v.tag == "objPos", f"{what}: object candidate is not the tested position")
    env[rc] = Sym("vec", tag="regcand")
    c = it.ev(blk4.test, env)
    expect(c.data and c.data[0] == "notnone" and c.data[1].tag == "regcand" and not blk4.orelse, f"{what}: pass 4 guard changed")
    ev4 = it.walk(blk4.body, env)
    expect([e[0] for e in ev4] == ["exit"], f"{what}: pass 4 skeleton changed")
    l, op, r = cmp_parts(ev4[0][1], what + " pass 4")
    d["p4"] = (l, op, r, const_bool(ev4[0][2], what + " pass 4"))
    ev5 = it.walk([asg, ret], env)
    fin = ev5[0][1]
    if is_atom(fin, "diffEmpty"):
        d["p5Negate"] = False
    elif is_not_atom(fin, "diffEmpty"):
        d["p5Negate"] = True
    else:
        raise TemplateMismatch(f"{what}: pass 5 is not [not] isinstance(obj.occupiedSpace.difference(self), EmptyRegion)")
    return d


# --------------------------------------------------------------------------- footprint containsObject
def extract_footprint():
    src, tree = load(REGIONS)
    fn = get_def(tree, "PolygonalFootprintRegion.containsObject", REGIONS)
    what = "PolygonalFootprintRegion.containsObject"
    attrs = {"obj._isConvex": atom("convexObj"), "obj._boundingPolygon": opaque("bounding"),
             "obj.occupiedSpace._boundingPolygonHull": opaque("hull")}

    def calls(interp, node, env):
        if dotted(node.func) == "self.polygons.contains" and len(node.args) == 1:
            v = interp.ev(node.args[0], env)
            if v.tag == "bounding":
                return atom("hasBounding")
            if v.tag == "hull":
                return atom("hasHull")
        return None

    ev = Interp(attrs, {}, [calls], what).walk(body_nodoc(fn), {})
    kinds = [e[0] for e in ev]
    d = {}
    if kinds == ["exit", "exit", "return"]:
        expect(is_atom(ev[0][1], "convexObj") and is_atom(ev[0][2], "hasBounding"), f"{what}: convex fast path changed")
        d["convexFast"] = True
        ev = ev[1:]
    elif kinds == ["exit", "return"]:
        d["convexFast"] = False
    else:
        raise TemplateMismatch(f"{what}: skeleton changed: {kinds}")
    expect(is_atom(ev[0][1], "hasHull"), f"{what}: hull shortcut condition changed")
    d["hullRet"] = const_bool(ev[0][2], what + " hull shortcut")
    expect(is_atom(ev[1][1], "hasBounding"), f"{what}: final answer is not contains(bounding polygon)")
    return d


# --------------------------------------------------------------------------- Object level
def extract_object():
    src, tree = load(OBJECTS)
    d = {}
    # ---- _isPlanarBox
    what = "Object._isPlanarBox"
    fn = get_def(tree, "Object._isPlanarBox", OBJECTS)
    body = body_nodoc(fn)
    expect(len(body) == 1 and isinstance(body[0], ast.Return) and isinstance(body[0].value, ast.BoolOp)
           and isinstance(body[0].value.op, ast.And), f"{what}: not a single conjunction")
    needs_box, pitch, roll = False, None, None
    for v in body[0].value.values:
        if isinstance(v, ast.Call) and dotted(v.func) == "isinstance" and dotted(v.args[0]) == "self.shape" and dotted(v.args[1]) == "BoxShape":
            needs_box = True
        elif isinstance(v, ast.Compare) and len(v.ops) == 1 and dotted(v.left) in ("self.orientation.pitch", "self.orientation.roll") \
                and isinstance(v.comparators[0], ast.Constant) and type(v.ops[0]) in CMP:
            item = (CMP[type(v.ops[0])], Fraction(v.comparators[0].value))
            if dotted(v.left).endswith("pitch"):
                pitch = item
            else:
                roll = item
        else:
            raise TemplateMismatch(f"{what}: unexpected conjunct `{ast.unparse(v)[:60]}`")
    expect(pitch is not None and roll is not None, f"{what}: pitch/roll tests missing")
    d["planar"] = (needs_box, pitch, roll)

    # ---- intersects
    what = "Object.intersects"
    fn = get_def(tree, "Object.intersects", OBJECTS)
    attrs = {
        "self._isPlanarBox": atom("selfPlanar"), "other._isPlanarBox": atom("otherPlanar"),
        "self.position.z": num("o.zS"), "other.position.z": num("o.zO"), "other.z": num("o.zO"), "self.z": num("o.zS"),
        "self.height": num("o.hS"), "other.height": num("o.hO"),
        "self._boundingPolygon": opaque("polyS"), "other._boundingPolygon": opaque("polyO"), "other.polygons": opaque("polyR"),
        "self.occupiedSpace": opaque("spaceS"), "other.occupiedSpace": opaque("spaceO"), "other": opaque("other"),
    }

    def calls(interp, node, env):
        dn = dotted(node.func)
        if dn == "isinstance" and len(node.args) == 2 and dotted(node.args[0]) == "other":
            t = node.args[1]
            if dotted(t) == "Object":
                return atom("otherIsObject")
            if dotted(t) == "PolygonalRegion":
                return atom("otherIsPolygonal")
            if isinstance(t, ast.Tuple) and [dotted(x) for x in t.elts] == ["Object", "Region"]:
                return atom("typeOK")
        if dn and dn.endswith(".intersects") and len(node.args) == 1:
            a, b = interp.ev(node.func.value, env), interp.ev(node.args[0], env)
            if a.tag == "polyS" and b.tag in ("polyO", "polyR"):
                return atom("poly:" + b.tag)
            if a.tag == "spaceS" and (b.tag in ("spaceO", "other") or b.kind == "phi"):
                return atom("volumeAnswer")
        if dn == "isLazy":
            return atom("lazy")
        return None

    it = Interp(attrs, {}, [calls], what)
    stmts = [s for s in body_nodoc(fn)]
    # drop the type check `if not isinstance(other, (Object, Region)): raise`
    keep = []
    for s in stmts:
        if isinstance(s, ast.If) and len(s.body) == 1 and isinstance(s.body[0], ast.Raise):
            continue
        keep.append(s)
    expect(len(keep) >= 3 and isinstance(keep[0], ast.If) and isinstance(keep[1], ast.If), f"{what}: fast paths missing")
    # fast path 1
    f1 = keep[0]
    c = it.ev(f1.test, {})
    expect(c.data and c.data[0] == "conn" and c.data[1] == "and", f"{what}: planar fast path guard is not a conjunction")

    def flat(sym):
        if sym.data and sym.data[0] == "conn" and sym.data[1] == "and":
            out = []
            for v in sym.data[2]:
                out += flat(v)
            return out
        return [sym]
    atoms = flat(c)
    expect(all(a.data and a.data[0] == "atom" for a in atoms) and sorted(a.data[1] for a in atoms) == ["otherIsObject", "otherPlanar", "selfPlanar"],
           f"{what}: planar fast path guard changed")
    ev = it.walk(f1.body, {})
    expect([e[0] for e in ev] == ["exit", "return"], f"{what}: planar fast path skeleton changed")
    l, op, r = cmp_parts(ev[0][1], what + " z test")
    d["z"] = (l, op, r, const_bool(ev[0][2], what + " z test"))
    expect(is_atom(ev[1][1], "poly:polyO"), f"{what}: planar fast path does not return polygon intersection")
    # fast path 2
    f2 = keep[1]
    c = it.ev(f2.test, {})
    parts = flat(c)
    expect(len(parts) == 3, f"{what}: polygonal-region fast path guard changed")
    names = sorted(p.data[1] for p in parts if p.data[0] == "atom")
    cmpx = [p for p in parts if p.data[0] == "cmp"]
    expect(names == ["otherIsPolygonal", "selfPlanar"] and len(cmpx) == 1, f"{what}: polygonal-region fast path guard changed")
    l, op, r = cmp_parts(cmpx[0], what + " region z test")
    d["r"] = (l, op, r)
    ev = it.walk(f2.body, {})
    expect([e[0] for e in ev] == ["return"] and is_atom(ev[0][1], "poly:polyR"), f"{what}: polygonal-region fast path body changed")
    # default: the last statement returns occupiedSpace.intersects(<other occupied space>)
    env = {}
    evd = it.walk([s for s in keep[2:] if not (isinstance(s, ast.If) and len(s.body) == 1 and isinstance(s.body[0], ast.Raise))], env)
    expect(evd and evd[-1][0] == "return" and is_atom(evd[-1][1], "volumeAnswer"), f"{what}: default case changed")

    # ---- minimumDistanceTo
    what = "Object.minimumDistanceTo"
    fn = get_def(tree, "Object.minimumDistanceTo", OBJECTS)

    def calls2(interp, node, env):
        dn = dotted(node.func)
        if dn == "self._boundingPolygon.distance" and len(node.args) == 1 and dotted(node.args[0]) == "other._boundingPolygon":
            return num("o.polyDist")
        if dn == "self.occupiedSpace.minimumDistanceTo" and len(node.args) == 1 and dotted(node.args[0]) == "other.occupiedSpace":
            return num("o.volumeDist")
        return None

    it2 = Interp(attrs, {}, [calls2], what)
    keep = [s for s in body_nodoc(fn) if not (isinstance(s, ast.If) and len(s.body) == 1 and isinstance(s.body[0], ast.Raise))]
    ev = it2.walk(keep, {})
    expect([e[0] for e in ev] == ["exit", "return"], f"{what}: skeleton changed")
    parts = flat(ev[0][1])
    names = sorted(p.data[1] for p in parts if p.data[0] == "atom")
    cmpx = [p for p in parts if p.data[0] == "cmp"]
    expect(names == ["otherPlanar", "selfPlanar"] and len(cmpx) == 1 and len(parts) == 3, f"{what}: fast path guard changed")
    l, op, r = cmp_parts(cmpx[0], what)
    expect({l, r} == {"o.zS", "o.zO"}, f"{what}: fast path does not compare the two z coordinates")
    d["distCmp"] = op
    expect(ev[0][2].lean == "o.polyDist" and ev[1][1].lean == "o.volumeDist", f"{what}: returned distances changed")
    return d


# --------------------------------------------------------------------------- _circumradius
def extract_circumradius():
    src, tree = load(REGIONS)
    what = "MeshVolumeRegion._circumradius"
    fn = get_def(tree, "MeshVolumeRegion._circumradius", REGIONS)
    body = body_nodoc(fn)
    expect(len(body) == 3 and isinstance(body[0], ast.If) and isinstance(body[1], ast.If) and isinstance(body[2], ast.Return),
           f"{what}: three-branch skeleton changed")
    expect(dotted(body[0].test) == "self._scaledShape" and len(body[0].body) == 1 and isinstance(body[0].body[0], ast.Return)
           and dotted(body[0].body[0].value) == "self._scaledShape._circumradius", f"{what}: scaled-shape branch changed")
    expect(dotted(body[1].test) == "self._shape", f"{what}: shape branch changed")
    text = " ".join(ast.unparse(s) for s in body[1].body)
    scale_is_max = "max(dims)" in text and ast.unparse(body[1].body[-1]) == "return scale * self._shape._circumradius"
    expect(scale_is_max, f"{what}: shape branch is not `max(dims) * shape._circumradius`")
    r = body[2].value
    expect(isinstance(r, ast.Call) and dotted(r.func) == "numpy.max" and len(r.args) == 1, f"{what}: fallback is not numpy.max(...)")
    n = r.args[0]
    expect(isinstance(n, ast.Call) and dotted(n.func) == "numpy.linalg.norm" and len(n.args) == 1
           and [k.arg for k in n.keywords] == ["axis"] and n.keywords[0].value.value == 1, f"{what}: fallback is not a row-wise norm")
    a = n.args[0]
    if dotted(a) == "self.mesh.vertices":
        center = "origin"
    elif isinstance(a, ast.BinOp) and isinstance(a.op, ast.Sub) and dotted(a.left) == "self.mesh.vertices" \
            and ast.unparse(a.right) in ("self.position", "numpy.array(self.position)", "numpy.asarray(self.position)"):
        center = "position"
    else:
        raise TemplateMismatch(f"{what}: fallback measures `{ast.unparse(a)[:60]}`")
    # Shape._circumradius (unit shape mesh, centred at the origin by MeshShape.__init__)
    s2, t2 = load("src/scenic/core/shapes.py")
    sfn = get_def(t2, "Shape._circumradius", "shapes.py")
    sb = body_nodoc(sfn)
    expect(len(sb) == 1 and ast.unparse(sb[0]) == "return numpy.max(numpy.linalg.norm(self.mesh.vertices, axis=1))",
           "Shape._circumradius changed")
    return {"fallbackCenter": center, "shapeScaleIsMax": True}


# --------------------------------------------------------------------------- MeshVolumeRegion.minimumDistanceTo
def _fcl_geometry_kinds(fn):
    """names of the fcl.* constructors called inside a function"""
    return sorted({dotted(n.func) for n in ast.walk(fn) if isinstance(n, ast.Call) and (dotted(n.func) or "").startswith("fcl.")})


def extract_voldist():
    src, tree = load(REGIONS)
    what = "MeshVolumeRegion.minimumDistanceTo"
    fn = get_def(tree, what, REGIONS)
    attrs = {"self._fclDistanceData": opaque("distS"), "other._fclDistanceData": opaque("distO"),
             "self._fclData": opaque("collS"), "other._fclData": opaque("collO"),
             "self": opaque("self"), "other": opaque("other")}
    used = set()

    def calls(interp, node, env):
        d = dotted(node.func)
        if d == "fcl.CollisionObject" and len(node.args) == 1 and isinstance(node.args[0], ast.Starred) and not node.keywords:
            v = interp.ev(node.args[0].value, env)
            if v.kind == "opaque" and v.tag in ("distS", "distO", "collS", "collO"):
                return opaque("obj:" + v.tag)
        if d == "fcl.distance" and len(node.args) == 2 and not node.keywords:
            a, b = (interp.ev(x, env) for x in node.args)
            tags = {a.tag, b.tag}
            if tags in ({"obj:distS", "obj:distO"}, {"obj:collS", "obj:collO"}):
                used.update(tags)
                return num("o.fclDist")
        if d in ("self.intersects", "other.intersects") and len(node.args) == 1 and not node.keywords \
                and {d.split(".")[0], dotted(node.args[0])} == {"self", "other"}:
            return atom("volIntersects")
        return None

    it = Interp(attrs, {}, [calls], what)
    keep = [s_ for s_ in body_nodoc(fn) if not (isinstance(s_, ast.If) and len(s_.body) == 1 and isinstance(s_.body[0], ast.Raise))]
    ev = it.walk(keep, {})
    expect([e[0] for e in ev] == ["exit", "return"], f"{what}: skeleton changed: {[e[0] for e in ev]}")
    cond, ret = ev[0][1], ev[0][2]
    expect(cond.data and cond.data[0] == "conn" and len(cond.data[2]) == 2, f"{what}: nested-volume guard is not a binary connective")
    cmps = [v for v in cond.data[2] if v.data and v.data[0] == "cmp"]
    ats = [v for v in cond.data[2] if is_atom(v, "volIntersects")]
    expect(len(cmps) == 1 and len(ats) == 1, f"{what}: nested-volume guard is not `<dist cmp const> <conn> self.intersects(other)`")
    # python evaluates `a and b` left to right: the comparison must come first (the model fills the unevaluated flag)
    expect(cond.data[2][0] is cmps[0], f"{what}: the distance comparison is not the first conjunct")
    _, a, op, b = cmps[0].data
    expect(a.lean == "o.fclDist" and b.data and b.data[0] == "const", f"{what}: guard does not compare the FCL distance with a literal")
    expect(ret.kind == "num" and ret.data and ret.data[0] == "const", f"{what}: corrected value is not a literal")
    expect(ev[1][1].kind == "num" and ev[1][1].lean == "o.fclDist", f"{what}: default value is not the FCL distance")
    d = {"posCmp": op, "posThr": b.data[1], "conn": cond.data[1], "nestedRet": ret.data[1]}
    # which geometry the distance query uses
    if used == {"obj:distS", "obj:distO"}:
        gfn = get_def(tree, "MeshVolumeRegion._fclDistanceData", REGIONS)
        kinds = _fcl_geometry_kinds(gfn)
        expect("fcl.BVHModel" in kinds and set(kinds) <= {"fcl.BVHModel", "fcl.Transform", "fcl.Convex"},
               f"MeshVolumeRegion._fclDistanceData: unexpected FCL geometry {kinds}")
        body = body_nodoc(gfn)
        expect(len(body) >= 2 and isinstance(body[0], ast.If) and dotted(body[0].test) == "self._scaledShape",
               "MeshVolumeRegion._fclDistanceData: precomputed-shape branch missing")
        pre = " ".join(ast.unparse(x) for x in body[0].body)
        expect("self._scaledShape._fclDistanceData[0]" in pre or "self._scaledShape._fclData[0]" in pre,
               "MeshVolumeRegion._fclDistanceData: precomputed geometry changed")
        d["bvhOnly"] = "fcl.Convex" not in kinds and "self._scaledShape._fclDistanceData[0]" in pre
    else:
        d["bvhOnly"] = False    # the collision geometry: fcl.Convex for convex shapes (GJK distance, inexact)
    return d


# --------------------------------------------------------------------------- MeshVolumeRegion.isConvex
def extract_isconvex():
    src, tree = load(REGIONS)
    what = "MeshVolumeRegion.isConvex"
    fn = get_def(tree, what, REGIONS)
    attrs = {"self._isConvex": opaque("override"), "self.mesh": opaque("meshS"), "self": opaque("self")}
    for base in ("self.mesh", "meshS"):
        attrs[base + ".is_convex"] = atom("trimeshConvex")
        attrs[base + ".volume"] = num("o.vol")
        attrs[base + ".convex_hull.volume"] = num("o.hullVol")

    class I2(Interp):
        def ev(self, node, env):
            if isinstance(node, ast.Constant) and node.value is None:
                return opaque("None")
            if isinstance(node, ast.Compare) and len(node.ops) == 1 and isinstance(node.ops[0], (ast.IsNot, ast.Is)):
                v = self.ev(node.left, env)
                r = node.comparators[0]
                if isinstance(r, ast.Constant) and r.value is None and v.kind == "opaque":
                    return Sym("bool", data=("notnone" if isinstance(node.ops[0], ast.IsNot) else "isnone", v))
            return super().ev(node, env)

    ev = I2(attrs, {}, [], what).walk(body_nodoc(fn), {})
    kinds = [e[0] for e in ev]
    expect(kinds in (["exit", "exit", "return"], ["exit", "return"]), f"{what}: skeleton changed: {kinds}")
    c0, r0 = ev[0][1], ev[0][2]
    expect(c0.data and c0.data[0] == "notnone" and c0.data[1].tag == "override" and r0.kind == "opaque" and r0.tag == "override",
           f"{what}: does not start with `if self._isConvex is not None: return self._isConvex`")
    d = {"overrideFirst": True, "needsTrimesh": False}
    rest = ev[1:]
    if len(rest) == 2:
        expect(is_not_atom(rest[0][1], "trimeshConvex") and const_bool(rest[0][2], what) is False,
               f"{what}: second test is not `if not mesh.is_convex: return False`")
        d["needsTrimesh"] = True
        rest = rest[1:]
    l, op, r = cmp_parts(rest[0][1], what + " hull-volume guard")
    d["vol"] = (l, op, r)
    return d


# --------------------------------------------------------------------------- round 4: surface / footprint slab / region-in-region
def _isinstance_branch(fn, var, cls, what):
    for st in body_nodoc(fn):
        if (isinstance(st, ast.If) and isinstance(st.test, ast.Call) and dotted(st.test.func) == "isinstance"
                and len(st.test.args) == 2 and dotted(st.test.args[0]) == var and dotted(st.test.args[1]) == cls):
            return st.body
    raise TemplateMismatch(f"{what}: no `if isinstance({var}, {cls}):` branch")


def _ret_const(st, what):
    expect(isinstance(st, ast.Return) and isinstance(st.value, ast.Constant) and isinstance(st.value.value, bool),
           f"{what}: does not return a boolean constant")
    return st.value.value


def _arith(node, env, what):
    """Python arithmetic over named quantities -> Lean `Rat` expression (env: unparse()d sub-expression -> Lean text)"""
    key = ast.unparse(node)
    if key in env:
        return env[key]
    if isinstance(node, ast.Constant) and isinstance(node.value, (int, float)) and not isinstance(node.value, bool):
        return lean_rat(node.value)
    if isinstance(node, ast.BinOp) and type(node.op) in (ast.Add, ast.Sub, ast.Mult, ast.Div):
        op = {ast.Add: "+", ast.Sub: "-", ast.Mult: "*", ast.Div: "/"}[type(node.op)]
        return f"({_arith(node.left, env, what)} {op} {_arith(node.right, env, what)})"
    if isinstance(node, ast.UnaryOp) and isinstance(node.op, ast.USub):
        return f"(-{_arith(node.operand, env, what)})"
    if isinstance(node, ast.Call) and dotted(node.func) == "max" and len(node.args) == 2 and not node.keywords:
        return f"(maxR {_arith(node.args[0], env, what)} {_arith(node.args[1], env, what)})"
    raise TemplateMismatch(f"{what}: unexpected arithmetic `{key}`")


def extract_surface():
    """the three passes of MeshVolumeRegion.intersects(MeshSurfaceRegion)"""
    src, tree = load(REGIONS)
    what = "MeshVolumeRegion.intersects(MeshSurfaceRegion)"
    body = _isinstance_branch(get_def(tree, "MeshVolumeRegion.intersects", REGIONS), "other", "MeshSurfaceRegion", what)
    env, exits, final = {}, [], None
    surf_class_used = False
    for st in body:
        if isinstance(st, ast.Assign) and len(st.targets) == 1 and isinstance(st.targets[0], ast.Name):
            name, v = st.targets[0].id, st.value
            if isinstance(v, (ast.ListComp, ast.GeneratorExp)):
                ndim, sides = _bbox_gen(None, v)
                expect(ndim == 3, f"{what}: bounding boxes compared in {ndim} dimensions")
                a = sorted((ast.unparse(x), ast.unparse(y)) for x, y in sides)
                expect(a == [("other.mesh.bounds", "self.mesh.bounds"), ("self.mesh.bounds", "other.mesh.bounds")],
                       f"{what}: bounding-box test does not compare the two meshes crosswise: {a}")
                env[name] = "ranges"
            elif isinstance(v, ast.Call) and dotted(v.func) == "all" and len(v.args) == 1 and env.get(ast.unparse(v.args[0])) == "ranges":
                env[name] = "bbOverlap"
            elif isinstance(v, ast.Call) and dotted(v.func) == "trimesh.collision.CollisionManager":
                env[name] = "manager"
            elif (isinstance(v, ast.Call) and isinstance(v.func, ast.Attribute) and v.func.attr == "in_collision_internal"
                  and env.get(ast.unparse(v.func.value)) == "manager" and not v.args):
                env[name] = "collide"
            else:
                raise TemplateMismatch(f"{what}: unexpected assignment `{ast.unparse(st)[:80]}`")
        elif isinstance(st, ast.Expr) and isinstance(st.value, ast.Call) and isinstance(st.value.func, ast.Attribute) \
                and st.value.func.attr == "add_object" and env.get(ast.unparse(st.value.func.value)) == "manager":
            arg = st.value.args[1] if len(st.value.args) == 2 else None
            if isinstance(arg, ast.Call) and dotted(arg.func) == "SurfaceCollisionTrimesh":
                kws = {k.arg: ast.unparse(k.value) for k in arg.keywords}
                expect(kws == {"faces": "other.mesh.faces", "vertices": "other.mesh.vertices"}, f"{what}: surface collision mesh is not other's mesh")
                surf_class_used = True
            else:
                expect(arg is not None and ast.unparse(arg) == "self.mesh", f"{what}: unexpected collision object")
        elif isinstance(st, ast.If) and not st.orelse and len(st.body) == 1:
            t = st.test
            if isinstance(t, ast.UnaryOp) and isinstance(t.op, ast.Not):
                exits.append(("not", env.get(ast.unparse(t.operand)), _ret_const(st.body[0], what)))
            else:
                exits.append(("", env.get(ast.unparse(t)), _ret_const(st.body[0], what)))
        elif isinstance(st, ast.Return):
            final = st.value
        else:
            raise TemplateMismatch(f"{what}: unexpected statement `{ast.unparse(st)[:80]}`")
    expect([(n, k) for n, k, _ in exits] == [("not", "bbOverlap"), ("", "collide")], f"{what}: skeleton changed: {exits}")
    expect(surf_class_used, f"{what}: the surface is no longer wrapped in SurfaceCollisionTrimesh")
    expect(final is not None, f"{what}: no final return")
    neg = False
    if isinstance(final, ast.UnaryOp) and isinstance(final.op, ast.Not):
        neg, final = True, final.operand
    expect(isinstance(final, ast.Call) and dotted(final.func) == "self.containsPoint" and len(final.args) == 1,
           f"{what}: final answer is not self.containsPoint(...)")
    arg = final.args[0]
    expect(isinstance(arg, ast.Subscript) and ast.unparse(arg.value) == "other.mesh.vertices"
           and isinstance(arg.slice, ast.Constant) and isinstance(arg.slice.value, int),
           f"{what}: the tested point is not a vertex of the surface mesh")
    return {"p1Ret": exits[0][2], "p2Ret": exits[1][2], "p3Negate": neg}


def extract_footslab():
    """MeshVolumeRegion.intersects(PolygonalFootprintRegion): the slab; approxBoundFootprint: cache test and padding"""
    src, tree = load(REGIONS)
    what = "MeshVolumeRegion.intersects(PolygonalFootprintRegion)"
    body = _isinstance_branch(get_def(tree, "MeshVolumeRegion.intersects", REGIONS), "other", "PolygonalFootprintRegion", what)
    env, d = {}, {}
    expect(len(body) >= 2 and isinstance(body[-1], ast.Return), f"{what}: no final return")
    for st in body[:-1]:
        expect(isinstance(st, ast.Assign) and len(st.targets) == 1 and isinstance(st.targets[0], ast.Name), f"{what}: unexpected statement")
        name, v = st.targets[0].id, st.value
        if isinstance(v, ast.Tuple) and [ast.unparse(e) for e in v.elts] == ["self.mesh.bounds[0][2]", "self.mesh.bounds[1][2]"]:
            env[f"{name}[0]"], env[f"{name}[1]"] = "lo", "hi"
        elif isinstance(v, ast.Call) and isinstance(v.func, ast.Attribute) and v.func.attr == "approxBoundFootprint" \
                and ast.unparse(v.func.value) == "other" and len(v.args) == 2:
            a0, a1 = (env.get(ast.unparse(a)) for a in v.args)
            expect(a0 is not None and a1 is not None, f"{what}: approxBoundFootprint is not called with computed quantities")
            d["center"], d["height"] = a0, a1
            env[name] = "BOUNDED"
        else:
            env[name] = _arith(v, env, what)
    r = body[-1].value
    expect(isinstance(r, ast.Call) and dotted(r.func) == "self.intersects" and len(r.args) == 1
           and env.get(ast.unparse(r.args[0])) == "BOUNDED", f"{what}: does not return self.intersects(<bounded footprint>)")
    expect("center" in d, f"{what}: approxBoundFootprint is not called")
    # the cache
    what = "PolygonalFootprintRegion.approxBoundFootprint"
    fn = get_def(tree, "PolygonalFootprintRegion.approxBoundFootprint", REGIONS)
    args = [a.arg for a in fn.args.args]
    expect(len(args) == 3, f"{what}: signature changed")
    env = {args[1]: "cz", args[2]: "h"}
    stmts = body_nodoc(fn)
    expect(len(stmts) == 5, f"{what}: skeleton changed ({len(stmts)} statements)")
    c = stmts[0]
    expect(isinstance(c, ast.If) and ast.unparse(c.test) == "self._bounded_cache is not None" and not c.orelse
           and len(c.body) == 2, f"{what}: cache guard changed")
    un = c.body[0]
    expect(isinstance(un, ast.Assign) and isinstance(un.targets[0], ast.Tuple) and len(un.targets[0].elts) == 3
           and ast.unparse(un.value) == "self._bounded_cache", f"{what}: cache is not unpacked into three names")
    pcn, phn, pbn = (e.id for e in un.targets[0].elts)
    env2 = dict(env); env2[pcn] = "pc"; env2[phn] = "ph"
    t = c.body[1]
    expect(isinstance(t, ast.If) and not t.orelse and len(t.body) == 1 and isinstance(t.body[0], ast.Return)
           and ast.unparse(t.body[0].value) == pbn, f"{what}: a cache hit does not return the cached region")
    expect(isinstance(t.test, ast.BoolOp) and len(t.test.values) == 2, f"{what}: cache test is not `a <conn> b`")
    d["conn"] = "and" if isinstance(t.test.op, ast.And) else "or"
    for nm, cmpn in zip(("top", "bot"), t.test.values):
        expect(isinstance(cmpn, ast.Compare) and len(cmpn.ops) == 1 and type(cmpn.ops[0]) in CMP, f"{what}: cache test operand is not a comparison")
        d[nm] = (_arith(cmpn.left, env2, what), CMP[type(cmpn.ops[0])], _arith(cmpn.comparators[0], env2, what))
    pad = stmts[1]
    expect(isinstance(pad, ast.Assign) and isinstance(pad.targets[0], ast.Name), f"{what}: no padded height")
    d["padded"] = _arith(pad.value, env, what)
    bf = stmts[2]
    expect(isinstance(bf, ast.Assign) and isinstance(bf.value, ast.Call) and dotted(bf.value.func) == "self.boundFootprint"
           and [ast.unparse(a) for a in bf.value.args] == [args[1], pad.targets[0].id], f"{what}: boundFootprint is not called with (centerZ, padded height)")
    st = stmts[3]
    expect(isinstance(st, ast.Assign) and ast.unparse(st.targets[0]) == "self._bounded_cache"
           and isinstance(st.value, ast.Tuple) and [ast.unparse(e) for e in st.value.elts] == [args[1], pad.targets[0].id, bf.targets[0].id],
           f"{what}: the cache is not set to (centerZ, padded height, region)")
    expect(isinstance(stmts[4], ast.Return) and ast.unparse(stmts[4].value) == bf.targets[0].id, f"{what}: does not return the new region")
    return d


def extract_regioninner():
    src, tree = load(REGIONS)
    what = "MeshVolumeRegion.containsRegionInner"
    fn = get_def(tree, "MeshVolumeRegion.containsRegionInner", REGIONS)
    reg = fn.args.args[1].arg
    body = _isinstance_branch(fn, reg, "MeshVolumeRegion", what)
    expect(len(body) == 2 and isinstance(body[0], ast.Assign) and isinstance(body[1], ast.Return), f"{what}: skeleton changed")
    v = body[0].value
    expect(isinstance(v, ast.Call) and isinstance(v.func, ast.Attribute) and v.func.attr == "difference" and len(v.args) == 1,
           f"{what}: not a boolean difference")
    pair = (ast.unparse(v.func.value), ast.unparse(v.args[0]))
    expect(pair in ((reg, "self"), ("self", reg)), f"{what}: difference of unexpected operands {pair}")
    r, neg = body[1].value, False
    if isinstance(r, ast.UnaryOp) and isinstance(r.op, ast.Not):
        neg, r = True, r.operand
    expect(isinstance(r, ast.Call) and dotted(r.func) == "isinstance" and ast.unparse(r.args[0]) == ast.unparse(body[0].targets[0])
           and ast.unparse(r.args[1]) == "EmptyRegion", f"{what}: answer is not isinstance(diff, EmptyRegion)")
    return {"swapped": pair == ("self", reg), "negate": neg}


PINNED = {
    "surface": {'p1Ret': False, 'p2Ret': True, 'p3Negate': False},
    "footslab": {'center': '((hi + lo) / (2 : Rat))', 'height': '((hi - lo) + (1 : Rat))', 'conn': 'and',
                 'top': ('(pc + (ph / (2 : Rat)))', 'gt', '(cz + (h / (2 : Rat)))'),
                 'bot': ('(pc - (ph / (2 : Rat)))', 'lt', '(cz - (h / (2 : Rat)))'),
                 'padded': '(((100 : Rat) * (maxR (1 : Rat) cz)) * h)'},
    "regioninner": {'swapped': False, 'negate': False},
    "intersects": {'p1': ('o.centerDist', 'gt', '(o.circS + o.circO)', False), 'p2Guard': 'and',
                   'p2aIn': ('o.pointDist', 'lt', '(o.inS + o.inO)', True), 'p2aCirc': ('o.pointDist', 'gt', '(o.pcircS + o.pcircO)', False),
                   'p2bRet': False, 'p3HitRet': True, 'p3Convex': 'and', 'p4Bodies': 1, 'p4Guard': 'and', 'p4Conn': 'or', 'p5Negate': True},
    "contains": {'p1Ret': False, 'p2Corner': ('gt', Fraction(0), True), 'p2Vert': ('gt', Fraction(0)), 'p3OutRet': False,
                 'p3': ('(absQ o.sdCand)', 'gt', 'o.objCirc', True), 'p4': ('o.objMaxDist', 'gt', 'o.regCirc', False), 'p5Negate': False},
    "footprint": {'convexFast': True, 'hullRet': True},
    "object": {'planar': (True, ('eq', Fraction(0)), ('eq', Fraction(0))),
               'z': ('(absQ (o.zS - o.zO))', 'gt', '((o.hS + o.hO) / (2 : Rat))', False),
               'r': ('(absQ (o.zS - o.zO))', 'le', '(o.hS / (2 : Rat))'), 'distCmp': 'eq'},
    "circumradius": {'fallbackCenter': 'position', 'shapeScaleIsMax': True},
    "voldist": {'posCmp': 'gt', 'posThr': Fraction(0), 'conn': 'and', 'nestedRet': Fraction(0), 'bvhOnly': True},
    "isconvex": {'overrideFirst': True, 'needsTrimesh': True,
                 'vol': ('o.vol', 'ge', '(((1 : Rat) - (1 / 1000000 : Rat)) * o.hullVol)')},
}
"""data of the source the model was written against; a section whose template no longer matches falls back to
this (so that Gen/Solid.lean always builds and the theorems stay about a definite procedure) and the tie of that
section to the current source then rests on the correspondence run at the escalated budget"""

SECTIONS = [("intersects", None), ("contains", None), ("footprint", None), ("object", None), ("circumradius", None),
            ("voldist", None), ("isconvex", None), ("surface", None), ("footslab", None), ("regioninner", None)]


def extract_tolerant():
    """-> (data, errors): every section is extracted independently; a mismatching one is replaced by PINNED"""
    fns = {"intersects": extract_intersects, "contains": extract_contains, "footprint": extract_footprint,
           "object": extract_object, "circumradius": extract_circumradius, "voldist": extract_voldist,
           "isconvex": extract_isconvex, "surface": extract_surface, "footslab": extract_footslab,
           "regioninner": extract_regioninner}
    d, errors = {}, []
    for name, _ in SECTIONS:
        try:
            d[name] = fns[name]()
        except TemplateMismatch as e:
            d[name] = PINNED[name]
            errors.append(f"{name}: {e}")
    return d, errors


def extract():
    d, errors = extract_tolerant()
    if errors:
        raise TemplateMismatch("; ".join(errors))
    return d


def subst_bodies(s):
    return s.replace("BODIES_S", "o.bodiesS").replace("BODIES_O", "o.bodiesO")


def to_lean(d):
    i, c, f, ob, cr = d["intersects"], d["contains"], d["footprint"], d["object"], d["circumradius"]
    vd, cv = d["voldist"], d["isconvex"]
    sf, fs, ri = d["surface"], d["footslab"], d["regioninner"]
    needs_box, pitch, roll = ob["planar"]
    out = f"""import ScenicModel.Model.Solid
set_option linter.unusedVariables false
namespace Scenic.Gen
open Scenic.Solid

/-- the five passes of `MeshVolumeRegion.intersects(MeshVolumeRegion)` in src/scenic/core/regions.py -/
def intersectCfg : IntersectCfg :=
  {{ p1Lhs := fun o => {i['p1'][0]},
    p1Cmp := .{i['p1'][1]},
    p1Rhs := fun o => {i['p1'][2]},
    p1Ret := {lb(i['p1'][3])},
    p2Guard := .{i['p2Guard']},
    p2aInLhs := fun o => {i['p2aIn'][0]},
    p2aInCmp := .{i['p2aIn'][1]},
    p2aInRhs := fun o => {i['p2aIn'][2]},
    p2aInRet := {lb(i['p2aIn'][3])},
    p2aCircLhs := fun o => {i['p2aCirc'][0]},
    p2aCircCmp := .{i['p2aCirc'][1]},
    p2aCircRhs := fun o => {i['p2aCirc'][2]},
    p2aCircRet := {lb(i['p2aCirc'][3])},
    p2bRet := {lb(i['p2bRet'])},
    p3HitRet := {lb(i['p3HitRet'])},
    p3Convex := .{i['p3Convex']},
    p4Bodies := {i['p4Bodies']},
    p4Guard := .{i['p4Guard']},
    p4Conn := .{i['p4Conn']},
    p5Negate := {lb(i['p5Negate'])} }}

/-- the five passes of `MeshVolumeRegion.containsObject` -/
def containCfg : ContainCfg :=
  {{ p1Ret := {lb(c['p1Ret'])},
    p2CornerCmp := .{c['p2Corner'][0]},
    p2CornerThr := {lean_rat(c['p2Corner'][1])},
    p2CornerRet := {lb(c['p2Corner'][2])},
    p2VertCmp := .{c['p2Vert'][0]},
    p2VertThr := {lean_rat(c['p2Vert'][1])},
    p3OutRet := {lb(c['p3OutRet'])},
    p3Lhs := fun o => {c['p3'][0]},
    p3Cmp := .{c['p3'][1]},
    p3Rhs := fun o => {c['p3'][2]},
    p3Ret := {lb(c['p3'][3])},
    p4Lhs := fun o => {c['p4'][0]},
    p4Cmp := .{c['p4'][1]},
    p4Rhs := fun o => {c['p4'][2]},
    p4Ret := {lb(c['p4'][3])},
    p5Negate := {lb(c['p5Negate'])} }}

/-- `PolygonalFootprintRegion.containsObject` -/
def footCfg : FootCfg := {{ convexFast := {lb(f['convexFast'])}, hullRet := {lb(f['hullRet'])} }}

/-- `Object._isPlanarBox` in src/scenic/core/object_types.py -/
def planarCfg : PlanarCfg :=
  {{ needsBox := {lb(needs_box)}, pitchCmp := .{pitch[0]}, pitchVal := {lean_rat(pitch[1])},
    rollCmp := .{roll[0]}, rollVal := {lean_rat(roll[1])} }}

/-- the planar-box fast paths of `Object.intersects` -/
def objCfg : ObjCfg :=
  {{ zLhs := fun o => {ob['z'][0]},
    zCmp := .{ob['z'][1]},
    zRhs := fun o => {ob['z'][2]},
    zRet := {lb(ob['z'][3])},
    rLhs := fun o => {ob['r'][0]},
    rCmp := .{ob['r'][1]},
    rRhs := fun o => {ob['r'][2]} }}

/-- the planar fast path of `Object.minimumDistanceTo` -/
def distCfg : DistCfg := {{ zCmp := .{ob['distCmp']} }}

/-- the point about which the fall-back branch of `MeshVolumeRegion._circumradius` measures the vertices -/
def fallbackCenter : Center := .{cr['fallbackCenter']}

/-- `MeshVolumeRegion.minimumDistanceTo`: the nested-volume correction and the geometry of `_fclDistanceData` -/
def volDistCfg : VolDistCfg :=
  {{ posCmp := .{vd['posCmp']}, posThr := {lean_rat(vd['posThr'])}, conn := .{vd['conn']},
    nestedRet := {lean_rat(vd['nestedRet'])}, bvhOnly := {lb(vd['bvhOnly'])} }}

/-- `MeshVolumeRegion.isConvex` -/
def convexCfg : ConvexCfg :=
  {{ overrideFirst := {lb(cv['overrideFirst'])}, needsTrimesh := {lb(cv['needsTrimesh'])},
    volLhs := fun o => {cv['vol'][0]},
    volCmp := .{cv['vol'][1]},
    volRhs := fun o => {cv['vol'][2]} }}

/-- the three passes of `MeshVolumeRegion.intersects(MeshSurfaceRegion)` -/
def surfCfg : SurfCfg := {{ p1Ret := {lb(sf['p1Ret'])}, p2Ret := {lb(sf['p2Ret'])}, p3Negate := {lb(sf['p3Negate'])} }}

/-- the slab of `MeshVolumeRegion.intersects(PolygonalFootprintRegion)` and the cache test / padding of
    `PolygonalFootprintRegion.approxBoundFootprint` -/
def slabCfg : SlabCfg :=
  {{ height := fun lo hi => {fs['height']},
    center := fun lo hi => {fs['center']},
    topLhs := fun pc ph cz h => {fs['top'][0]},
    topCmp := .{fs['top'][1]},
    topRhs := fun pc ph cz h => {fs['top'][2]},
    botLhs := fun pc ph cz h => {fs['bot'][0]},
    botCmp := .{fs['bot'][1]},
    botRhs := fun pc ph cz h => {fs['bot'][2]},
    conn := .{fs['conn']},
    padded := fun cz h => {fs['padded']} }}

/-- `MeshVolumeRegion.containsRegionInner(MeshVolumeRegion)` -/
def innerCfg : InnerCfg := {{ swapped := {lb(ri['swapped'])}, negate := {lb(ri['negate'])} }}

end Scenic.Gen
"""
    return subst_bodies(out)
