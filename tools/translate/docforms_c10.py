"""C10 helper: concrete programs derived from docs/reference (grammar templates in section headings, literal examples).

Section headings of specifiers.rst / operators.rst / statements.rst are grammar templates such as
    beyond *vector* by (*vector* | *scalar*) [from (*vector* | *OrientedPoint*)]
`( a | b )` is a choice, `[ x ]` optional, `*type*` a placeholder, `X, ...` a comma-separated repetition.
Every expansion is instantiated with a fixed concrete expression per placeholder type and wrapped in a context
where the reference says the form may appear (specifier after `new Object`, operator as an expression or inside
`require`, statement at top level / in a behavior / in a compose block).
"""
import glob
import os
import re

PLACEHOLDER = {
    "vector": "(1, 2)", "scalar": "0.5", "number": "0.5", "heading": "30 deg", "direction": "30 deg",
    "orientation": "(0, 0, 0)", "orientedpoint": "op", "point": "pt", "object": "obj", "region": "reg",
    "vectorfield": "vf", "boolean": "x > 0", "condition": "x > 0", "ltl formula": "always x > 0", "value": "3",
    "name": "foo", "property": "foo", "monitor": "Mon()", "action": "Act()", "behavior/scenario": "Sub()",
    "identifier": "obj", "module": "math", "recorder": "rec", "specifier": "at (1, 2)", "duration": "5 steps",
    "hypothesis": "x > 0", "conclusion": "x > 1",
}
PRELUDE = ("x = 1\nobj = new Object\nop = new OrientedPoint\npt = new Point\nreg = RectangularRegion((0, 0), 0, 5, 5)\n"
           "vf = VectorField('f', lambda p: 0)\nrec = None\n")


class Untranslatable(Exception):
    pass


def tokenize_template(t):
    out, i = [], 0
    while i < len(t):
        c = t[i]
        if c.isspace():
            i += 1
        elif c == "[" and i > 0 and (t[i - 1].isalnum()):  # `require[*number*]`: literal brackets
            j = t.index("]", i)
            inner = tokenize_template(t[i + 1:j])
            out.append(("w", "["))
            out.extend(inner)
            out.append(("w", "]"))
            i = j + 1
        elif c in "()[]|":
            out.append(c)
            i += 1
        elif c == "*":
            j = t.find("*", i + 1)
            if j < 0:
                raise Untranslatable("unbalanced *")
            out.append(("ph", t[i + 1:j].strip()))
            i = j + 1
        else:
            j = i
            while j < len(t) and not t[j].isspace() and t[j] not in "()[]|*":
                j += 1
            out.append(("w", t[i:j]))
            i = j
    return out


def expand(tokens):
    pos = 0

    def is_sym(k, syms):
        return k < len(tokens) and isinstance(tokens[k], str) and tokens[k] in syms

    def alt():
        nonlocal pos
        res = seq()
        while is_sym(pos, "|"):
            pos += 1
            res = res + seq()
        return res

    def seq():
        nonlocal pos
        res = [[]]
        while pos < len(tokens) and not is_sym(pos, "|)]"):
            tk = tokens[pos]
            if tk == "(":
                pos += 1
                inner = alt()
                if not is_sym(pos, ")"):
                    raise Untranslatable("unbalanced (")
                pos += 1
                res = [a + b for a in res for b in inner]
            elif tk == "[":
                pos += 1
                inner = alt()
                if not is_sym(pos, "]"):
                    raise Untranslatable("unbalanced [")
                pos += 1
                res = [a + b for a in res for b in inner + [[]]]
            else:
                pos += 1
                if tk[0] == "ph":
                    key = tk[1].lower()
                    if key not in PLACEHOLDER:
                        raise Untranslatable(f"unknown placeholder {tk[1]!r}")
                    s = ("ph", PLACEHOLDER[key])
                else:
                    s = ("w", tk[1])
                res = [a + [s] for a in res]
        return res

    r = alt()
    if pos != len(tokens):
        raise Untranslatable("unbalanced template")
    return r


def render(parts):
    """parts: list of ('w'|'ph', text); a word ',...' repeats the preceding comma-separated unit."""
    out = []
    for kind, s in parts:
        if kind == "w" and s in (",...", "..."):
            # unit: from the placeholder before '=' if there is one, otherwise the last placeholder
            k = len(out) - 1
            while k >= 0 and out[k][0] != "ph":
                k -= 1
            if k >= 1 and out[k - 1] == ("w", "="):
                k -= 2
            unit = [p for p in out[max(k, 0):]]
            if unit and unit[-1] == ("w", ","):
                unit = unit[:-1]
            alt_unit = [("ph", "with bar 4") if p == ("ph", "at (1, 2)") else (("ph", "foo2") if p == ("ph", "foo") else p)
                        for p in unit]
            if not out or out[-1] != ("w", ","):
                out.append(("w", ","))
            out.extend(alt_unit)
        else:
            out.append((kind, s))
    text = " ".join(s for _, s in out)
    text = text.replace(" ,", ",").replace("[ ", "[").replace(" ]", "]").replace("require [", "require[")
    return text


def headings(path):
    lines = open(path).read().split("\n")
    for i in range(len(lines) - 1):
        h, u = lines[i], lines[i + 1]
        if h.strip() and len(u) >= 3 and len(set(u)) == 1 and u[0] in "-=^~+" and len(u) >= len(h.rstrip()) - 2:
            yield i + 1, h.strip()


def doc_forms(repo):
    """-> list of dict(origin, kind, heading, form | error)"""
    out = []
    ref = os.path.join(repo, "docs", "reference")
    for fn, kind in (("specifiers.rst", "spec"), ("operators.rst", "op"), ("statements.rst", "stmt")):
        path = os.path.join(ref, fn)
        if not os.path.exists(path):
            continue
        for ln, h in headings(path):
            if "*" not in h:
                continue
            t = h.replace(". . .", "...")
            t = re.sub(r",\s*\.\.\.", " ,...", t)
            try:
                exps = expand(tokenize_template(t))
            except Untranslatable as e:
                out.append(dict(origin=f"{fn}:{ln}", kind="untranslatable", heading=h, error=str(e)))
                continue
            for e in exps[:64]:
                out.append(dict(origin=f"{fn}:{ln}", kind=kind, heading=h, form=render(e)))
    return out


def wrap(kind, form):
    if kind == "spec":
        return [PRELUDE + f"o2 = new Object {form}\n"]
    if kind == "op":
        return [PRELUDE + f"y = {form}\n", PRELUDE + f"require {form}\n"]
    return [PRELUDE + form + "\n", PRELUDE + "behavior B():\n    " + form + "\n",
            PRELUDE + "scenario S():\n    compose:\n        " + form + "\n"]


def literal_blocks(repo):
    """literal code examples (`::` blocks, `code-block:: scenic`) in docs/reference -> [(origin, text)]"""
    out = []
    for path in sorted(glob.glob(os.path.join(repo, "docs", "reference", "*.rst"))):
        lines = open(path).read().split("\n")
        i = 0
        while i < len(lines):
            line = lines[i]
            start = None
            if re.match(r"\s*\.\. code-block:: scenic\s*$", line):
                start = i + 1
            elif line.rstrip().endswith("::") and not line.lstrip().startswith(".."):
                start = i + 1
            if start is None:
                i += 1
                continue
            j = start
            while j < len(lines) and (not lines[j].strip() or lines[j].lstrip().startswith(":")):
                j += 1
            if j >= len(lines):
                break
            ind = len(lines[j]) - len(lines[j].lstrip())
            base = len(line) - len(line.lstrip())
            if ind <= base:
                i = j
                continue
            k, blk = j, []
            while k < len(lines) and (not lines[k].strip() or len(lines[k]) - len(lines[k].lstrip()) >= ind):
                blk.append(lines[k][ind:])
                k += 1
            out.append((f"{os.path.basename(path)}:{j + 1}", "\n".join(blk).rstrip() + "\n"))
            i = k
    return out


# documented precedence / grouping claims of the reference: (origin, program A, program B that spells the grouping out)
PRECEDENCE = [
    ("statements.rst require-LTL: `always A implies B` scopes B under always",
     "require always a implies b\n", "require always (a implies b)\n"),
    ("statements.rst require-LTL: `(always A) implies B`",
     "require (always a) implies b\n", "require ((always a) implies b)\n"),
    ("statements.rst require-LTL: `A and always B`",
     "require a and always b\n", "require a and (always b)\n"),
    ("general.rst: `beyond A by distance from B` is `beyond A by (distance from B)`",
     "new Object beyond a by distance from b\n", "new Object beyond a by (distance from b)\n"),
    ("operators.rst: weak until spelled `(X until Y) or (always X and not Y)`",
     "require (x until y) or (always x and not y)\n", "require (x until y) or (always (x and (not y)))\n"),
    ("operators.rst implies: `X implies Y` is sugar, binds looser than `or`",
     "require a or b implies c or d\n", "require (a or b) implies (c or d)\n"),
]
