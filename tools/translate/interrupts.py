"""Template extraction for C13 -> Gen/Interrupts.lean (`interruptCfg`, `tiCheckPassesAgent`, ...).

Sources and what is read off them (anything of another shape raises TemplateMismatch):

  invocables.py  runTryInterrupt      selection loop (`isEnabled or isRunning`, `break` at first match),
                                      `FINISHED and block is not body -> continue`, the invariant re-check after
                                      the yield (present? guarded by "no sub-invocation in progress"? which agent?)
  invocables.py  _checkAllPreconditions   preconditions then invariants
  behaviors.py   Behavior._start      calls _checkAllPreconditions
  behaviors.py   Behavior._invokeInner    sub._start; yield from; finally: stop
  compiler.py    visit_TryInterrupt   reversed(...) on the condition and handler tuples, argument order of the
                                      runTryInterrupt call, whether usedBreak/usedContinue are saved/restored and the
                                      emitted break/continue/return are re-visited, whether generated names are kept
                                      out of the `nonlocal` declaration
  compiler.py    generateInvocation   [yield, checkInvariants(self, ...)] order
"""
import ast

from translate.astutil import TemplateMismatch, body_nodoc, expect, get_def, is_name, load

INV = "src/scenic/core/dynamics/invocables.py"
BEH = "src/scenic/core/dynamics/behaviors.py"
COMP = "src/scenic/syntax/compiler.py"

FIELDS = ["condsReversed", "handlersReversed", "useEnabled", "useRunning", "firstWins", "finishedContinues",
          "tiCheck", "tiCheckSkipsSub", "checkAfterInvoke", "checkBeforeInvoke", "startPre", "startInv",
          "stopInFinally", "nestedFlow", "nestedNames", "closeBlocks"]


def _attr_of(node, base, attr=None):
    return (isinstance(node, ast.Attribute) and is_name(node.value, base) and (attr is None or node.attr == attr))


def _is_check_call(stmt, agent_names):
    """`behavior.checkInvariants(<agent>, *behavior._args, **behavior._kwargs)` -> agent expression or None"""
    if not (isinstance(stmt, ast.Expr) and isinstance(stmt.value, ast.Call)):
        return None
    call = stmt.value
    if not _attr_of(call.func, "behavior", "checkInvariants"):
        return None
    expect(len(call.args) == 2 and isinstance(call.args[1], ast.Starred) and _attr_of(call.args[1].value, "behavior", "_args"),
           "runTryInterrupt: arguments of the invariant re-check changed")
    expect(len(call.keywords) == 1 and call.keywords[0].arg is None and _attr_of(call.keywords[0].value, "behavior", "_kwargs"),
           "runTryInterrupt: keyword arguments of the invariant re-check changed")
    return call.args[0]


def extract_runtime():
    src, tree = load(INV)
    fn = get_def(tree, "runTryInterrupt", INV)
    expect([a.arg for a in fn.args.args] == ["behavior", "agent", "body", "conditions", "handlers"],
           "runTryInterrupt: parameters changed")
    body = body_nodoc(fn)
    expect(len(body) == 3, "runTryInterrupt: body shape changed")
    a0, a1, loop = body
    # body = InterruptBlock(None, body)
    expect(isinstance(a0, ast.Assign) and is_name(a0.targets[0], "body") and isinstance(a0.value, ast.Call)
           and is_name(a0.value.func, "InterruptBlock") and len(a0.value.args) == 2
           and isinstance(a0.value.args[0], ast.Constant) and a0.value.args[0].value is None and is_name(a0.value.args[1], "body"),
           "runTryInterrupt: body = InterruptBlock(None, body)")
    # interrupts = [InterruptBlock(c, h) for c, h in zip(conditions, handlers)]
    ok = (isinstance(a1, ast.Assign) and is_name(a1.targets[0], "interrupts") and isinstance(a1.value, ast.ListComp)
          and len(a1.value.generators) == 1 and not a1.value.generators[0].ifs)
    expect(ok, "runTryInterrupt: interrupts = [...]")
    comp = a1.value
    g = comp.generators[0]
    expect(isinstance(comp.elt, ast.Call) and is_name(comp.elt.func, "InterruptBlock") and len(comp.elt.args) == 2
           and isinstance(g.target, ast.Tuple) and len(g.target.elts) == 2
           and all(isinstance(e, ast.Name) for e in g.target.elts)
           and [e.id for e in g.target.elts] == [a.id for a in comp.elt.args if isinstance(a, ast.Name)]
           and isinstance(g.iter, ast.Call) and is_name(g.iter.func, "zip") and len(g.iter.args) == 2
           and is_name(g.iter.args[0], "conditions") and is_name(g.iter.args[1], "handlers"),
           "runTryInterrupt: InterruptBlock(c, h) for c, h in zip(conditions, handlers)")
    closes_blocks = False
    if isinstance(loop, ast.Try):
        # try: while True: ... finally: body.close(); for interrupt in interrupts: interrupt.close()
        expect(len(loop.body) == 1 and not loop.handlers and not loop.orelse and len(loop.finalbody) == 2,
               "runTryInterrupt: try/finally around the scheduling loop")
        f0, f1 = loop.finalbody
        expect(isinstance(f0, ast.Expr) and isinstance(f0.value, ast.Call) and _attr_of(f0.value.func, "body", "close")
               and isinstance(f1, ast.For) and is_name(f1.iter, "interrupts") and len(f1.body) == 1
               and isinstance(f1.body[0], ast.Expr) and isinstance(f1.body[0].value, ast.Call)
               and isinstance(f1.body[0].value.func, ast.Attribute) and f1.body[0].value.func.attr == "close",
               "runTryInterrupt: finally does not close the blocks")
        cl = get_def(get_def(tree, "InterruptBlock", INV), "close", INV)
        cd = ast.dump(cl)
        expect("runningIterator" in cd and "attr='close'" in cd, "InterruptBlock.close does not close the running iterator")
        closes_blocks = True
        loop = loop.body[0]
    expect(isinstance(loop, ast.While) and isinstance(loop.test, ast.Constant) and loop.test.value is True and not loop.orelse,
           "runTryInterrupt: while True")
    lb = loop.body
    expect(len(lb) == 4, "runTryInterrupt: loop body shape changed")
    s0, sel, stp, fin = lb
    expect(isinstance(s0, ast.Assign) and is_name(s0.targets[0], "block") and is_name(s0.value, "body"), "block = body")
    expect(isinstance(sel, ast.For) and is_name(sel.target, "interrupt") and is_name(sel.iter, "interrupts") and not sel.orelse
           and len(sel.body) == 1 and isinstance(sel.body[0], ast.If) and not sel.body[0].orelse,
           "runTryInterrupt: selection loop")
    test = sel.body[0].test
    parts = test.values if isinstance(test, ast.BoolOp) and isinstance(test.op, ast.Or) else [test]
    names = []
    for p in parts:
        expect(_attr_of(p, "interrupt") and p.attr in ("isEnabled", "isRunning"), "selection test is not isEnabled/isRunning")
        names.append(p.attr)
    expect(len(set(names)) == len(names), "selection test repeats a property")
    ib = sel.body[0].body
    expect(len(ib) in (1, 2) and isinstance(ib[0], ast.Assign) and is_name(ib[0].targets[0], "block") and is_name(ib[0].value, "interrupt"),
           "selection: block = interrupt")
    first_wins = len(ib) == 2
    if first_wins:
        expect(isinstance(ib[1], ast.Break), "selection: break")
    # result, concluded = block.step(behavior, agent)
    expect(isinstance(stp, ast.Assign) and isinstance(stp.targets[0], ast.Tuple)
           and [getattr(e, "id", None) for e in stp.targets[0].elts] == ["result", "concluded"]
           and isinstance(stp.value, ast.Call) and _attr_of(stp.value.func, "block", "step")
           and [getattr(a, "id", None) for a in stp.value.args] == ["behavior", "agent"], "result, concluded = block.step(behavior, agent)")
    expect(isinstance(fin, ast.If) and is_name(fin.test, "concluded") and len(fin.body) == 1, "if concluded")
    inner = fin.body[0]
    # if result is FINISHED and block is not body: continue else: return result
    def is_finished(n):
        return (isinstance(n, ast.Compare) and is_name(n.left, "result") and len(n.ops) == 1 and isinstance(n.ops[0], ast.Is)
                and isinstance(n.comparators[0], ast.Attribute) and n.comparators[0].attr == "FINISHED")

    def not_body(n):
        return (isinstance(n, ast.Compare) and is_name(n.left, "block") and len(n.ops) == 1 and isinstance(n.ops[0], ast.IsNot)
                and is_name(n.comparators[0], "body"))
    if isinstance(inner, ast.Return):
        expect(is_name(inner.value, "result"), "return result")
        finished_continues = False
    else:
        expect(isinstance(inner, ast.If) and isinstance(inner.test, ast.BoolOp) and isinstance(inner.test.op, ast.And)
               and len(inner.test.values) == 2 and is_finished(inner.test.values[0]) and not_body(inner.test.values[1])
               and len(inner.body) == 1 and isinstance(inner.body[0], ast.Continue)
               and len(inner.orelse) == 1 and isinstance(inner.orelse[0], ast.Return) and is_name(inner.orelse[0].value, "result"),
               "if result is FINISHED and block is not body: continue / else: return result")
        finished_continues = True
    # else: yield result [; re-check]
    el = fin.orelse
    expect(len(el) in (1, 2) and isinstance(el[0], ast.Expr) and isinstance(el[0].value, ast.Yield) and is_name(el[0].value.value, "result"),
           "yield result")
    ti_check, skips_sub, agent_ok = False, False, True
    if len(el) == 2:
        chk = el[1]
        guard = None
        if isinstance(chk, ast.If):
            expect(not chk.orelse and len(chk.body) == 1, "guarded invariant re-check")
            guard, chk = chk.test, chk.body[0]
        agent = _is_check_call(chk, ("agent",))
        expect(agent is not None, "statement after `yield result` is not the invariant re-check")
        ti_check = True
        agent_ok = is_name(agent, "agent")
        if guard is not None:
            expect(isinstance(guard, ast.UnaryOp) and isinstance(guard.op, ast.Not)
                   and _attr_of(guard.operand, "behavior", "_subInvocationsInProgress"),
                   "the invariant re-check is guarded by an unknown condition")
            skips_sub = True
            _check_counter(tree)
    # InterruptBlock.isEnabled / isRunning / step
    ib = get_def(tree, "InterruptBlock", INV)
    running = get_def(ib, "isRunning", INV)
    rb = body_nodoc(running)
    expect(len(rb) == 1 and isinstance(rb[0], ast.Return) and isinstance(rb[0].value, ast.Compare)
           and _attr_of(rb[0].value.left, "self", "runningIterator") and isinstance(rb[0].value.ops[0], ast.IsNot),
           "InterruptBlock.isRunning")
    step = get_def(ib, "step", INV)
    dumped = ast.dump(step)
    expect("runningIterator" in dumped and "StopIteration" in dumped and "GeneratorType" in dumped, "InterruptBlock.step")
    # _checkAllPreconditions
    cap = body_nodoc(get_def(tree, "Invocable._checkAllPreconditions", INV))
    calls = []
    for st in cap:
        expect(isinstance(st, ast.Expr) and isinstance(st.value, ast.Call) and _attr_of(st.value.func, "self"), "_checkAllPreconditions")
        calls.append(st.value.func.attr)
    expect(calls in (["checkPreconditions", "checkInvariants"], ["checkPreconditions"], ["checkInvariants"], []),
           "_checkAllPreconditions: unexpected order/content " + repr(calls))
    return {"useEnabled": "isEnabled" in names, "useRunning": "isRunning" in names, "firstWins": first_wins,
            "finishedContinues": finished_continues, "tiCheck": ti_check, "tiCheckSkipsSub": skips_sub,
            "startPre": "checkPreconditions" in calls, "startInv": "checkInvariants" in calls,
            "_agentOk": agent_ok, "_enabledFirst": names[:1] == ["isEnabled"], "closeBlocks": closes_blocks}


def _check_counter(tree):
    """the counter read by the guarded re-check is maintained around every sub-invocation"""
    fn = get_def(tree, "Invocable._invokeSubBehavior", INV)
    body = body_nodoc(fn)
    expect(len(body) == 2 and isinstance(body[0], ast.AugAssign) and isinstance(body[0].op, ast.Add)
           and _attr_of(body[0].target, "self", "_subInvocationsInProgress")
           and isinstance(body[1], ast.Try) and len(body[1].finalbody) == 1
           and isinstance(body[1].finalbody[0], ast.AugAssign) and isinstance(body[1].finalbody[0].op, ast.Sub)
           and _attr_of(body[1].finalbody[0].target, "self", "_subInvocationsInProgress"),
           "_invokeSubBehavior does not maintain _subInvocationsInProgress around the invocation")


def extract_behaviors():
    src, tree = load(BEH)
    start = get_def(tree, "Behavior._start", BEH)
    calls = [n.func.attr for n in ast.walk(start) if isinstance(n, ast.Call) and isinstance(n.func, ast.Attribute)]
    starts_check = "_checkAllPreconditions" in calls
    inner = get_def(tree, "Behavior._invokeInner", BEH)
    body = body_nodoc(inner)
    # ... sub._start(agent); try: yield from sub._runningIterator finally: if sub._isRunning: sub._stop()
    # (before 0e4a55a4 the try statement was wrapped in `with veneer.executeInBehavior(sub):`; both shapes are accepted,
    #  which of them is present is reported as `_holdsContextAcrossYields`)
    starts = [n for n in body if isinstance(n, ast.Expr) and isinstance(n.value, ast.Call) and _attr_of(n.value.func, "sub", "_start")]
    expect(len(starts) == 1, "_invokeInner: sub._start(agent)")
    expect(len(starts[0].value.args) == 1 and is_name(starts[0].value.args[0], "agent") and not starts[0].value.keywords,
           "_invokeInner: sub._start(agent) -- the sub-behaviour is not started for the invoking agent")
    expect(body.index(starts[0]) == len(body) - 2, "_invokeInner: sub._start(agent) is not immediately followed by the last statement")
    last = body[-1]
    holds_ctx = isinstance(last, ast.With)
    if holds_ctx:
        expect(len(last.body) == 1 and len(last.items) == 1 and "executeInBehavior" in ast.dump(last.items[0]),
               "_invokeInner: with executeInBehavior(sub)")
        w = last.body[0]
    else:
        w = last

    def is_yf(n):
        return (isinstance(n, ast.Expr) and isinstance(n.value, ast.YieldFrom) and _attr_of(n.value.value, "sub", "_runningIterator"))

    def is_stop(n):
        if isinstance(n, ast.If):
            expect(_attr_of(n.test, "sub", "_isRunning") and len(n.body) == 1 and not n.orelse, "_invokeInner: if sub._isRunning")
            n = n.body[0]
        return isinstance(n, ast.Expr) and isinstance(n.value, ast.Call) and _attr_of(n.value.func, "sub", "_stop")
    if isinstance(w, ast.Try):
        expect(len(w.body) == 1 and is_yf(w.body[0]) and not w.handlers and not w.orelse, "_invokeInner: try: yield from sub._runningIterator")
        expect(len(w.finalbody) == 1 and is_stop(w.finalbody[0]), "_invokeInner: finally: sub._stop()")
        stop = True
    else:
        expect(is_yf(w), "_invokeInner: yield from sub._runningIterator")
        stop = False
    return {"stopInFinally": stop, "_startChecks": starts_check, "_holdsContextAcrossYields": holds_ctx}


def extract_compiler():
    src, tree = load(COMP)
    vt = get_def(tree, "ScenicToPythonTransformer.visit_TryInterrupt", COMP)

    def tuple_assign(name, listname):
        found = [n for n in ast.walk(vt) if isinstance(n, ast.Assign) and is_name(n.targets[0], name)]
        expect(len(found) == 1, f"visit_TryInterrupt: `{name} = ast.Tuple(...)` not found")
        v = found[0].value
        expect(isinstance(v, ast.Call) and _attr_of(v.func, "ast", "Tuple") and v.args and isinstance(v.args[0], ast.ListComp),
               f"visit_TryInterrupt: {name} is not ast.Tuple([...])")
        it = v.args[0].generators[0].iter
        if is_name(it, listname):
            return False
        expect(isinstance(it, ast.Call) and is_name(it.func, "reversed") and len(it.args) == 1 and is_name(it.args[0], listname),
               f"visit_TryInterrupt: {name} iterates over something other than [reversed](%s)" % listname)
        return True
    conds_rev = tuple_assign("conditions", "conditionNames")
    hands_rev = tuple_assign("handlers", "handlerNames")
    # args = [behaviorArg, self, body, conditions, handlers]
    args = [n for n in ast.walk(vt) if isinstance(n, ast.Assign) and is_name(n.targets[0], "args")]
    expect(len(args) == 1 and isinstance(args[0].value, ast.List) and len(args[0].value.elts) == 5, "visit_TryInterrupt: args = [...]")
    last2 = args[0].value.elts[3:]
    expect(is_name(last2[0], "conditions") and is_name(last2[1], "handlers"), "visit_TryInterrupt: argument order of runTryInterrupt")
    # handler i <-> condition i: both names appended in the same loop iteration
    loops = [n for n in vt.body if isinstance(n, ast.For)]
    expect(len(loops) == 1, "visit_TryInterrupt: handler loop")
    d = ast.dump(loops[0])
    expect("handlerNames" in d and "conditionNames" in d and "interrupt_when_handlers" in d, "visit_TryInterrupt: handler loop content")
    # nested flow: usedBreak/usedContinue saved and restored, emitted statements re-visited
    dump = ast.dump(vt)
    saves = [n for n in ast.walk(vt) if isinstance(n, ast.Assign) and isinstance(n.targets[0], ast.Tuple)
             and [getattr(e, "id", None) for e in n.targets[0].elts] == ["oldUsedBreak", "oldUsedContinue"]]
    restores = [n for n in ast.walk(vt) if isinstance(n, ast.Assign) and isinstance(n.targets[0], ast.Tuple)
                and [getattr(e, "attr", None) for e in n.targets[0].elts] == ["usedBreak", "usedContinue"]
                and isinstance(n.value, ast.Tuple) and [getattr(e, "id", None) for e in n.value.elts] == ["oldUsedBreak", "oldUsedContinue"]]

    def visited(kind):
        # self.visit(<...ast.Break()...>)
        for n in ast.walk(vt):
            if isinstance(n, ast.Call) and _attr_of(n.func, "self", "visit") and n.args:
                if any(isinstance(m, ast.Call) and _attr_of(m.func, "ast", kind) for m in ast.walk(n.args[0])):
                    return True
        return False
    raw = {k: any(isinstance(n, ast.Call) and _attr_of(n.func, "ast", k) for n in ast.walk(vt)) for k in ("Break", "Continue", "Return")}
    expect(all(raw.values()), "visit_TryInterrupt: no emitted break/continue/return")
    vis = [visited(k) for k in ("Break", "Continue", "Return")]
    if saves and restores and all(vis):
        nested_flow = True
    else:
        expect(not saves and not restores and not any(vis),
               "visit_TryInterrupt: partial handling of nested break/continue/return")
        nested_flow = False
    # nested names
    mk = [n for n in ast.walk(vt) if isinstance(n, ast.FunctionDef) and n.name == "makeInterruptBlock"]
    expect(len(mk) == 1, "visit_TryInterrupt: makeInterruptBlock")
    al = [n for n in ast.walk(mk[0]) if isinstance(n, ast.Assign) and is_name(n.targets[0], "allLocals")]
    expect(len(al) == 1 and isinstance(al[0].value, ast.Call) and is_name(al[0].value.func, "sorted") and len(al[0].value.args) == 1,
           "makeInterruptBlock: allLocals = sorted(...)")
    arg = al[0].value.args[0]
    if isinstance(arg, ast.Call) and _attr_of(arg.func, "LocalFinder", "findIn"):
        nested_names = False
    else:
        expect(isinstance(arg, ast.GeneratorExp) and len(arg.generators) == 1 and len(arg.generators[0].ifs) == 1
               and isinstance(arg.generators[0].iter, ast.Call) and _attr_of(arg.generators[0].iter.func, "LocalFinder", "findIn"),
               "makeInterruptBlock: unknown computation of the nonlocal names")
        cond = ast.dump(arg.generators[0].ifs[0])
        expect("interruptPrefix" in cond and "temporaryName" in cond and "startswith" in cond,
               "makeInterruptBlock: nonlocal filter does not exclude the generated names")
        nested_names = True
    nl = [n for n in ast.walk(mk[0]) if isinstance(n, ast.Call) and _attr_of(n.func, "ast", "Nonlocal")]
    expect(len(nl) == 1, "makeInterruptBlock: ast.Nonlocal")
    fin = [n for n in ast.walk(mk[0]) if isinstance(n, ast.Call) and _attr_of(n.func, "ast", "Return") and n.args and is_name(n.args[0], "finishedFlag")]
    expect(len(fin) == 1, "makeInterruptBlock: newBody.append(ast.Return(finishedFlag))")
    # visit_Break / visit_Continue / visit_Return / visit_Abort
    for nm, flag in (("visit_Break", "breakFlag"), ("visit_Continue", "continueFlag")):
        f = get_def(tree, "ScenicToPythonTransformer." + nm, COMP)
        b = body_nodoc(f)
        expect(len(b) == 1 and isinstance(b[0], ast.If) and isinstance(b[0].test, ast.BoolOp) and isinstance(b[0].test.op, ast.And)
               and len(b[0].test.values) == 2 and _attr_of(b[0].test.values[0], "self", "inInterruptBlock")
               and isinstance(b[0].test.values[1], ast.UnaryOp) and isinstance(b[0].test.values[1].op, ast.Not)
               and _attr_of(b[0].test.values[1].operand, "self", "inLoop"), nm + ": if self.inInterruptBlock and not self.inLoop")
        expect(flag in ast.dump(b[0]), nm + ": return " + flag)
    f = get_def(tree, "ScenicToPythonTransformer.visit_Return", COMP)
    b = body_nodoc(f)
    expect(len(b) == 1 and isinstance(b[0], ast.If) and _attr_of(b[0].test, "self", "inInterruptBlock") and "returnFlag" in ast.dump(b[0]),
           "visit_Return: if self.inInterruptBlock: return returnFlag(value)")
    # generateInvocation
    gi = get_def(tree, "ScenicToPythonTransformer.generateInvocation", COMP)
    rets = [n for n in ast.walk(gi) if isinstance(n, ast.Return)]
    expect(len(rets) == 1 and isinstance(rets[0].value, ast.List), "generateInvocation: return [...]")
    order = [getattr(e, "id", None) for e in rets[0].value.elts]
    expect(order in (["invokeAction", "checkInvariants"], ["checkInvariants", "invokeAction"], ["invokeAction"],
                     ["checkInvariants", "invokeAction", "checkInvariants"]), "generateInvocation: unexpected statements " + repr(order))
    assigns = {n.targets[0].id: n.value for n in ast.walk(gi) if isinstance(n, ast.Assign) and isinstance(n.targets[0], ast.Name)}
    expect("invokeAction" in assigns and "invoker(actionlike)" in ast.unparse(assigns["invokeAction"]), "generateInvocation: invokeAction")
    check_agent_ok = True
    if "checkInvariants" in order:
        expect("checkInvariants" in assigns and "checker" in assigns, "generateInvocation: checkInvariants")
        expect("checkInvariantsName" in ast.dump(assigns["checker"]) and "behaviorArgName" in ast.dump(assigns["checker"]),
               "generateInvocation: checker is not <behavior>.checkInvariants")
        call = [n for n in ast.walk(assigns["checkInvariants"]) if isinstance(n, ast.Call) and is_name(n.func, "checker")]
        call2 = [n for n in ast.walk(assigns["checkInvariants"]) if isinstance(n, ast.Call) and _attr_of(n.func, "ast", "Call")]
        expect(len(call2) == 1 and len(call2[0].args) >= 2 and isinstance(call2[0].args[1], ast.List), "generateInvocation: ast.Call(checker, [...])")
        first = call2[0].args[1].elts[0]
        check_agent_ok = "'self'" in ast.dump(first)
    after = order[-1] == "checkInvariants"
    before = order[0] == "checkInvariants"
    idx = order.index("invokeAction")
    return {"condsReversed": conds_rev, "handlersReversed": hands_rev, "nestedFlow": nested_flow, "nestedNames": nested_names,
            "checkAfterInvoke": after and idx < len(order) - 1, "checkBeforeInvoke": before and idx > 0,
            "_emittedAgentOk": check_agent_ok}


def extract():
    rt = extract_runtime()
    bh = extract_behaviors()
    cp = extract_compiler()
    cfg = {}
    cfg.update({k: v for k, v in rt.items() if not k.startswith("_")})
    cfg.update({k: v for k, v in cp.items() if not k.startswith("_")})
    cfg["stopInFinally"] = bh["stopInFinally"]
    if not bh["_startChecks"]:
        cfg["startPre"] = cfg["startInv"] = False
    expect(set(cfg) == set(FIELDS), "internal: field set")
    extra = {"tiCheckPassesAgent": rt["_agentOk"] and cp["_emittedAgentOk"]}
    return cfg, extra


def to_lean(cfg, extra):
    b = lambda v: "true" if v else "false"
    fields = ",\n    ".join(f"{k} := {b(cfg[k])}" for k in FIELDS)
    return f"""import ScenicModel.Model.Interrupts
namespace Scenic.Gen
open Scenic.Interrupts
/-- shape of runTryInterrupt / visit_TryInterrupt / generateInvocation / _checkAllPreconditions / _invokeInner -/
def interruptCfg : Cfg :=
  {{ {fields} }}
/-- the invariant re-check of runTryInterrupt and the check emitted by generateInvocation pass the agent -/
def tiCheckPassesAgent : Bool := {b(extra['tiCheckPassesAgent'])}
end Scenic.Gen
"""
