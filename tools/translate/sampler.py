"""distributions.py / scenarios.py -> Gen/SamplerCfg.lean (`Scenic.Gen.samplerCfg : Scenic.Sampler.Cfg`).

Extracted (template matching on the ASTs; anything of another shape raises TemplateMismatch):

* `DiscreteRange.sampleGiven`: the rounding applied to each bound (`math.ceil` / `math.floor`), the comparison of the
  empty test, and that the draw is `random.randint(left, right)`; the weighted branch is `random.choices(...)[0]`;
* `Options.__init__` / `Options.makeSelector`: the selector is `DiscreteRange(<lo>, len(options) <+/-> <k>, weights)`;
* `UniformDistribution.__init__`: the selector is `DiscreteRange(<lo>, length <+/-> <k>, ...)` with `length` the sum of
  the starred options' lengths and one per plain option;
* `Samplable.sampleAll` / `Samplable.sample`: both guard the recursive draw by `not in subsamples` (shape only);
* `Scenario._generateInner`: the comparison deciding the activation of a soft requirement and its operand, the
  initial value of `iterations`, the give-up test, and that the loop body samples all dependencies once and then
  checks the requirements (shape only).
"""
import ast

from translate.astutil import TemplateMismatch, body_nodoc, const_int, expect, get_def, is_name, load

DIST = "src/scenic/core/distributions.py"
SCEN = "src/scenic/core/scenarios.py"

CMP = {ast.Lt: "lt", ast.LtE: "le", ast.Gt: "gt", ast.GtE: "ge"}
FLIP = {"lt": "gt", "le": "ge", "gt": "lt", "ge": "le"}


def _is_attr(node, base, attr):
    return isinstance(node, ast.Attribute) and node.attr == attr and is_name(node.value, base)


def _call_name(node):
    """'mod.func' / 'func' of a call node, else None"""
    if not isinstance(node, ast.Call):
        return None
    f = node.func
    if isinstance(f, ast.Attribute) and isinstance(f.value, ast.Name):
        return f"{f.value.id}.{f.attr}"
    if isinstance(f, ast.Name):
        return f.id
    if isinstance(f, ast.Attribute):
        return f"?.{f.attr}"
    return None


def _value_sub(node, attr):
    """value[self.<attr>]"""
    return (isinstance(node, ast.Subscript) and is_name(node.value, "value") and _is_attr(node.slice, "self", attr))


def _offset(node, what):
    """<what> - k  /  <what> + k  /  <what>  ->  signed k; `what` is a predicate on the base node"""
    if what(node):
        return 0
    if isinstance(node, ast.BinOp) and what(node.left) and isinstance(node.op, (ast.Sub, ast.Add)):
        k = const_int(node.right)
        return -k if isinstance(node.op, ast.Sub) else k
    raise TemplateMismatch(f"selector bound has an unexpected shape: {ast.dump(node)[:100]}")


def extract_discrete_range(tree):
    fn = get_def(tree, "DiscreteRange.sampleGiven", DIST)
    body = body_nodoc(fn)
    expect(len(body) == 4, "DiscreteRange.sampleGiven: expected 4 statements")
    w, assign, test, ret = body
    expect(isinstance(w, ast.If) and _is_attr(w.test, "self", "weights") and len(w.body) == 1 and not w.orelse
           and isinstance(w.body[0], ast.Return), "weighted branch: `if self.weights: return ...`")
    wv = w.body[0].value
    expect(isinstance(wv, ast.Subscript) and const_int(wv.slice) == 0 and _call_name(wv.value) == "random.choices",
           "weighted branch is not random.choices(...)[0]")
    wc = wv.value
    expect(len(wc.args) == 1 and _is_attr(wc.args[0], "self", "options") and len(wc.keywords) == 1
           and wc.keywords[0].arg == "cum_weights" and _is_attr(wc.keywords[0].value, "self", "cumulativeWeights"),
           "random.choices(self.options, cum_weights=self.cumulativeWeights)")
    expect(isinstance(assign, ast.Assign) and len(assign.targets) == 1 and isinstance(assign.targets[0], ast.Tuple)
           and [getattr(e, "id", None) for e in assign.targets[0].elts] == ["left", "right"]
           and isinstance(assign.value, ast.Tuple) and len(assign.value.elts) == 2, "left, right = ..., ...")
    rounds = []
    for e, attr in zip(assign.value.elts, ("low", "high")):
        nm = _call_name(e)
        expect(nm in ("math.ceil", "math.floor") and len(e.args) == 1 and _value_sub(e.args[0], attr),
               f"bound `{attr}` is not math.ceil/floor(value[self.{attr}])")
        rounds.append(nm.split(".")[1])
    expect(isinstance(test, ast.If) and not test.orelse and len(test.body) == 1 and isinstance(test.body[0], ast.Raise)
           and _call_name(test.body[0].exc) == "RejectionException", "empty test does not raise RejectionException")
    c = test.test
    expect(isinstance(c, ast.Compare) and len(c.ops) == 1 and type(c.ops[0]) in CMP, "empty test is not a comparison")
    op = CMP[type(c.ops[0])]
    l, r = c.left, c.comparators[0]
    if is_name(l, "left") and is_name(r, "right"):
        op = FLIP[op]
    else:
        expect(is_name(l, "right") and is_name(r, "left"), "empty test does not compare left and right")
    # now normalised to  right <op> left
    expect(op in ("lt", "le"), f"empty test `right {op} left` rejects non-empty ranges")
    expect(isinstance(ret, ast.Return) and _call_name(ret.value) == "random.randint" and len(ret.value.args) == 2
           and is_name(ret.value.args[0], "left") and is_name(ret.value.args[1], "right") and not ret.value.keywords,
           "draw is not random.randint(left, right)")
    return {"lowRound": rounds[0], "highRound": rounds[1], "emptyStrict": op == "lt"}


def extract_options(tree):
    init = get_def(tree, "Options.__init__", DIST)
    sel = None
    for node in ast.walk(init):
        if isinstance(node, ast.Assign) and is_name(node.targets[0], "index"):
            sel = node.value
    expect(sel is not None and isinstance(sel, ast.Call) and isinstance(sel.func, ast.Attribute)
           and sel.func.attr == "makeSelector" and len(sel.args) == 2 and is_name(sel.args[1], "weights"),
           "Options.__init__: index = self.makeSelector(<n>, weights)")
    off = _offset(sel.args[0], lambda n: _call_name(n) == "len" and len(n.args) == 1 and is_name(n.args[0], "options"))
    last = init.body[-1]
    expect(isinstance(last, ast.Expr) and isinstance(last.value, ast.Call) and isinstance(last.value.func, ast.Attribute)
           and last.value.func.attr == "__init__" and len(last.value.args) == 2 and is_name(last.value.args[0], "index")
           and is_name(last.value.args[1], "options"), "Options.__init__ does not end with super().__init__(index, options)")
    mk = get_def(tree, "Options.makeSelector", DIST)
    body = body_nodoc(mk)
    expect(len(body) == 1 and isinstance(body[0], ast.Return) and _call_name(body[0].value) == "DiscreteRange"
           and len(body[0].value.args) == 3 and is_name(body[0].value.args[2], "weights"),
           "makeSelector: return DiscreteRange(<lo>, <n>, weights)")
    lo = const_int(body[0].value.args[0])
    off2 = _offset(body[0].value.args[1], lambda n: is_name(n, "n"))
    # the multiplexer stores its selector (first constructor argument) in some attribute, passes it as the first
    # dependency, and picks options[value[selector]]
    minit = get_def(tree, "MultiplexerDistribution.__init__", DIST)
    params = [a.arg for a in minit.args.args]
    expect(len(params) == 3 and params[0] == "self", "MultiplexerDistribution.__init__(self, <index>, <options>)")
    p_idx, p_opts = params[1], params[2]
    idx_attr = None
    for node in body_nodoc(minit):
        if (isinstance(node, ast.Assign) and len(node.targets) == 1 and isinstance(node.targets[0], ast.Attribute)
                and is_name(node.targets[0].value, "self") and is_name(node.value, p_idx)):
            idx_attr = node.targets[0].attr
    expect(idx_attr is not None, "MultiplexerDistribution.__init__ does not store its selector in an attribute")
    sup = body_nodoc(minit)[-1]
    expect(isinstance(sup, ast.Expr) and isinstance(sup.value, ast.Call) and isinstance(sup.value.func, ast.Attribute)
           and sup.value.func.attr == "__init__" and len(sup.value.args) == 2 and is_name(sup.value.args[0], p_idx)
           and isinstance(sup.value.args[1], ast.Starred) and _is_attr(sup.value.args[1].value, "self", "options"),
           "MultiplexerDistribution.__init__: super().__init__(<index>, *self.options, ...)")
    mux = get_def(tree, "MultiplexerDistribution.sampleGiven", DIST)
    mbody = body_nodoc(mux)
    first = mbody[0]
    expect(isinstance(first, ast.Assign) and len(first.targets) == 1 and isinstance(first.targets[0], ast.Name)
           and _value_sub(first.value, idx_attr),
           f"MultiplexerDistribution.sampleGiven: <idx> = value[self.{idx_attr}]")
    local = first.targets[0].id
    ret = mbody[-1]
    expect(isinstance(ret, ast.Return) and isinstance(ret.value, ast.Subscript) and is_name(ret.value.value, "value")
           and isinstance(ret.value.slice, ast.Subscript) and _is_attr(ret.value.slice.value, "self", "options")
           and is_name(ret.value.slice.slice, local),
           "MultiplexerDistribution.sampleGiven: return value[self.options[<idx>]]")
    for s in mbody[1:-1]:
        expect(isinstance(s, ast.Assert), "MultiplexerDistribution.sampleGiven: only assertions between the two")
    return {"selLo": lo, "selHiOff": off + off2, "muxIndexAttr": idx_attr}


WCMP = {ast.Lt: "lt", ast.LtE: "le", ast.Eq: "eq", ast.NotEq: "ne", ast.GtE: "ge", ast.Gt: "gt"}
WFLIP = {"lt": "gt", "le": "ge", "eq": "eq", "ne": "ne", "ge": "le", "gt": "lt"}


def _cmp_const(test, what, msg):
    """`<what> <cmp> <int>` or `<int> <cmp> <what>` -> (cmp normalised to the first form, int)"""
    expect(isinstance(test, ast.Compare) and len(test.ops) == 1 and type(test.ops[0]) in WCMP, msg)
    op = WCMP[type(test.ops[0])]
    l, r = test.left, test.comparators[0]
    if what(l):
        return op, const_int(r)
    expect(what(r), msg)
    return WFLIP[op], const_int(l)


def extract_options_build(tree):
    """dict branch of `Options.__init__`: for <opt>, <prob> in opts.items(): type test (raise TypeError); negative
    test (raise ValueError); skip test (continue); options.append(<opt>); weights.append(<prob>) -- then the empty test
    raising RejectionException before the selector is made.  Loop variable names are free."""
    init = get_def(tree, "Options.__init__", DIST)
    body = body_nodoc(init)
    br = body[0]
    expect(isinstance(br, ast.If) and _call_name(br.test) == "isinstance" and is_name(br.test.args[0], "opts")
           and is_name(br.test.args[1], "dict"), "Options.__init__: if isinstance(opts, dict): ...")
    loops = [s for s in br.body if isinstance(s, ast.For)]
    expect(len(loops) == 1, "dict branch: exactly one loop")
    loop = loops[0]
    expect(isinstance(loop.target, ast.Tuple) and len(loop.target.elts) == 2
           and all(isinstance(e, ast.Name) for e in loop.target.elts) and isinstance(loop.iter, ast.Call)
           and isinstance(loop.iter.func, ast.Attribute) and loop.iter.func.attr == "items"
           and is_name(loop.iter.func.value, "opts") and not loop.orelse, "for <opt>, <prob> in opts.items()")
    v_opt, v_prob = (e.id for e in loop.target.elts)
    is_prob = lambda n: is_name(n, v_prob)
    st = loop.body
    expect(len(st) == 5, "weight loop: type test, negative test, skip test, two appends")
    ty, neg, skip, a1, a2 = st
    expect(isinstance(ty, ast.If) and not ty.orelse and isinstance(ty.test, ast.UnaryOp) and isinstance(ty.test.op, ast.Not)
           and _call_name(ty.test.operand) == "isinstance" and is_prob(ty.test.operand.args[0])
           and len(ty.body) == 1 and isinstance(ty.body[0], ast.Raise) and _call_name(ty.body[0].exc) == "TypeError",
           "type test: if not isinstance(<prob>, ...): raise TypeError")
    expect(isinstance(neg, ast.If) and not neg.orelse and len(neg.body) == 1 and isinstance(neg.body[0], ast.Raise)
           and _call_name(neg.body[0].exc) == "ValueError", "negative test: if <prob> < 0: raise ValueError")
    neg_cmp, neg_k = _cmp_const(neg.test, is_prob, "negative test compares the weight with a constant")
    expect(isinstance(skip, ast.If) and not skip.orelse and len(skip.body) == 1 and isinstance(skip.body[0], ast.Continue),
           "skip test: if <prob> == 0: continue")
    skip_cmp, skip_k = _cmp_const(skip.test, is_prob, "skip test compares the weight with a constant")

    def appends(s, lst, var):
        return (isinstance(s, ast.Expr) and isinstance(s.value, ast.Call) and isinstance(s.value.func, ast.Attribute)
                and s.value.func.attr == "append" and is_name(s.value.func.value, lst) and len(s.value.args) == 1
                and is_name(s.value.args[0], var))
    pair = {("options", v_opt), ("weights", v_prob)}
    got = set()
    for s in (a1, a2):
        for lst, var in pair:
            if appends(s, lst, var):
                got.add((lst, var))
    expect(got == pair, "options.append(<opt>) and weights.append(<prob>)")
    inits = [s for s in br.body if isinstance(s, ast.Assign) and isinstance(s.targets[0], ast.Tuple)
             and [getattr(e, "id", None) for e in s.targets[0].elts] == ["options", "weights"]]
    expect(len(inits) == 1 and br.body.index(inits[0]) < br.body.index(loop), "options, weights = [], [] before the loop")
    # the empty test, before the selector is made
    empty = None
    for i, s in enumerate(body[1:], 1):
        if isinstance(s, ast.If) and len(s.body) == 1 and isinstance(s.body[0], ast.Raise) \
                and _call_name(s.body[0].exc) == "RejectionException":
            empty = s
            expect(any(isinstance(t, ast.Assign) and is_name(t.targets[0], "index") for t in body[i + 1:]),
                   "empty test comes before the selector")
    expect(empty is not None and not empty.orelse, "if len(options) == 0: raise RejectionException")
    e_cmp, e_k = _cmp_const(empty.test, lambda n: _call_name(n) == "len" and len(n.args) == 1 and is_name(n.args[0], "options"),
                            "empty test compares len(options) with a constant")
    # Options.clone rebuilds from the kept weights (or the options when unweighted)
    cl = body_nodoc(get_def(tree, "Options.clone", DIST))
    expect(len(cl) == 1 and isinstance(cl[0], ast.Return) and isinstance(cl[0].value, ast.Call) and len(cl[0].value.args) == 1
           and _call_name(cl[0].value.func) == "type" and isinstance(cl[0].value.args[0], ast.IfExp)
           and _is_attr(cl[0].value.args[0].test, "self", "optWeights") and _is_attr(cl[0].value.args[0].body, "self", "optWeights")
           and _is_attr(cl[0].value.args[0].orelse, "self", "options"),
           "Options.clone: return type(self)(self.optWeights if self.optWeights else self.options)")
    ow = [s for s in br.body if isinstance(s, ast.Assign) and _is_attr(s.targets[0], "self", "optWeights")]
    expect(len(ow) == 1 and _call_name(ow[0].value) == "dict" and _call_name(ow[0].value.args[0]) == "zip"
           and [getattr(a, "id", None) for a in ow[0].value.args[0].args] == ["options", "weights"]
           and br.body.index(ow[0]) > br.body.index(loop), "self.optWeights = dict(zip(options, weights)) after the loop")
    return {"negCmp": neg_cmp, "negConst": neg_k, "skipCmp": skip_cmp, "skipConst": skip_k, "emptyCmp": e_cmp, "emptyConst": e_k}


OPT_REFERENCE = {"negCmp": "lt", "negConst": 0, "skipCmp": "eq", "skipConst": 0, "emptyCmp": "eq", "emptyConst": 0}


def extract_opt():
    _, dist = load(DIST)
    return extract_options_build(dist)


def to_lean_opt(d):
    return f"""import ScenicModel.Model.SamplerOptions
namespace Scenic.Gen
open Scenic.Sampler
/-- constants of the dict branch of `Options.__init__` (distributions.py) -/
def optCfg : OptCfg :=
  {{ negCmp := .{d['negCmp']}, negConst := {_int(d['negConst'])}, skipCmp := .{d['skipCmp']}, skipConst := {_int(d['skipConst'])},
    emptyCmp := .{d['emptyCmp']}, emptyConst := {_int(d['emptyConst'])} }}
end Scenic.Gen
"""


def extract_uniform(tree):
    init = get_def(tree, "UniformDistribution.__init__", DIST)
    sel = None
    length0 = None
    loop = None
    for node in init.body:
        if isinstance(node, ast.Assign) and _is_attr(node.targets[0], "self", "selector"):
            sel = node.value
        if isinstance(node, ast.Assign) and is_name(node.targets[0], "length"):
            length0 = const_int(node.value)
        if isinstance(node, ast.For):
            loop = node
    expect(sel is not None and _call_name(sel) == "DiscreteRange" and len(sel.args) == 2,
           "UniformDistribution.__init__: self.selector = DiscreteRange(<lo>, <hi>, ...)")
    expect(length0 == 0, "length does not start at 0")
    expect(loop is not None and is_name(loop.iter, "opts") and len(loop.body) == 1 and isinstance(loop.body[0], ast.If),
           "length loop")
    br = loop.body[0]
    expect(_call_name(br.test) == "isinstance" and len(br.body) == 1 and len(br.orelse) == 1, "length loop branches")
    a, b = br.body[0], br.orelse[0]
    expect(isinstance(a, ast.AugAssign) and isinstance(a.op, ast.Add) and is_name(a.target, "length")
           and isinstance(a.value, ast.Call) and isinstance(a.value.func, ast.Attribute) and a.value.func.attr == "__len__",
           "starred option adds its length")
    expect(isinstance(b, ast.AugAssign) and isinstance(b.op, ast.Add) and is_name(b.target, "length")
           and const_int(b.value) == 1, "plain option adds 1")
    return {"dynSelLo": const_int(sel.args[0]), "dynSelHiOff": _offset(sel.args[1], lambda n: is_name(n, "length"))}


def check_sample_all(tree):
    fn = get_def(tree, "Samplable.sampleAll", DIST)
    body = body_nodoc(fn)
    expect(len(body) == 3 and isinstance(body[1], ast.For) and len(body[1].body) == 1 and isinstance(body[1].body[0], ast.If),
           "sampleAll: for q in quantities: if q not in subsamples: ...")
    t = body[1].body[0].test
    expect(isinstance(t, ast.Compare) and isinstance(t.ops[0], ast.NotIn) and is_name(t.comparators[0], "subsamples"),
           "sampleAll: guard `q not in subsamples`")
    fn = get_def(tree, "Samplable.sample", DIST)
    body = body_nodoc(fn)
    loops = [s for s in body if isinstance(s, ast.For)]
    expect(len(loops) == 1 and len(loops[0].body) == 1 and isinstance(loops[0].body[0], ast.If), "sample: dependency loop")
    it = loops[0].iter
    expect(isinstance(it, ast.Attribute) and it.attr == "_dependencies", "sample: iterates over _dependencies")
    t = loops[0].body[0].test
    expect(isinstance(t, ast.Compare) and isinstance(t.ops[0], ast.NotIn) and is_name(t.comparators[0], "subsamples"),
           "sample: guard `child not in subsamples`")
    st = loops[0].body[0].body
    expect(len(st) == 1 and isinstance(st[0], ast.Assign) and isinstance(st[0].targets[0], ast.Subscript)
           and is_name(st[0].targets[0].value, "subsamples"), "sample: subsamples[child] = child.sample(subsamples)")
    expect(isinstance(body[-1], ast.Return) and isinstance(body[-1].value, ast.Call)
           and isinstance(body[-1].value.func, ast.Attribute) and body[-1].value.func.attr == "sampleGiven",
           "sample: return ....sampleGiven(subsamples)")


def extract_generate(tree):
    fn = get_def(tree, "Scenario._generateInner", SCEN)
    body = body_nodoc(fn)
    act = body[0]
    expect(isinstance(act, ast.For) and _is_attr(act.iter, "self", "userRequirements") and len(act.body) == 1
           and isinstance(act.body[0], ast.If), "activation loop over self.userRequirements")
    br = act.body[0]

    def sets_active(stmts, val):
        return (len(stmts) == 1 and isinstance(stmts[0], ast.Assign) and _is_attr(stmts[0].targets[0], "req", "active")
                and isinstance(stmts[0].value, ast.Constant) and stmts[0].value.value is val)
    expect(sets_active(br.body, True) and sets_active(br.orelse, False), "activation sets req.active True / False")
    c = br.test
    expect(isinstance(c, ast.Compare) and len(c.ops) == 1 and type(c.ops[0]) in CMP, "activation test is not a comparison")
    op = CMP[type(c.ops[0])]
    l, r = c.left, c.comparators[0]
    if _call_name(r) == "random.random":
        l, r, op = r, l, FLIP[op]
    expect(_call_name(l) == "random.random" and not l.args, "activation does not draw random.random()")
    if _is_attr(r, "req", "prob"):
        one_minus = False
    elif (isinstance(r, ast.BinOp) and isinstance(r.op, ast.Sub) and isinstance(r.left, ast.Constant) and r.left.value == 1
          and _is_attr(r.right, "req", "prob")):
        one_minus = True
    else:
        raise TemplateMismatch("activation operand is neither req.prob nor 1 - req.prob")
    # the loop
    it0 = None
    loop = None
    for s in body[1:]:
        if isinstance(s, ast.Assign) and is_name(s.targets[0], "iterations"):
            it0 = const_int(s.value)
        if isinstance(s, ast.While):
            loop = s
    expect(it0 is not None and loop is not None, "iterations = <k>; while ...")
    stop = None
    incr_seen = False
    calls = []
    for s in loop.body:
        if (isinstance(s, ast.If) and isinstance(s.test, ast.Compare) and is_name(s.test.left, "iterations")
                and is_name(s.test.comparators[0], "maxIterations") and isinstance(s.body[0], ast.Raise)):
            expect(not incr_seen, "give-up test after the increment")
            stop = CMP.get(type(s.test.ops[0]))
        if isinstance(s, ast.AugAssign) and is_name(s.target, "iterations"):
            expect(isinstance(s.op, ast.Add) and const_int(s.value) == 1, "iterations += 1")
            incr_seen = True
        for n in ast.walk(s):
            nm = _call_name(n)
            if nm in ("Samplable.sampleAll", "?.checkRequirements"):
                calls.append(nm)
                if nm == "Samplable.sampleAll":
                    expect(len(n.args) == 1 and _is_attr(n.args[0], "self", "dependencies"),
                           "sampleAll is not applied to self.dependencies")
    expect(stop in ("ge", "gt") and incr_seen, "give-up test `iterations >= maxIterations` / increment not found")
    expect(calls == ["Samplable.sampleAll", "?.checkRequirements"],
           f"loop body does not sample once and then check once (calls: {calls})")
    last = body[-1]
    expect(isinstance(last, ast.Return) and isinstance(last.value, ast.Tuple) and is_name(last.value.elts[1], "iterations"),
           "returns (scene, iterations)")
    return {"actCmp": op, "actOneMinus": one_minus, "iterStart": it0, "stopCmp": stop}


#: the configuration the model was written against (used only when the template no longer matches the source)
REFERENCE = {"lowRound": "ceil", "highRound": "floor", "emptyStrict": True, "selLo": 0, "selHiOff": -1, "dynSelLo": 0,
             "dynSelHiOff": -1, "actCmp": "le", "actOneMinus": False, "iterStart": 0, "stopCmp": "ge",
             "muxIndexAttr": "_index"}


def extract():
    _, dist = load(DIST)
    _, scen = load(SCEN)
    d = {}
    d.update(extract_discrete_range(dist))
    d.update(extract_options(dist))
    d.update(extract_uniform(dist))
    check_sample_all(dist)
    d.update(extract_generate(scen))
    expect(d["iterStart"] >= 0, "negative initial iteration count")
    return d


def _int(z):
    return f"({z})" if z < 0 else str(z)


def to_lean(d):
    b = lambda x: "true" if x else "false"
    return f"""import ScenicModel.Model.Sampler
namespace Scenic.Gen
open Scenic.Sampler
/-- constants of `DiscreteRange.sampleGiven`, `Options.__init__`, `UniformDistribution.__init__` (distributions.py)
    and `Scenario._generateInner` (scenarios.py) -/
def samplerCfg : Cfg :=
  {{ lowRound := .{d['lowRound']}, highRound := .{d['highRound']}, emptyStrict := {b(d['emptyStrict'])},
    selLo := {_int(d['selLo'])}, selHiOff := {_int(d['selHiOff'])}, dynSelLo := {_int(d['dynSelLo'])}, dynSelHiOff := {_int(d['dynSelHiOff'])},
    actCmp := .{d['actCmp']}, actOneMinus := {b(d['actOneMinus'])}, iterStart := {d['iterStart']}, stopCmp := .{d['stopCmp']} }}
end Scenic.Gen
"""
