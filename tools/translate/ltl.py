"""C11 translator: propositions.py, requirements.py, dynamics/scenarios.py (in $SCENIC_REPO) and the installed
rv_ltl package  ->  Gen/LTL.lean  (`monCfg`, `rule`, `ctorMap`, `sugar`).

What is extracted (data), and the shape each piece of source must have (anything else: TemplateMismatch):

* rv_ltl/monitor.py `UntilMonitor._evaluate_at`: the upper bound of the inner `range(i, <bound>)`
  (`min(i + k, self._last_index)` -> untilShift = true, `k` -> false); the rest of rv_ltl (b4.py, proposition.py,
  monitor.py with that bound masked) must be *exactly* the code the Lean model `evalAt` was written from
  (normalised-AST equality with the digests below; docstrings/comments/formatting do not matter); the expansions
  of the sugar monitors are extracted as strings.
* propositions.py: for each proposition class the rv_ltl constructor it builds and the order of the operands;
  `children` must return all operands (else atoms would be missing from the monitor state); `PropositionMonitor`
  and `PropositionNode.flatten/atomics/create_monitor` must have the known shape (all atoms evaluated once per
  update, verdict read with `evaluate()` = index 0).
* dynamics/scenarios.py: the verdict tests of `_step` (must be the first thing after `super()._step()`), of
  `_stop`, the construction of the monitors in `_start`, and `_addDynamicRequirement` (with or without a monitor
  for a scenario that is already running).
* requirements.py: initial `lastValue`, `value()`, the two closures (`monitor.update()` when a monitor is given),
  `CompiledRequirement.falsifiedByInner`.
"""
import ast
import copy
import hashlib
import os

from translate.astutil import TemplateMismatch, body_nodoc, expect, get_def, is_name, load

B4VAL = {"TRUE": 4, "PRESUMABLY_TRUE": 3, "PRESUMABLY_FALSE": 2, "FALSE": 1}

# normalised-AST digests of the rv_ltl sources the model was written from (rv-ltl 0.1.0a1)
RV_DIGESTS = {
    "b4.py": "ed9c7525e3676754",
    "proposition.py": "a84c5fad85633107",
    "monitor.py": "b13c722a335b1933",
}


# --------------------------------------------------------------------------------------------- helpers
def strip_docstrings(tree):
    tree = copy.deepcopy(tree)
    for node in ast.walk(tree):
        if isinstance(node, (ast.FunctionDef, ast.ClassDef, ast.AsyncFunctionDef, ast.Module)):
            b = node.body
            if b and isinstance(b[0], ast.Expr) and isinstance(b[0].value, ast.Constant) and isinstance(b[0].value.value, str):
                node.body = b[1:] or [ast.Pass()]
    return tree


def digest(tree):
    return hashlib.sha256(ast.dump(strip_docstrings(tree)).encode()).hexdigest()[:16]


def same_shape(node, src, what):
    """the node (function / class / statement list) equals the parsed template source, docstrings aside"""
    want = ast.parse(src).body
    want = want[0] if len(want) == 1 else ast.Module(body=want, type_ignores=[])
    got = node if not isinstance(node, list) else ast.Module(body=node, type_ignores=[])
    a, b = ast.dump(strip_docstrings(got)), ast.dump(strip_docstrings(want))
    if a != b:
        raise TemplateMismatch(f"{what}: shape changed")


def rv_dir():
    try:
        import rv_ltl
    except Exception as e:  # pragma: no cover
        raise TemplateMismatch(f"cannot import rv_ltl: {e}")
    return os.path.dirname(rv_ltl.__file__)


def parse_file(path):
    try:
        return ast.parse(open(path).read())
    except (OSError, SyntaxError) as e:
        raise TemplateMismatch(f"cannot parse {path}: {e}")


def is_b4(node, prefix_ok=("rv_ltl",)):
    """rv_ltl.B4.NAME or B4.NAME -> NAME"""
    if isinstance(node, ast.Attribute) and node.attr in B4VAL:
        v = node.value
        if is_name(v, "B4"):
            return node.attr
        if isinstance(v, ast.Attribute) and v.attr == "B4" and isinstance(v.value, ast.Name) and v.value.id in prefix_ok:
            return node.attr
    return None


def verdict_set(test, is_subject, what):
    """the set of B4 values on which the test is true; `is_subject(node)` recognises the tested expression"""
    allv = [1, 2, 3, 4]
    if isinstance(test, ast.UnaryOp) and isinstance(test.op, ast.Not):
        inner = verdict_set(test.operand, is_subject, what)
        return [v for v in allv if v not in inner]
    if isinstance(test, ast.Attribute) and is_subject(test.value):
        if test.attr == "is_falsy":
            return [1, 2]
        if test.attr == "is_truthy":
            return [3, 4]
    if isinstance(test, ast.Compare) and len(test.ops) == 1 and is_subject(test.left):
        op, rhs = test.ops[0], test.comparators[0]
        name = is_b4(rhs)
        if name is not None and isinstance(op, (ast.Eq, ast.Is)):
            return [B4VAL[name]]
        if name is not None and isinstance(op, (ast.NotEq, ast.IsNot)):
            return [v for v in allv if v != B4VAL[name]]
        if isinstance(op, (ast.In, ast.NotIn)) and isinstance(rhs, (ast.Tuple, ast.List, ast.Set)):
            names = [is_b4(e) for e in rhs.elts]
            if all(n is not None for n in names):
                s = sorted({B4VAL[n] for n in names})
                return s if isinstance(op, ast.In) else [v for v in allv if v not in s]
    raise TemplateMismatch(f"{what}: unrecognised verdict test `{ast.unparse(test)}`")


# --------------------------------------------------------------------------------------------- rv_ltl
def _mask_until_bound(tree):
    """returns (tree with the inner range's upper bound replaced by the name HOLE, the bound expression)"""
    tree = copy.deepcopy(tree)
    cls = get_def(tree, "UntilMonitor", "rv_ltl/monitor.py")
    fn = get_def(tree, "UntilMonitor._evaluate_at", "rv_ltl/monitor.py")
    inner = [n for n in ast.walk(fn) if isinstance(n, ast.For) and is_name(n.target, "j")]
    expect(len(inner) == 1, "UntilMonitor._evaluate_at: expected exactly one `for j in range(...)` loop")
    it = inner[0].iter
    expect(isinstance(it, ast.Call) and is_name(it.func, "range") and len(it.args) == 2 and is_name(it.args[0], "i"),
           "UntilMonitor._evaluate_at: inner loop is not `range(i, <bound>)`")
    bound = it.args[1]
    it.args[1] = ast.Name(id="HOLE", ctx=ast.Load())
    return tree, bound


UNTIL_TEMPLATE = '''
def _evaluate_at(self, i=0) -> B4:
    result = B4.FALSE
    for k in range(i, self._last_index + 1):
        v = self.rhs._evaluate_at(k)
        if not v.is_truthy:
            continue
        result = v
        for j in range(i, HOLE):
            u = self.lhs._evaluate_at(j)
            result = result & u
        return result
    return B4.PRESUMABLY_FALSE
'''


def _sugar_expr(node):
    """XMonitor(args) -> X(args); _ConstantTrueMonitor() -> True; op/lhs -> x; rhs -> y"""
    if isinstance(node, ast.Name):
        return {"op": "x", "lhs": "x", "rhs": "y"}.get(node.id) or _fail(f"sugar operand {node.id}")
    if isinstance(node, ast.Call) and isinstance(node.func, ast.Name) and not node.keywords:
        f = node.func.id
        if f == "_ConstantTrueMonitor" and not node.args:
            return "True"
        if f.endswith("Monitor"):
            return f[:-7] + "(" + ",".join(_sugar_expr(a) for a in node.args) + ")"
    _fail(f"sugar expression {ast.unparse(node)}")


def _fail(msg):
    raise TemplateMismatch(msg)


def extract_rvltl(check_digests=True):
    d = rv_dir()
    out = {}
    mon = parse_file(os.path.join(d, "monitor.py"))
    masked, bound = _mask_until_bound(mon)
    same_shape(get_def(masked, "UntilMonitor._evaluate_at", "monitor.py"), UNTIL_TEMPLATE, "UntilMonitor._evaluate_at")
    b = ast.unparse(bound).replace(" ", "")
    if b == "min(i+k,self._last_index)":
        out["untilShift"] = True
    elif b == "k":
        out["untilShift"] = False
    else:
        raise TemplateMismatch(f"UntilMonitor scan bound `{ast.unparse(bound)}` is neither min(i + k, last) nor k")
    sugar = []
    for cls in ("Eventually", "Always", "Implies"):
        init = get_def(mon, f"{cls}Monitor.__init__", "monitor.py")
        body = body_nodoc(init)
        expect(len(body) == 1 and isinstance(body[0], ast.Expr) and isinstance(body[0].value, ast.Call)
               and ast.unparse(body[0].value.func) == "super().__init__" and len(body[0].value.args) == 1,
               f"{cls}Monitor.__init__ is not a single super().__init__(<expansion>)")
        sugar.append((cls, _sugar_expr(body[0].value.args[0])))
    out["sugar"] = sugar
    digs = {"b4.py": digest(parse_file(os.path.join(d, "b4.py"))),
            "proposition.py": digest(parse_file(os.path.join(d, "proposition.py"))),
            "monitor.py": digest(masked)}
    out["digests"] = digs
    if check_digests:
        for k, v in digs.items():
            if RV_DIGESTS[k] != v:
                raise TemplateMismatch(f"rv_ltl/{k} differs from the version the monitor model was written from "
                                       f"(digest {v}, expected {RV_DIGESTS[k]})")
    return out


# --------------------------------------------------------------------------------------------- propositions.py
PROP_REL = "src/scenic/core/propositions.py"

MONITOR_TEMPLATE = '''
class PropositionMonitor:
    def __init__(self, proposition: "PropositionNode") -> None:
        self._proposition = proposition
        self._monitor = proposition.ltl_node.create_monitor()

    def update(self):
        atomic_propositions = self._proposition.atomics()
        state = {}
        for ap in atomic_propositions:
            b = ap.closure()
            if needsLazyEvaluation(b):
                raise InvalidScenarioError(
                    f"value undefined outside of object definition"
                )
            state[str(ap.syntax_id)] = b
        self._monitor.update(state)
        return self._monitor.evaluate()
'''

NODE_TEMPLATES = {
    "PropositionNode.flatten": '''
def flatten(self) -> List["PropositionNode"]:
    return [self] + reduce(
        operator.concat, [node.flatten() for node in self.children], []
    )
''',
    "PropositionNode.atomics": '''
def atomics(self) -> List["Atomic"]:
    return list(filter(lambda n: isinstance(n, Atomic), self.flatten()))
''',
    "PropositionNode.create_monitor": '''
def create_monitor(self) -> rv_ltl.Monitor:
    return PropositionMonitor(self)
''',
    "PropositionNode.has_temporal_operator": '''
@property
def has_temporal_operator(self):
    node = self
    has_temporal_op = any(n.is_temporal for n in node.flatten())
    return has_temporal_op
''',
    "UnaryProposition.children": '''
@property
def children(self):
    return [self.req]
''',
}


def _rv_call(node, what):
    """rv_ltl.X(...) -> (X, call)"""
    expect(isinstance(node, ast.Call) and isinstance(node.func, ast.Attribute) and is_name(node.func.value, "rv_ltl"),
           f"{what}: ltl_node is not built by an rv_ltl constructor")
    return node.func.attr, node


def _init_parts(tree, cls):
    init = get_def(tree, f"{cls}.__init__", PROP_REL)
    params = [a.arg for a in init.args.args][1:]
    ltl, temporal, attrs = None, False, {}
    for st in body_nodoc(init):
        if isinstance(st, ast.Assign) and len(st.targets) == 1:
            t = st.targets[0]
            if is_name(t, "ltl_node"):
                expect(ltl is None, f"{cls}.__init__: ltl_node assigned twice")
                ltl = st.value
            elif isinstance(t, ast.Attribute) and is_name(t.value, "self"):
                if t.attr == "is_temporal":
                    expect(isinstance(st.value, ast.Constant) and isinstance(st.value.value, bool), f"{cls}.is_temporal")
                    temporal = st.value.value
                else:
                    expect(isinstance(st.value, ast.Name), f"{cls}.__init__: self.{t.attr} is not a parameter")
                    attrs[t.attr] = st.value.id
            else:
                raise TemplateMismatch(f"{cls}.__init__: unexpected assignment `{ast.unparse(st)}`")
        elif isinstance(st, ast.Expr) and ast.unparse(st.value) == "super().__init__(ltl_node)":
            pass
        else:
            raise TemplateMismatch(f"{cls}.__init__: unexpected statement `{ast.unparse(st)[:60]}`")
    expect(ltl is not None, f"{cls}.__init__: no ltl_node")
    return params, ltl, temporal, attrs


def extract_propositions():
    src, tree = load(PROP_REL)
    try:
        same_shape(get_def(tree, "PropositionMonitor", PROP_REL), MONITOR_TEMPLATE, "PropositionMonitor")
        coerce = False
    except TemplateMismatch:   # the same with the atom's value coerced to bool
        same_shape(get_def(tree, "PropositionMonitor", PROP_REL),
                   MONITOR_TEMPLATE.replace("state[str(ap.syntax_id)] = b", "state[str(ap.syntax_id)] = bool(b)"), "PropositionMonitor")
        coerce = True
    for q, tmpl in NODE_TEMPLATES.items():
        same_shape(get_def(tree, q, PROP_REL), tmpl, q)
    ctor, temporal = [], []
    for cls in ("Always", "Eventually", "Next", "Not"):
        params, ltl, temp, attrs = _init_parts(tree, cls)
        expect(params == ["req"] and attrs == {"req": "req"}, f"{cls}.__init__: parameters/attributes changed")
        rv, call = _rv_call(ltl, cls)
        expect(len(call.args) == 1 and not call.keywords and ast.unparse(call.args[0]) == "req.ltl_node",
               f"{cls}: operand is not req.ltl_node")
        base = [ast.unparse(b) for b in get_def(tree, cls, PROP_REL).bases]
        expect(base == ["UnaryProposition"], f"{cls}: base class changed")
        ctor.append((cls, rv, [0]))
        if temp:
            temporal.append(cls)
    for cls in ("And", "Or"):
        params, ltl, temp, attrs = _init_parts(tree, cls)
        expect(params == ["reqs"] and attrs == {"reqs": "reqs"}, f"{cls}.__init__: parameters/attributes changed")
        rv, call = _rv_call(ltl, cls)
        expect(len(call.args) == 1 and isinstance(call.args[0], ast.Starred)
               and ast.unparse(call.args[0].value) == "[req.ltl_node for req in reqs]", f"{cls}: operands are not *[req.ltl_node for req in reqs]")
        same_shape(get_def(tree, f"{cls}.children", PROP_REL), "@property\ndef children(self):\n    return self.reqs\n", f"{cls}.children")
        ctor.append((cls, rv, []))
        if temp:
            temporal.append(cls)
    for cls in ("Until", "Implies"):
        params, ltl, temp, attrs = _init_parts(tree, cls)
        expect(params == ["lhs", "rhs"] and attrs == {"lhs": "lhs", "rhs": "rhs"}, f"{cls}.__init__: parameters/attributes changed")
        rv, call = _rv_call(ltl, cls)
        expect(len(call.args) == 2 and not call.keywords, f"{cls}: rv_ltl constructor does not take two operands")
        perm = []
        for a in call.args:
            s = ast.unparse(a)
            expect(s in ("lhs.ltl_node", "rhs.ltl_node"), f"{cls}: operand `{s}`")
            perm.append(0 if s.startswith("lhs") else 1)
        same_shape(get_def(tree, f"{cls}.children", PROP_REL), "@property\ndef children(self):\n    return [self.lhs, self.rhs]\n", f"{cls}.children")
        ctor.append((cls, rv, perm))
        if temp:
            temporal.append(cls)
    # evaluate(): used when a non-temporal `require` is executed while a simulation runs
    EVAL = {   # class -> [(normalised form, template)]
        "Atomic": [("closure()", "def evaluate(self):\n    return self.closure()\n")],
        "Not": [("not x", "def evaluate(self):\n    return not self.req.evaluate()\n")],
        "And": [("bitand", "def evaluate(self):\n    return reduce(operator.and_, [node.evaluate() for node in self.reqs], True)\n"),
                ("all", "def evaluate(self):\n    return all([node.evaluate() for node in self.reqs])\n"),
                ("all", "def evaluate(self):\n    return all(node.evaluate() for node in self.reqs)\n")],
        "Or": [("bitor", "def evaluate(self):\n    return reduce(operator.or_, [node.evaluate() for node in self.reqs], False)\n"),
               ("any", "def evaluate(self):\n    return any([node.evaluate() for node in self.reqs])\n"),
               ("any", "def evaluate(self):\n    return any(node.evaluate() for node in self.reqs)\n")],
        "Implies": [("(not x) or y", "def evaluate(self):\n    return (not self.lhs.evaluate()) or self.rhs.evaluate()\n"),
                    ("(not x) or y", "def evaluate(self):\n    lhs = self.lhs.evaluate()\n    rhs = self.rhs.evaluate()\n    return (not lhs) or rhs\n")],
    }
    from vlib.ctx import find_def
    evaluable, forms = [], []
    for cls, shapes in EVAL.items():
        fn = find_def(tree, f"{cls}.evaluate")
        if fn is None:
            expect(cls == "Implies", f"{cls}.evaluate is missing")
            continue
        form = None
        for name, src_ in shapes:
            try:
                same_shape(fn, src_, f"{cls}.evaluate")
                form = name
                break
            except TemplateMismatch:
                pass
        expect(form is not None, f"{cls}.evaluate: unrecognised body")
        evaluable.append(cls)
        forms.append((cls, form))
    for cls in ("Always", "Eventually", "Next", "Until"):
        expect(find_def(tree, f"{cls}.evaluate") is None, f"{cls}.evaluate: a temporal class defines evaluate()")
    # Atomic
    init = get_def(tree, "Atomic.__init__", PROP_REL)
    same_shape(init, '''
def __init__(self, closure, syntax_id):
    ap = rv_ltl.Atomic(identifier=str(syntax_id))
    super().__init__(ap)
    self.syntax_id = syntax_id
    self.closure = closure
''', "Atomic.__init__")
    return {"ctorMap": ctor, "temporal": temporal, "evaluable": evaluable, "evalForms": forms, "atomCoerce": coerce}


# --------------------------------------------------------------------------------------------- scenarios.py / requirements.py
SCN_REL = "src/scenic/core/dynamics/scenarios.py"
REQ_REL = "src/scenic/core/requirements.py"


def _is_self_attr(node, attr):
    return isinstance(node, ast.Attribute) and node.attr == attr and is_name(node.value, "self")


def _extract_add_dynamic(fn):
    """`_addDynamicRequirement`: a `require` is appended to `_temporalRequirements`; if the scenario is already running
    (`_requirementMonitors is not None`) it gets a monitor at once, the monitor is updated in the same step and the
    simulation is rejected on the extracted verdict set.  Returns that set, or None when no monitor is created.
    Other statement kinds may be dispatched elsewhere (`if ty is RequirementType.require: … else: …`)."""
    what = "_addDynamicRequirement"
    add = body_nodoc(fn)
    expect(len(add) >= 2 and isinstance(add[0], ast.Assign) and len(add[0].targets) == 1 and isinstance(add[0].targets[0], ast.Name)
           and isinstance(add[0].value, ast.Call) and is_name(add[0].value.func, "DynamicRequirement"),
           f"{what}: does not start by building a DynamicRequirement")
    dreq = add[0].targets[0].id
    args = [ast.unparse(a) for a in add[0].value.args]
    expect(args[:4] == ["ty", "req", "line", "name"] and not add[0].value.keywords, f"{what}: DynamicRequirement arguments changed")
    rest = add[1:]
    if len(rest) == 1 and isinstance(rest[0], ast.If) and ast.unparse(rest[0].test) in (
            "ty is RequirementType.require", "ty == RequirementType.require",
            "ty is requirements.RequirementType.require", "ty == requirements.RequirementType.require"):
        other = [ast.unparse(s) for s in rest[0].orelse]
        expect(not any("_temporalRequirements" in l or "_requirementMonitors" in l for l in other),
               f"{what}: the branch for other statement kinds touches the requirement monitors")
        rest = rest[0].body
    lines = [ast.unparse(s) for s in rest]
    expect(lines and lines[0] == f"self._temporalRequirements.append({dreq})", f"{what}: the requirement is not appended to _temporalRequirements first")
    if len(rest) == 1:
        return None
    expect(len(rest) == 2 and isinstance(rest[1], ast.If) and ast.unparse(rest[1].test) == "self._requirementMonitors is not None"
           and not rest[1].orelse, f"{what}: unrecognised shape")
    inner = rest[1].body
    expect(len(inner) == 3 and isinstance(inner[0], ast.Assign) and isinstance(inner[0].targets[0], ast.Name)
           and ast.unparse(inner[0].value) == f"{dreq}.toMonitor()", f"{what}: the monitor is not `{dreq}.toMonitor()`")
    mon = inner[0].targets[0].id
    expect(ast.unparse(inner[1]) == f"self._requirementMonitors.append({mon})", f"{what}: the monitor is not appended to _requirementMonitors")
    cond = inner[2]
    expect(isinstance(cond, ast.If) and not cond.orelse and len(cond.body) == 1 and isinstance(cond.body[0], ast.Raise)
           and ast.unparse(cond.body[0].exc) == f"RejectSimulationException(str({mon}))", f"{what}: rejection statement changed")
    return verdict_set(cond.test, lambda n: ast.unparse(n) == f"{mon}.value()", what)


def extract_rule():
    src, tree = load(SCN_REL)
    # ---- _step: the monitor loop comes first
    step = body_nodoc(get_def(tree, "DynamicScenario._step", SCN_REL))
    i = 0
    while i < len(step) and (isinstance(step[i], (ast.Import, ast.ImportFrom))
                             or (isinstance(step[i], ast.Expr) and ast.unparse(step[i].value) == "super()._step()")):
        i += 1
    loop = step[i] if i < len(step) else None
    expect(isinstance(loop, ast.For) and _is_self_attr(loop.iter, "_requirementMonitors") and isinstance(loop.target, ast.Name),
           "_step: the loop over self._requirementMonitors is not the first statement after super()._step()")
    m = loop.target.id
    expect(len(loop.body) == 2 and not loop.orelse, "_step: monitor loop body changed")
    asg, cond = loop.body
    expect(isinstance(asg, ast.Assign) and isinstance(asg.targets[0], ast.Name)
           and ast.unparse(asg.value) == f"{m}.value()", "_step: verdict is not `<m>.value()`")
    var = asg.targets[0].id
    expect(isinstance(cond, ast.If) and not cond.orelse and len(cond.body) == 1 and isinstance(cond.body[0], ast.Raise)
           and ast.unparse(cond.body[0].exc) == f"RejectSimulationException(str({m}))", "_step: rejection statement changed")
    step_reject = verdict_set(cond.test, lambda n: is_name(n, var), "_step")
    # ---- _stop
    stop = get_def(tree, "DynamicScenario._stop", SCN_REL)
    body = body_nodoc(stop)
    idx = [k for k, st in enumerate(body) if isinstance(st, ast.If) and ast.unparse(st.test) == "not quiet"]
    expect(len(idx) == 1, "_stop: `if not quiet:` block not found")
    blk = body[idx[0]]
    expect(idx[0] > 0 and ast.unparse(body[idx[0] - 1]) == "rejection = None", "_stop: `rejection = None` missing")
    expect(len(blk.body) == 1 and isinstance(blk.body[0], ast.For) and _is_self_attr(blk.body[0].iter, "_requirementMonitors"),
           "_stop: loop over self._requirementMonitors changed")
    loop = blk.body[0]
    r = loop.target.id
    expect(len(loop.body) == 1 and isinstance(loop.body[0], ast.If) and not loop.body[0].orelse, "_stop: loop body changed")
    test = loop.body[0]
    expect([ast.unparse(s) for s in test.body] == [f"rejection = str({r})", "break"], "_stop: rejection bookkeeping changed")
    stop_reject = verdict_set(test.test, lambda n: isinstance(n, ast.Attribute) and n.attr == "lastValue" and is_name(n.value, r), "_stop")
    tail = [ast.unparse(s) for s in body[idx[0] + 1:]]
    expect("self._requirementMonitors = None" in tail, "_stop: monitors not cleared")
    expect(any(t.startswith("if rejection is not None:") and "raise RejectSimulationException(rejection)" in t for t in tail),
           "_stop: `if rejection is not None: raise RejectSimulationException(rejection)` missing")
    # ---- _start
    start = body_nodoc(get_def(tree, "DynamicScenario._start", SCN_REL))
    lines = [ast.unparse(s) for s in start]
    want = "self._requirementMonitors = [r.toMonitor() for r in self._temporalRequirements]"
    expect(want in lines, "_start: monitors are not built from self._temporalRequirements")
    expect(lines.index(want) < min(k for k, l in enumerate(lines) if l.startswith("veneer.startScenario")),
           "_start: monitors are built after veneer.startScenario")
    # ---- _bindTo: the top-level scenario keeps its own *list* of temporal requirements (a `require` executed in its
    #      compose block appends to it)
    bind = [ast.unparse(s) for s in body_nodoc(get_def(tree, "DynamicScenario._bindTo", SCN_REL))]
    expect("self._temporalRequirements = list(scene.temporalRequirements)" in bind,
           "_bindTo: self._temporalRequirements is not a fresh list of the scene's temporal requirements")
    # ---- _addDynamicRequirement
    dyn_reject = _extract_add_dynamic(get_def(tree, "DynamicScenario._addDynamicRequirement", SCN_REL))
    # ---- requirements.py
    rsrc, rtree = load(REQ_REL)
    init_last = None
    for cls, first in (("MonitorRequirement", "self.closure(self.sample, self.monitor)"),
                       ("DynamicMonitorRequirement", "self.closure(self.monitor)")):
        init = body_nodoc(get_def(rtree, f"{cls}.__init__", REQ_REL))
        last = [s for s in init if isinstance(s, ast.Assign) and _is_self_attr(s.targets[0], "lastValue")]
        expect(len(last) == 1 and is_b4(last[0].value) is not None, f"{cls}.__init__: lastValue is not a B4 constant")
        v = B4VAL[is_b4(last[0].value)]
        expect(init_last in (None, v), "the two monitor-requirement classes start from different lastValue")
        init_last = v
        mons = [ast.unparse(s) for s in init if isinstance(s, ast.Assign) and _is_self_attr(s.targets[0], "monitor")]
        expect(len(mons) == 1 and mons[0].endswith(".create_monitor()"), f"{cls}.__init__: monitor is not created from the proposition")
        same_shape(get_def(rtree, f"{cls}.value", REQ_REL),
                   f"def value(self):\n    self.lastValue = {first}\n    return self.lastValue\n", f"{cls}.value")
    same_shape(get_def(rtree, "BoundRequirement.toMonitor", REQ_REL),
               "def toMonitor(self):\n    return MonitorRequirement(self.compiledReq, self.sample, self.proposition)\n", "BoundRequirement.toMonitor")
    same_shape(get_def(rtree, "DynamicRequirement.toMonitor", REQ_REL),
               "def toMonitor(self):\n    return DynamicMonitorRequirement(\n        self.closure, self.condition, self.line, self.name\n    )\n",
               "DynamicRequirement.toMonitor")
    fb = body_nodoc(get_def(rtree, "CompiledRequirement.falsifiedByInner", REQ_REL))
    expect(len(fb) == 2 and ast.unparse(fb[0]) == "one_time_monitor = self.proposition.create_monitor()"
           and isinstance(fb[1], ast.Return), "falsifiedByInner: shape changed")
    scene_reject = verdict_set(fb[1].value, lambda n: ast.unparse(n) == "self.closure(sample, one_time_monitor)", "falsifiedByInner")
    # closures: monitor.update() when a monitor is given
    for q in ("PendingRequirement.compile", "DynamicRequirement.__init__"):
        fn = get_def(rtree, q, REQ_REL)
        ifs = [n for n in ast.walk(fn) if isinstance(n, ast.If) and ast.unparse(n.test) == "monitor is None"]
        expect(len(ifs) == 1, f"{q}: `if monitor is None` dispatch not found")
        a, b = ast.unparse(ifs[0].body[0]), ast.unparse(ifs[0].orelse[0])
        expect(a.startswith("result = ") and a.endswith(".evaluate()") and b == "result = monitor.update()",
               f"{q}: closure dispatch changed")
    # veneer.require: at run time a temporal requirement goes to _addDynamicRequirement, any other is evaluated once
    vsrc, vtree = load("src/scenic/syntax/veneer.py")
    req = get_def(vtree, "require", "src/scenic/syntax/veneer.py")
    rt = [n for n in ast.walk(req) if isinstance(n, ast.If) and ast.unparse(n.test) == "currentSimulation is not None"]
    expect(len(rt) == 1 and len(rt[0].body) == 1 and isinstance(rt[0].body[0], ast.If)
           and ast.unparse(rt[0].body[0].test) == "req.has_temporal_operator", "veneer.require: run-time dispatch changed")
    disp = rt[0].body[0]
    expect(len(disp.body) == 1 and ast.unparse(disp.body[0]).replace("\n", "").replace(" ", "") ==
           "currentScenario._addDynamicRequirement(requirements.RequirementType.require,req,line,name)",
           "veneer.require: temporal run-time requirement is not handed to _addDynamicRequirement")
    imm = ast.unparse(ast.Module(body=disp.orelse, type_ignores=[]))
    expect("result = req.evaluate()" in imm and "if not result:" in imm and "raise RejectSimulationException(name)" in imm,
           "veneer.require: immediate evaluation of a non-temporal run-time requirement changed")
    return {"stepReject": step_reject, "stopReject": stop_reject, "initLast": init_last,
            "sceneReject": scene_reject, "dynReject": dyn_reject}


def extract(check_digests=True):
    d = {}
    d.update(extract_rvltl(check_digests))
    d.update(extract_propositions())
    d["rule"] = extract_rule()
    d["rule"]["impliesEval"] = "Implies" in d["evaluable"]
    return d


def _lst(xs):
    return "[" + ", ".join(str(x) for x in xs) + "]"


def _s(x):
    return '"' + x + '"'


def to_lean(d):
    r = d["rule"]
    ctor = ",\n   ".join(f"({_s(c)}, {_s(rv)}, {_lst(p)})" for c, rv, p in d["ctorMap"])
    sugar = ",\n   ".join(f"({_s(c)}, {_s(e)})" for c, e in d["sugar"])
    temporal = ", ".join(_s(c) for c in d["temporal"])
    forms = ", ".join(f"({_s(c)}, {_s(e)})" for c, e in d["evalForms"])
    b = lambda v: "true" if v else "false"
    return f"""import ScenicModel.Model.LTL
namespace Scenic.Gen.LTL
open Scenic.LTL

/-- `UntilMonitor._evaluate_at` of the installed rv_ltl scans `range(i, {'min(i + k, last)' if d['untilShift'] else 'k'})` -/
def monCfg : MonCfg := {{ untilShift := {b(d['untilShift'])} }}

/-- acceptance rule of dynamics/scenarios.py `_step`/`_stop`, requirements.py `MonitorRequirement`,
    `CompiledRequirement.falsifiedByInner`, `_addDynamicRequirement` -/
def rule : Rule :=
  {{ stepReject := {_lst(r['stepReject'])},
    stopReject := {_lst(r['stopReject'])},
    initLast := {r['initLast']},
    sceneReject := {_lst(r['sceneReject'])},
    dynReject := {'none' if r['dynReject'] is None else 'some ' + _lst(r['dynReject'])},
    impliesEval := {b(r['impliesEval'])} }}

/-- propositions.py: Scenic proposition class -> (rv_ltl constructor, positions of the operands passed) -/
def ctorMap : List (String × String × List Nat) :=
  [{ctor}]

/-- propositions.py: classes that set `is_temporal` -/
def temporalClasses : List String := [{temporal}]

/-- propositions.py `PropositionMonitor.update`: the value of an atom is coerced with `bool()` before it is handed to rv_ltl -/
def atomCoerce : Bool := {b(d['atomCoerce'])}

/-- propositions.py: the normalised body of `evaluate()` of each non-temporal class -/
def evalForms : List (String × String) :=
  [{forms}]

/-- rv_ltl/monitor.py: sugar monitors as (class, expansion) -/
def sugar : List (String × String) :=
  [{sugar}]

end Scenic.Gen.LTL
"""


if __name__ == "__main__":
    import json
    d = extract(check_digests=False)
    print(json.dumps(d, indent=1))
