"""C11 translator (syntax side): scenic.gram, compiler.py, veneer.py, syntax/ast.py, docs  ->  Gen/LTLGram.lean.

* scenic.gram: the nine temporal-expression rules are matched (comments and white space aside) against the
  templates below; what varies is extracted into a `GramCfg`: the prefix operators (keyword, node class), the
  look-ahead set closing a parenthesised temporal group, and where `scenic_temporal_prefix` is an alternative.
* compiler.py `PropositionTransformer` + veneer.py factories + syntax/ast.py field order: which proposition class
  each syntax node becomes and in which order its operands are passed (`syntaxMap`).
* docs/reference/statements.rst / operators.rst: the worked examples with the readings the text states
  (the reading is fixed here per example string; the translator only checks the example is still in the docs).
"""
import ast
import os
import re

from translate.astutil import TemplateMismatch, body_nodoc, expect, get_def, is_name, load
from translate.ltl import same_shape
from vlib.ctx import REPO

GRAM_REL = "src/scenic/syntax/scenic.gram"


def rule_text(src, name):
    m = re.search(r"^" + re.escape(name) + r"(?:\s*\(memo\))?\s*:(.*?)(?=^\S)", src, re.M | re.S)
    if not m:
        raise TemplateMismatch(f"scenic.gram: rule {name} not found")
    body = "\n".join(l.split("#")[0] for l in m.group(1).split("\n"))
    return re.sub(r"\s+", " ", body).strip()


def _m(pat, text, what):
    pat = re.sub(r"\s+", r"\\s*", pat.strip())
    mm = re.fullmatch(pat, text)
    if not mm:
        raise TemplateMismatch(f"scenic.gram: rule {what} changed shape: `{text[:160]}`")
    return mm


def esc(s):
    return re.escape(s).replace(r"\ ", " ")


def _alts(text, tight, what):
    """`(scenic_temporal_prefix | X)` -> True, `X` -> False"""
    t = re.sub(r"\s+", "", text)
    if t == f"(scenic_temporal_prefix|{tight})":
        return True
    if t in (tight, f"({tight})"):
        return False
    raise TemplateMismatch(f"scenic.gram: {what}: operand alternatives `{text}`")


def extract_grammar():
    try:
        src = open(os.path.join(REPO, GRAM_REL)).read() + "\nEND:\n"
    except OSError as e:
        raise TemplateMismatch(f"cannot read scenic.gram: {e}")
    g = {}
    _m(esc("| invalid_expression | invalid_legacy_expression | a=scenic_until 'if' b=scenic_until 'else' c=scenic_until "
           "{ ast.IfExp(body=a, test=b, orelse=c, LOCATIONS) } | scenic_until | lambdef"),
       rule_text(src, "scenic_temporal_expression"), "scenic_temporal_expression")
    _m(esc("| invalid_scenic_until | a=scenic_above_until 'until' b=scenic_above_until { s.UntilOp(a, b, LOCATIONS) } | scenic_above_until"),
       rule_text(src, "scenic_until"), "scenic_until")
    _m(esc("| scenic_temporal_prefix | scenic_implication"), rule_text(src, "scenic_above_until"), "scenic_above_until")
    pre = rule_text(src, "scenic_temporal_prefix")
    alts = [a.strip() for a in pre.split("|") if a.strip()]
    ops = []
    for a in alts:
        mm = re.fullmatch(r'"(\w+)" e=scenic_above_until \{ s\.(\w+)\(e, LOCATIONS\) \}', a)
        if not mm:
            raise TemplateMismatch(f"scenic.gram: scenic_temporal_prefix alternative `{a}`")
        ops.append((mm.group(1), mm.group(2)))
    g["prefixOps"] = ops
    mm = _m(esc("| invalid_scenic_implication | a=scenic_temporal_disjunction \"implies\" b=") + r"(.+?)" +
            esc(" { s.ImpliesOp(a, b, LOCATIONS) } | scenic_temporal_disjunction"),
            rule_text(src, "scenic_implication"), "scenic_implication")
    g["impliesRhsPrefix"] = _alts(mm.group(1), "scenic_temporal_disjunction", "implies")
    mm = _m(esc("| a=scenic_temporal_conjunction b=('or' c=") + r"(.+?)" +
            esc(" { c })+ { ast.BoolOp(op=ast.Or(), values=[a] + b, LOCATIONS) } | scenic_temporal_conjunction"),
            rule_text(src, "scenic_temporal_disjunction"), "scenic_temporal_disjunction")
    g["orOperandPrefix"] = _alts(mm.group(1), "scenic_temporal_conjunction", "or")
    mm = _m(esc("| a=scenic_temporal_inversion b=('and' c=") + r"(.+?)" +
            esc(" { c })+ { ast.BoolOp(op=ast.And(), values=[a] + b, LOCATIONS) } | scenic_temporal_inversion"),
            rule_text(src, "scenic_temporal_conjunction"), "scenic_temporal_conjunction")
    g["andOperandPrefix"] = _alts(mm.group(1), "scenic_temporal_inversion", "and")
    mm = _m(esc("| 'not' !(\"visible\" scenic_temporal_inversion) a=") + r"(.+?)" +
            esc(" { ast.UnaryOp(op=ast.Not(), operand=a, LOCATIONS) } | scenic_temporal_group | comparison"),
            rule_text(src, "scenic_temporal_inversion"), "scenic_temporal_inversion")
    g["notOperandPrefix"] = _alts(mm.group(1), "scenic_temporal_inversion", "not")
    mm = _m(esc("'(' a=scenic_temporal_expression ')' &(") + r"(.+?)" + esc(") { a }"),
            rule_text(src, "scenic_temporal_group"), "scenic_temporal_group")
    follow = []
    for t in mm.group(1).split("|"):
        t = t.strip()
        if t == "NEWLINE":
            follow.append("<nl>")
        elif re.fullmatch(r"'[^']+'|\"[^\"]+\"", t):
            follow.append(t[1:-1])
        else:
            raise TemplateMismatch(f"scenic.gram: scenic_temporal_group look-ahead token `{t}`")
    g["groupFollow"] = follow
    req = rule_text(src, "scenic_require_stmt")
    expect("e=scenic_temporal_expression" in req and "s.Require(cond=e, prob=p, name=n, LOCATIONS)" in req,
           "scenic.gram: scenic_require_stmt no longer parses its condition with scenic_temporal_expression")
    # the non-temporal Boolean layer the model hard-wires for parenthesised Python sub-expressions
    _m(esc("| a=conjunction b=('or' c=conjunction { c })+ { ast.BoolOp(op=ast.Or(), values=[a] + b, LOCATIONS) } | conjunction"),
       rule_text(src, "disjunction"), "disjunction")
    _m(esc("| a=inversion b=('and' c=inversion { c })+ { ast.BoolOp(op=ast.And(), values=[a] + b, LOCATIONS) } | inversion"),
       rule_text(src, "conjunction"), "conjunction")
    _m(esc("| 'not' !(\"visible\" inversion) a=inversion { ast.UnaryOp(op=ast.Not(), operand=a, LOCATIONS) } | comparison"),
       rule_text(src, "inversion"), "inversion")
    return g


# --------------------------------------------------------------------------------------------- compiler / veneer
COMP_REL = "src/scenic/syntax/compiler.py"
VEN_REL = "src/scenic/syntax/veneer.py"
AST_REL = "src/scenic/syntax/ast.py"

UNARY_TMPL = '''
def visit_{N}(self, node: s.{N}):
    value = self.visit(node.value)
    if not self.is_proposition_factory(value):
        value = self._create_atomic_proposition_factory(value)
    return ast.Call(
        func=ast.Name("{F}", ctx=loadCtx),
        args=[value],
        keywords=[],
    )
'''

BINARY_TMPL = '''
def visit_{N}(self, node: s.{N}):
    {a} = self.visit(node.{fa})
    if not self.is_proposition_factory({a}):
        {a} = self._create_atomic_proposition_factory({a})
    {b} = self.visit(node.{fb})
    if not self.is_proposition_factory({b}):
        {b} = self._create_atomic_proposition_factory({b})
    return ast.Call(
        func=ast.Name(id="{F}", ctx=loadCtx),
        args=[self.visit({x}), self.visit({y})],
        keywords=[],
    )
'''


def _fields(tree, cls):
    node = get_def(tree, cls, AST_REL)
    return [st.target.id for st in node.body if isinstance(st, ast.AnnAssign) and isinstance(st.target, ast.Name)]


def _veneer_factory(vtree, fname):
    fn = get_def(vtree, fname, VEN_REL)
    body = body_nodoc(fn)
    expect(len(body) == 1 and isinstance(body[0], ast.Return) and isinstance(body[0].value, ast.Call), f"veneer.{fname}: shape changed")
    call = body[0].value
    expect(isinstance(call.func, ast.Attribute) and is_name(call.func.value, "propositions"), f"veneer.{fname}: not a propositions class")
    params = [a.arg for a in fn.args.args]
    passed = [a.id if isinstance(a, ast.Name) else "?" for a in call.args]
    expect(all(p in params for p in passed) and not call.keywords, f"veneer.{fname}: arguments changed")
    return call.func.attr, [params.index(p) for p in passed]


def extract_syntax_map():
    csrc, ctree = load(COMP_REL)
    vsrc, vtree = load(VEN_REL)
    asrc, atree = load(AST_REL)
    consts = {}
    for st in ctree.body:
        if isinstance(st, ast.Assign) and isinstance(st.targets[0], ast.Name) and isinstance(st.value, ast.Constant) \
                and isinstance(st.value.value, str):
            consts[st.targets[0].id] = st.value.value
    out = []
    for N in ("Always", "Eventually", "Next"):
        fn = get_def(ctree, f"PropositionTransformer.visit_{N}", COMP_REL)
        call = [n for n in ast.walk(fn) if isinstance(n, ast.Call) and ast.unparse(n.func) == "ast.Name"]
        expect(len(call) == 1 and call[0].args and isinstance(call[0].args[0], ast.Constant), f"visit_{N}: factory name")
        F = call[0].args[0].value
        same_shape(fn, UNARY_TMPL.format(N=N, F=F), f"PropositionTransformer.visit_{N}")
        expect(_fields(atree, N) == ["value"], f"syntax node {N}: fields changed")
        cls, perm = _veneer_factory(vtree, F)
        expect(perm == [0], f"veneer.{F}: operand order")
        out.append((N, cls, [0]))
    for N, vars_ in (("UntilOp", ("left", "right")), ("ImpliesOp", ("hypothesis", "conclusion"))):
        fn = get_def(ctree, f"PropositionTransformer.visit_{N}", COMP_REL)
        ret = body_nodoc(fn)[-1]
        expect(isinstance(ret, ast.Return) and isinstance(ret.value, ast.Call), f"visit_{N}: return")
        kws = {k.arg: k.value for k in ret.value.keywords}
        fname = kws["func"].keywords[0].value.value if kws.get("func") is not None and kws["func"].keywords else None
        expect(isinstance(fname, str), f"visit_{N}: factory name")
        args = kws.get("args")
        expect(isinstance(args, ast.List) and len(args.elts) == 2, f"visit_{N}: args")
        order = []
        for e in args.elts:
            expect(isinstance(e, ast.Call) and ast.unparse(e.func) == "self.visit" and isinstance(e.args[0], ast.Name), f"visit_{N}: operand")
            order.append(e.args[0].id)
        # which node field each local came from
        src_of = {}
        for st in body_nodoc(fn):
            if isinstance(st, ast.Assign) and isinstance(st.targets[0], ast.Name) and ast.unparse(st.value).startswith("self.visit(node."):
                src_of[st.targets[0].id] = st.value.args[0].attr
        expect(set(order) <= set(src_of), f"visit_{N}: operand provenance")
        a, b = vars_
        same_shape(fn, BINARY_TMPL.format(N=N, F=fname, a=a, b=b, fa=src_of[a], fb=src_of[b], x=order[0], y=order[1]),
                   f"PropositionTransformer.visit_{N}")
        fields = _fields(atree, N)
        expect(len(fields) == 2, f"syntax node {N}: fields changed")
        cls, perm = _veneer_factory(vtree, fname)
        passed = [fields.index(src_of[v]) for v in order]      # positions (in grammar order a, b) handed to the factory
        out.append((N, cls, [passed[p] for p in perm]))
    # BoolOp / not
    fn = get_def(ctree, "PropositionTransformer.visit_BoolOp", COMP_REL)
    dicts = [n for n in ast.walk(fn) if isinstance(n, ast.Dict)]
    expect(len(dicts) == 1, "visit_BoolOp: operator table")
    table = {ast.unparse(k): v.value for k, v in zip(dicts[0].keys, dicts[0].values) if isinstance(v, ast.Constant)}
    expect(set(table) == {"ast.Or", "ast.And"}, "visit_BoolOp: operator table keys")
    src = ast.unparse(fn)
    expect("for operand in node.values:" in src and "args=[ast.copy_location(ast.List(elts=operands, ctx=ast.Load()), node)]" in src,
           "visit_BoolOp: operands are no longer passed in source order")
    for op in ("Or", "And"):
        cls, perm = _veneer_factory(vtree, table["ast." + op])
        expect(perm == [0], f"veneer.{table['ast.' + op]}")
        out.append((op, cls, []))
    fn = get_def(ctree, "PropositionTransformer.visit_UnaryOp", COMP_REL)
    src = ast.unparse(fn)
    expect("if not isinstance(node.op, ast.Not):" in src and "func=ast.Name(id=PROPOSITION_NOT, ctx=ast.Load()), args=[newOperand]" in src,
           "visit_UnaryOp: shape changed")
    cls, perm = _veneer_factory(vtree, consts.get("PROPOSITION_NOT", "?"))
    out.append(("Not", cls, [0]))
    cls, perm = _veneer_factory(vtree, consts.get("ATOMIC_PROPOSITION", "?"))
    expect(cls == "Atomic" and perm == [0, 1], "veneer.AtomicProposition")
    return out


# --------------------------------------------------------------------------------------------- docs
DOC_EXAMPLES = [
    # (file, example as written, tokens, stated reading)
    ("docs/reference/statements.rst", "require A and always B", "A and always B", "And 2 Atom 0 Always Atom 1"),
    ("docs/reference/statements.rst", "require (always A) implies B", "( always A ) implies B", "Implies Always Atom 0 Atom 1"),
    ("docs/reference/statements.rst", "require always A implies B", "always A implies B", "Always Implies Atom 0 Atom 1"),
    ("docs/reference/operators.rst", "require always (X implies next X)", "always ( A implies next A )",
     "Always Implies Atom 0 Next Atom 0"),
    ("docs/reference/operators.rst", "require always X implies Y", "always A implies B", "Always Implies Atom 0 Atom 1"),
    ("docs/reference/operators.rst", "require ({X} until {Y}) or (always {X} and not {Y})",
     "( A until B ) or ( always A and not B )", "Or 2 Until Atom 0 Atom 1 Always And 2 Atom 0 Not Atom 1"),
]


def extract_docs():
    out = []
    cache = {}
    for rel, ex, toks, tree in DOC_EXAMPLES:
        if rel not in cache:
            try:
                cache[rel] = open(os.path.join(REPO, rel)).read()
            except OSError as e:
                raise TemplateMismatch(f"cannot read {rel}: {e}")
        if f":scenic:`{ex}`" not in cache[rel]:
            raise TemplateMismatch(f"{rel}: worked example `{ex}` is no longer in the documentation")
        out.append((toks.split(), tree.split()))
    return out


def extract():
    return {"gram": extract_grammar(), "syntaxMap": extract_syntax_map(), "docs": extract_docs()}


def _s(x):
    return '"' + x.replace("\\", "\\\\").replace('"', '\\"') + '"'


def _sl(xs):
    return "[" + ", ".join(_s(x) for x in xs) + "]"


def to_lean(d):
    g = d["gram"]
    b = lambda v: "true" if v else "false"
    ops = ", ".join(f"({_s(k)}, {_s(c)})" for k, c in g["prefixOps"])
    smap = ",\n   ".join(f"({_s(n)}, {_s(c)}, [{', '.join(map(str, p))}])" for n, c, p in d["syntaxMap"])
    docs = ",\n   ".join(f"({_sl(t)}, {_sl(r)})" for t, r in d["docs"])
    return f"""import ScenicModel.Model.LTLSyntax
namespace Scenic.Gen.LTLGram
open Scenic.LTL.Syntax

/-- src/scenic/syntax/scenic.gram, rules scenic_until … scenic_temporal_group -/
def gram : GramCfg :=
  {{ prefixOps := [{ops}],
    groupFollow := {_sl(g['groupFollow'])},
    impliesRhsPrefix := {b(g['impliesRhsPrefix'])},
    orOperandPrefix := {b(g['orOperandPrefix'])},
    andOperandPrefix := {b(g['andOperandPrefix'])},
    notOperandPrefix := {b(g['notOperandPrefix'])} }}

/-- compiler.py PropositionTransformer / veneer.py / syntax/ast.py:
    syntax node -> (proposition class, grammar-order positions of the operands passed) -/
def syntaxMap : List (String × String × List Nat) :=
  [{smap}]

/-- worked examples of docs/reference/statements.rst and operators.rst: (tokens, stated reading) -/
def docExamples : List (List String × List String) :=
  [{docs}]

end Scenic.Gen.LTLGram
"""


if __name__ == "__main__":
    import json
    print(json.dumps(extract(), indent=1))
