"""serialization.py Serializer.{scene,replay}FormatVersion / writeScene / readScene / writeReplayHeader /
readReplayHeader, simulators.py ReplayMode / Simulation.initializeReplay  ->  Gen/StreamCfg.lean.

Extracted: the two format versions, the struct formats (field widths) of the version and flags fields,
the asserted hash widths, whether every header field that is unpacked is length-checked first, whether
`readScene(verify=True)` compares both hashes with `!=`, the bit of `ReplayMode.checkDivergence`, and the two
facts of `initializeReplay` the stream theorems rest on (the divergence flag of the *replaying* run is taken
from the replay header; the recording run sets the header flag exactly when it writes divergence data).
Local variable names are not part of the template."""
import ast

from translate.astutil import TemplateMismatch, body_nodoc, const_int, expect, get_def, load

SER = "src/scenic/core/serialization.py"
SIM = "src/scenic/core/simulators.py"
WIDTH = {"<H": 2, "<I": 4, "<B": 1, "<Q": 8, "<h": 2, "<i": 4}


def _ret_const(tree, qual):
    fn = get_def(tree, qual, SER)
    body = body_nodoc(fn)
    expect(len(body) == 1 and isinstance(body[0], ast.Return), f"{qual}: not a single return")
    return const_int(body[0].value)


def _struct_calls(fn, which):
    """formats of all struct.<which>(fmt, ...) calls in source order"""
    out = []
    for n in ast.walk(fn):
        if (isinstance(n, ast.Call) and isinstance(n.func, ast.Attribute) and n.func.attr == which
                and isinstance(n.func.value, ast.Name) and n.func.value.id == "struct"):
            expect(n.args and isinstance(n.args[0], ast.Constant) and n.args[0].value in WIDTH,
                   f"struct.{which}: unknown format")
            out.append((n.lineno, n.col_offset, n.args[0].value, n))
    out.sort(key=lambda t: (t[0], t[1]))
    return out


def _reads(fn):
    """`x = self.stream.read(k)` assignments in order -> [(name, k)]"""
    out = []
    for st in fn.body:
        if (isinstance(st, ast.Assign) and isinstance(st.value, ast.Call) and isinstance(st.value.func, ast.Attribute)
                and st.value.func.attr == "read" and isinstance(st.targets[0], ast.Name)):
            out.append((st.targets[0].id, const_int(st.value.args[0])))
    return out


def _len_checked(fn, name, k):
    """is there `if len(<name>) != k: raise SerializationError(..)` at the top level of fn?"""
    for st in fn.body:
        if not isinstance(st, ast.If) or not isinstance(st.test, ast.Compare):
            continue
        t = st.test
        if (isinstance(t.left, ast.Call) and isinstance(t.left.func, ast.Name) and t.left.func.id == "len"
                and isinstance(t.left.args[0], ast.Name) and t.left.args[0].id == name
                and len(t.ops) == 1 and isinstance(t.ops[0], ast.NotEq)
                and isinstance(t.comparators[0], ast.Constant) and t.comparators[0].value == k
                and st.body and isinstance(st.body[0], ast.Raise) and "SerializationError" in ast.dump(st.body[0])):
            return True
    return False


def _version_refused(fn, meth):
    """`if <v> != self.<meth>(): raise SerializationError`"""
    for st in fn.body:
        if isinstance(st, ast.If) and isinstance(st.test, ast.Compare) and len(st.test.ops) == 1:
            c = st.test.comparators[0]
            if (isinstance(c, ast.Call) and isinstance(c.func, ast.Attribute) and c.func.attr == meth):
                return (isinstance(st.test.ops[0], ast.NotEq) and isinstance(st.test.left, ast.Name)
                        and isinstance(st.body[0], ast.Raise) and "SerializationError" in ast.dump(st.body[0]))
    return False


def _hash_refused(fn, var, attr_path):
    """`if verify and <var> != scenario.<attr_path>: raise SerializationError`"""
    for st in fn.body:
        if not (isinstance(st, ast.If) and isinstance(st.test, ast.BoolOp) and isinstance(st.test.op, ast.And)):
            continue
        vs = st.test.values
        if len(vs) != 2 or not (isinstance(vs[0], ast.Name) and vs[0].id == "verify"):
            continue
        c = vs[1]
        if (isinstance(c, ast.Compare) and len(c.ops) == 1 and isinstance(c.left, ast.Name) and c.left.id == var
                and ast.unparse(c.comparators[0]) == attr_path):
            return (isinstance(c.ops[0], ast.NotEq) and isinstance(st.body[0], ast.Raise)
                    and "SerializationError" in ast.dump(st.body[0]))
    return False


def extract():
    _, tree = load(SER)
    d = {"sceneVersion": _ret_const(tree, "Serializer.sceneFormatVersion"),
         "replayVersion": _ret_const(tree, "Serializer.replayFormatVersion")}
    # writeScene: version packed, then astHash (asserted width), then options hash (asserted width), then the sample
    ws = get_def(tree, "Serializer.writeScene", SER)
    packs = _struct_calls(ws, "pack")
    expect(len(packs) == 1, "writeScene: one struct.pack expected")
    d["sceneVersionWidth"] = WIDTH[packs[0][2]]
    widths = []
    for st in ws.body:
        if isinstance(st, ast.Assert):
            t = st.test
            expect(isinstance(t, ast.Compare) and isinstance(t.ops[0], ast.Eq) and "len(" in ast.unparse(t.left),
                   "writeScene: assert len(..) == k")
            widths.append(const_int(t.comparators[0]))
    expect(len(widths) == 2, "writeScene: two hash-width assertions expected")
    d["astHashWidth"], d["optHashWidth"] = widths
    order = [ast.unparse(st.value.args[0]) for st in ws.body
             if isinstance(st, ast.Expr) and isinstance(st.value, ast.Call)
             and isinstance(st.value.func, ast.Attribute) and st.value.func.attr == "write"]
    expect(len(order) == 3 and "astHash" in order[1] and "ash" in order[2] and "astHash" not in order[2],
           f"writeScene: field order changed: {order}")
    last = ws.body[-1]
    expect(isinstance(last, ast.Expr) and "writeSample" in ast.unparse(last), "writeScene: sample not written last")
    # readScene
    rs = get_def(tree, "Serializer.readScene", SER)
    reads = _reads(rs)
    expect(len(reads) == 3, "readScene: three header reads expected")
    unp = _struct_calls(rs, "unpack")
    expect(len(unp) == 1 and WIDTH[unp[0][2]] == reads[0][1], "readScene: version unpack width")
    d["sceneReadWidths"] = [k for _, k in reads]
    d["sceneHeaderChecked"] = (_len_checked(rs, reads[0][0], reads[0][1]) and _version_refused(rs, "sceneFormatVersion")
                               and _hash_refused(rs, reads[1][0], "scenario.astHash")
                               and _hash_refused(rs, reads[2][0], "scenario.compileOptions.hash"))
    # replay header
    wh = get_def(tree, "Serializer.writeReplayHeader", SER)
    packs = _struct_calls(wh, "pack")
    expect(len(packs) == 2, "writeReplayHeader: two struct.pack expected")
    expect("replayFormatVersion" in ast.unparse(packs[0][3]) and "flags" in ast.unparse(packs[1][3]),
           "writeReplayHeader: version then flags")
    d["replayVersionWidth"], d["replayFlagsWidth"] = WIDTH[packs[0][2]], WIDTH[packs[1][2]]
    rh = get_def(tree, "Serializer.readReplayHeader", SER)
    reads = _reads(rh)
    unp = _struct_calls(rh, "unpack")
    expect(len(reads) == 2 and len(unp) == 2, "readReplayHeader: two reads / unpacks expected")
    expect([WIDTH[u[2]] for u in unp] == [k for _, k in reads], "readReplayHeader: read width != unpack width")
    d["replayReadWidths"] = [k for _, k in reads]
    d["replayHeaderChecked"] = (all(_len_checked(rh, n, k) for n, k in reads)
                                and _version_refused(rh, "replayFormatVersion"))
    # ReplayMode.checkDivergence
    _, stree = load(SIM)
    rm = get_def(stree, "ReplayMode", SIM)
    expect(isinstance(rm, ast.ClassDef) and "IntFlag" in ast.unparse(rm.bases[0]), "ReplayMode is not an IntFlag")
    members = [st for st in rm.body if isinstance(st, ast.Assign)]
    bit = None
    for i, st in enumerate(members):
        if st.targets[0].id == "checkDivergence":
            v = st.value
            if isinstance(v, ast.Call) and ast.unparse(v.func) in ("enum.auto", "auto"):
                expect(all(isinstance(m.value, ast.Call) for m in members[:i]), "ReplayMode: mixed auto()/literal members")
                bit = 2 ** i
            else:
                bit = const_int(v)
    expect(bit is not None, "ReplayMode.checkDivergence not found")
    d["checkBit"] = bit
    # initializeReplay
    ir = get_def(stree, "Simulation.initializeReplay", SIM)
    src = [ast.unparse(st) for st in ast.walk(ir) if isinstance(st, (ast.Assign, ast.AugAssign, ast.Expr))]
    from_header = ("flags = ReplayMode(self._replayIn.readReplayHeader())" in src
                   and "self._checkDivergence = ReplayMode.checkDivergence in flags" in src)
    d["flagFromHeader"] = bool(from_header)
    flag_iff = False
    for st in ast.walk(ir):
        if isinstance(st, ast.If) and ast.unparse(st.test) == "enableDivergenceCheck":
            yes = [ast.unparse(s) for s in st.body]
            no = [ast.unparse(s) for s in st.orelse]
            flag_iff = (sorted(yes) == sorted(["flags |= ReplayMode.checkDivergence", "self._writeDivergenceData = True"])
                        and no == ["self._writeDivergenceData = False"])
    d["flagIffDivergenceData"] = flag_iff
    hdr_written = any(s == "self._replayOut.writeReplayHeader(flags)" for s in src)
    d["flagIffDivergenceData"] = bool(flag_iff and hdr_written)
    return d


def to_lean(d):
    b = lambda x: str(bool(x)).lower()
    l = lambda xs: "[" + ", ".join(str(x) for x in xs) + "]"
    return f"""import ScenicModel.Model.ReplayStream
namespace Scenic.Gen
/-- `Serializer.sceneFormatVersion()` -/
def sceneVersion : Nat := {d['sceneVersion']}
/-- `Serializer.replayFormatVersion()`, bit of `ReplayMode.checkDivergence` -/
def streamFmt : Scenic.ReplayStream.Fmt := ⟨{d['replayVersion']}, {d['checkBit']}⟩
/-- widths written by `writeScene`: version (struct format), asserted AST-hash and options-hash lengths -/
def sceneWriteWidths : List Nat := {l([d['sceneVersionWidth'], d['astHashWidth'], d['optHashWidth']])}
/-- widths read by `readScene` -/
def sceneReadWidths : List Nat := {l(d['sceneReadWidths'])}
/-- widths written by `writeReplayHeader` (version, flags) / read by `readReplayHeader` -/
def replayWriteWidths : List Nat := {l([d['replayVersionWidth'], d['replayFlagsWidth']])}
def replayReadWidths : List Nat := {l(d['replayReadWidths'])}
/-- `readScene`: version field length-checked, other version refused, both hashes compared with `!=` under `verify` -/
def sceneHeaderChecked : Bool := {b(d['sceneHeaderChecked'])}
/-- `readReplayHeader`: both fields length-checked before `struct.unpack`, other version refused -/
def replayHeaderChecked : Bool := {b(d['replayHeaderChecked'])}
/-- `initializeReplay`: `_checkDivergence` of the replaying run comes from the flags of the replay header -/
def flagFromHeader : Bool := {b(d['flagFromHeader'])}
/-- `initializeReplay`: the header flag is set exactly when `_writeDivergenceData` is, and that header is written -/
def flagIffDivergenceData : Bool := {b(d['flagIffDivergenceData'])}
end Scenic.Gen
"""
