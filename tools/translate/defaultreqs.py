"""scenarios.py Scenario.generateDefaultRequirements + the built-in classes of requirements.py
-> Gen/DefaultReqsCfg.lean  (data interpreted by ScenicModel/Model/DefaultReqs.lean).

Extracted: INITIAL_COLLISION_CHECK; the truth tables of the `colliding_objects` / `possible_occluders` conditions;
how each name used as an iterable is bound (materialised tuple/list vs one-shot filter/generator) and how often it is
consumed; the three visibility loops; what VisibilityRequirement.__init__ removes from the occluder list; the
`optional` flag every class hands to SamplingRequirement.__init__; the polarity of every falsifiedByInner.
Anything that does not have the expected shape raises TemplateMismatch.
"""
import ast

from translate.astutil import TemplateMismatch, body_nodoc, expect, get_def, is_name, load
from translate.checkercfg import expect_same, self_attr

REL_SC = "src/scenic/core/scenarios.py"
REL_RQ = "src/scenic/core/requirements.py"


# --------------------------------------------------------------------------- small evaluators
class _Random(Exception):
    pass


def tri_table(expr, var, attr):
    """Truth table of a condition over `needsSampling(var.attr)` and `var.attr` for the three kinds of value:
    random, constant True, constant False.  Python's short-circuit evaluation is followed; taking the truth value of a
    random property raises RandomControlFlowError in Scenic, so a condition that can reach it is not modelled."""
    def ev(n, needs, val):
        if isinstance(n, ast.BoolOp):
            for v in n.values:
                r = ev(v, needs, val)
                if isinstance(n.op, ast.And) and not r:
                    return False
                if isinstance(n.op, ast.Or) and r:
                    return True
            return isinstance(n.op, ast.And)
        if isinstance(n, ast.UnaryOp) and isinstance(n.op, ast.Not):
            return not ev(n.operand, needs, val)
        if (isinstance(n, ast.Call) and is_name(n.func, "needsSampling") and len(n.args) == 1
                and isinstance(n.args[0], ast.Attribute) and is_name(n.args[0].value, var) and n.args[0].attr == attr):
            return needs
        if isinstance(n, ast.Attribute) and is_name(n.value, var) and n.attr == attr:
            if val is None:
                raise _Random()
            return val
        raise TemplateMismatch(f"unsupported condition {ast.unparse(n)}")
    try:
        return {"random": ev(expr, True, None), "true": ev(expr, False, True), "false": ev(expr, False, False)}
    except _Random:
        raise TemplateMismatch(f"condition `{ast.unparse(expr)}` takes the truth value of a random property")


def iterable_binding(value):
    """-> (kind, element variable, condition, source iterable) for the supported ways of filtering a collection"""
    kind = None
    inner = value
    if isinstance(value, ast.Call) and isinstance(value.func, ast.Name) and value.func.id in ("tuple", "list") \
            and len(value.args) == 1 and not value.keywords:
        kind, inner = "materialized", value.args[0]
    if isinstance(inner, ast.ListComp) and kind is None:
        kind = "materialized"
    if isinstance(inner, (ast.GeneratorExp, ast.ListComp)):
        expect(len(inner.generators) == 1 and isinstance(inner.generators[0].target, ast.Name)
               and is_name(inner.elt, inner.generators[0].target.id) and len(inner.generators[0].ifs) == 1,
               "comprehension shape")
        g = inner.generators[0]
        return kind or "oneShot", g.target.id, g.ifs[0], g.iter
    if isinstance(inner, ast.Call) and is_name(inner.func, "filter") and len(inner.args) == 2 \
            and isinstance(inner.args[0], ast.Lambda) and len(inner.args[0].args.args) == 1:
        lam = inner.args[0]
        return kind or "oneShot", lam.args.args[0].arg, lam.body, inner.args[1]
    raise TemplateMismatch(f"unsupported iterable {ast.unparse(value)[:80]}")


def count_loads(fn, name):
    return sum(1 for n in ast.walk(fn) if isinstance(n, ast.Name) and n.id == name and isinstance(n.ctx, ast.Load))


def append_call(stmt, lst):
    """requirements.append(<Call>) -> the Call"""
    expect(isinstance(stmt, ast.Expr) and isinstance(stmt.value, ast.Call) and isinstance(stmt.value.func, ast.Attribute)
           and is_name(stmt.value.func.value, lst) and stmt.value.func.attr == "append" and len(stmt.value.args) == 1
           and isinstance(stmt.value.args[0], ast.Call) and not stmt.value.args[0].keywords,
           f"expected {lst}.append(<Requirement>(...)): {ast.unparse(stmt)[:80]}")
    return stmt.value.args[0]


# --------------------------------------------------------------------------- generateDefaultRequirements
def x_generate(tree):
    d = {}
    icc = None
    for n in tree.body:
        if isinstance(n, ast.Assign) and len(n.targets) == 1 and is_name(n.targets[0], "INITIAL_COLLISION_CHECK"):
            expect(isinstance(n.value, ast.Constant) and isinstance(n.value.value, bool), "INITIAL_COLLISION_CHECK literal")
            icc = n.value.value
    expect(icc is not None, "INITIAL_COLLISION_CHECK not found")
    fn = get_def(tree, "Scenario.generateDefaultRequirements", REL_SC)
    body = list(body_nodoc(fn))
    expect(len(body) == 10, f"generateDefaultRequirements: {len(body)} statements (expected 10)")
    s = body[0]
    expect(isinstance(s, ast.Assign) and isinstance(s.targets[0], ast.Name) and isinstance(s.value, ast.List) and not s.value.elts,
           "requirements = []")
    lst = s.targets[0].id
    # blanket
    s = body[1]
    expect(isinstance(s, ast.If) and is_name(s.test, "INITIAL_COLLISION_CHECK") and not s.orelse and len(s.body) == 1, "blanket if")
    c = append_call(s.body[0], lst)
    expect(is_name(c.func, "BlanketCollisionRequirement") and len(c.args) == 1 and self_attr(c.args[0], "objects"), "blanket call")
    d["initialCollisionCheck"] = icc
    # colliding objects
    s = body[2]
    expect(isinstance(s, ast.Assign) and isinstance(s.targets[0], ast.Name), "colliding_objects = ...")
    coll = s.targets[0].id
    kind, var, cond, src = iterable_binding(s.value)
    expect(self_attr(src, "objects"), "colliding objects are not drawn from self.objects")
    t = tri_table(cond, var, "allowCollisions")
    d["collideIfRandom"], d["collideIfTrue"], d["collideIfFalse"] = t["random"], t["true"], t["false"]
    expect(kind == "materialized" or count_loads(fn, coll) == 1, "one-shot colliding_objects consumed more than once")
    s = body[3]
    expect(isinstance(s, ast.For) and isinstance(s.target, ast.Tuple) and len(s.target.elts) == 2 and not s.orelse
           and isinstance(s.iter, ast.Call) and ast.unparse(s.iter.func) == "itertools.combinations"
           and len(s.iter.args) == 2 and is_name(s.iter.args[0], coll) and len(s.body) == 1, "combinations loop")
    expect(isinstance(s.iter.args[1], ast.Constant), "combinations size")
    d["combinationsOfTwo"] = s.iter.args[1].value == 2
    expect(d["combinationsOfTwo"], "combinations of a size other than 2")
    c = append_call(s.body[0], lst)
    a, b_ = s.target.elts
    expect(is_name(c.func, "IntersectionRequirement") and len(c.args) == 2 and is_name(c.args[0], a.id) and is_name(c.args[1], b_.id),
           "IntersectionRequirement(objA, objB)")
    # containment
    s = body[4]
    expect(isinstance(s, ast.For) and isinstance(s.target, ast.Name) and self_attr(s.iter, "objects") and len(s.body) == 2
           and not s.orelse, "containment loop")
    o = s.target.id
    expect(ast.unparse(s.body[0]) == f"container = self.containerOfObject({o})", "container = self.containerOfObject(obj)")
    i = s.body[1]
    expect(isinstance(i, ast.If) and not i.orelse and len(i.body) == 1, "containment if")
    if ast.unparse(i.test) == "not isinstance(container, AllRegion)":
        d["containUnlessAll"] = True
    else:
        raise TemplateMismatch("containment condition")
    c = append_call(i.body[0], lst)
    expect(is_name(c.func, "ContainmentRequirement") and len(c.args) == 2 and is_name(c.args[0], o) and is_name(c.args[1], "container"),
           "ContainmentRequirement(obj, container)")
    # occluders
    s = body[5]
    expect(isinstance(s, ast.Assign) and isinstance(s.targets[0], ast.Name), "possible_occluders = ...")
    occ = s.targets[0].id
    kind, var, cond, src = iterable_binding(s.value)
    expect(self_attr(src, "objects"), "possible occluders are not drawn from self.objects")
    t = tri_table(cond, var, "occluding")
    d["occludeIfRandom"], d["occludeIfTrue"], d["occludeIfFalse"] = t["random"], t["true"], t["false"]
    d["occludersKind"] = kind

    def vis_loop(s, attr, cls):
        expect(isinstance(s, ast.For) and isinstance(s.target, ast.Name) and not s.orelse and len(s.body) == 1, f"{cls} loop")
        k, var, cond, src = iterable_binding(s.iter)
        expect(self_attr(src, "_instances") and ast.unparse(cond) == f"{var}.{attr} is not None", f"{cls} loop filter")
        c = append_call(s.body[0], lst)
        t = s.target.id
        expect(is_name(c.func, cls) and len(c.args) == 3 and ast.unparse(c.args[0]) == f"{t}.{attr}" and is_name(c.args[1], t)
               and is_name(c.args[2], occ), f"{cls}(obj.{attr}, obj, {occ})")
    vis_loop(body[6], "_observingEntity", "VisibilityRequirement")
    vis_loop(body[7], "_nonObservingEntity", "NonVisibilityRequirement")
    d["hasObserving"] = d["hasNonObserving"] = True
    s = body[8]
    expect(isinstance(s, ast.For) and isinstance(s.target, ast.Name) and not s.orelse and len(s.body) == 2, "ego loop")
    k, var, cond, src = iterable_binding(s.iter)
    expect(self_attr(src, "objects") and ast.unparse(cond) == f"{var}.requireVisible and {var} is not self.egoObject", "ego loop filter")
    i = s.body[0]
    expect(isinstance(i, ast.If) and ast.unparse(i.test) == "not self.egoObject" and len(i.body) == 1
           and isinstance(i.body[0], ast.Raise), "ego check")
    c = append_call(s.body[1], lst)
    expect(is_name(c.func, "VisibilityRequirement") and len(c.args) == 3 and self_attr(c.args[0], "egoObject")
           and is_name(c.args[1], s.target.id) and self_attr(c.args[2], "objects"), "VisibilityRequirement(self.egoObject, obj, self.objects)")
    d["hasEgoVisible"] = True
    expect(ast.unparse(body[9]) == f"return tuple({lst})", "return tuple(requirements)")
    expect_same(get_def(tree, "Scenario.containerOfObject", REL_SC), """
def containerOfObject(self, obj):
    if hasattr(obj, "regionContainedIn") and obj.regionContainedIn is not None:
        return obj.regionContainedIn
    else:
        return convertToFootprint(self.workspace.region)
""", "Scenario.containerOfObject")
    return d


# --------------------------------------------------------------------------- requirements.py
def init_optional(tree, cls):
    """the `optional` value a class's constructor passes to SamplingRequirement.__init__ when the caller gives none"""
    c = get_def(tree, cls, REL_RQ)
    init = next((n for n in c.body if isinstance(n, ast.FunctionDef) and n.name == "__init__"), None)
    if init is None:
        expect(len(c.bases) == 1 and isinstance(c.bases[0], ast.Name), f"{cls}: bases")
        return init_optional(tree, c.bases[0].id)
    sup = [n for n in ast.walk(init) if isinstance(n, ast.Call) and ast.unparse(n.func) == "super().__init__"]
    expect(len(sup) == 1 and not sup[0].args and len(sup[0].keywords) == 1 and sup[0].keywords[0].arg == "optional",
           f"{cls}.__init__: super().__init__(optional=...)")
    v = sup[0].keywords[0].value
    if isinstance(v, ast.Constant) and isinstance(v.value, bool):
        return v.value
    expect(is_name(v, "optional"), f"{cls}: optional argument")
    args = init.args
    names = [a.arg for a in args.args]
    expect("optional" in names, f"{cls}: no optional parameter")
    idx = names.index("optional") - (len(names) - len(args.defaults))
    expect(idx >= 0 and isinstance(args.defaults[idx], ast.Constant) and isinstance(args.defaults[idx].value, bool),
           f"{cls}: optional has no boolean default")
    return args.defaults[idx].value


def method(tree, cls, name):
    c = get_def(tree, cls, REL_RQ)
    m = next((n for n in c.body if isinstance(n, ast.FunctionDef) and n.name == name), None)
    expect(m is not None, f"{cls}.{name} not found")
    return m


def negated(node):
    if isinstance(node, ast.UnaryOp) and isinstance(node.op, ast.Not):
        return True, node.operand
    return False, node


def x_requirements(tree):
    d = {}
    expect_same(method(tree, "SamplingRequirement", "__init__"), """
def __init__(self, optional):
    self.optional = optional
    self.active = True
""", "SamplingRequirement.__init__")
    expect_same(method(tree, "SamplingRequirement", "falsifiedBy"), """
def falsifiedBy(self, sample):
    assert self.active
    return self.falsifiedByInner(sample)
""", "SamplingRequirement.falsifiedBy")
    d["optBlanket"] = init_optional(tree, "BlanketCollisionRequirement")
    d["optIntersection"] = init_optional(tree, "IntersectionRequirement")
    d["optContainment"] = init_optional(tree, "ContainmentRequirement")
    v, nv = init_optional(tree, "VisibilityRequirement"), init_optional(tree, "NonVisibilityRequirement")
    expect(v == nv, "Visibility / NonVisibility optional flags differ (not modelled)")
    d["optVisibility"] = v
    d["optUser"] = init_optional(tree, "CompiledRequirement")
    # IntersectionRequirement.falsifiedByInner
    body = body_nodoc(method(tree, "IntersectionRequirement", "falsifiedByInner"))
    expect(len(body) in (3, 4) and ast.unparse(body[0]) == "objA = sample[self.objA]" and ast.unparse(body[1]) == "objB = sample[self.objB]",
           "IntersectionRequirement.falsifiedByInner: sample lookups")
    if len(body) == 4:
        expect(ast.unparse(body[2]) == "if objA.allowCollisions or objB.allowCollisions:\n    return False", "allowCollisions shortcut")
        d["interSkipsAllowed"] = True
    else:
        d["interSkipsAllowed"] = False
    r = body[-1]
    expect(isinstance(r, ast.Return), "IntersectionRequirement: return")
    neg, e = negated(r.value)
    expect(ast.unparse(e) in ("objA.intersects(objB)", "objB.intersects(objA)"), "objA.intersects(objB)")
    d["interPositive"] = not neg
    # ContainmentRequirement
    body = body_nodoc(method(tree, "ContainmentRequirement", "falsifiedByInner"))
    expect(len(body) == 3 and ast.unparse(body[0]) == "obj = sample[self.obj]" and ast.unparse(body[1]) == "container = sample[self.container]"
           and isinstance(body[2], ast.Return), "ContainmentRequirement.falsifiedByInner")
    neg, e = negated(body[2].value)
    expect(ast.unparse(e) == "container.containsObject(obj)", "container.containsObject(obj)")
    d["containNegated"] = neg
    # VisibilityRequirement
    init = method(tree, "VisibilityRequirement", "__init__")
    comp = [n for n in ast.walk(init) if isinstance(n, ast.GeneratorExp)]
    expect(len(comp) == 1 and len(comp[0].generators) == 1 and is_name(comp[0].generators[0].iter, "objects")
           and len(comp[0].generators[0].ifs) <= 1, "VisibilityRequirement.__init__: occluder comprehension")
    assigns = [ast.unparse(n) for n in body_nodoc(init)]
    expect("self.source = source" in assigns and "self.target = target" in assigns, "VisibilityRequirement.__init__: fields")
    v = comp[0].generators[0].target.id
    conds = []
    if comp[0].generators[0].ifs:
        c = comp[0].generators[0].ifs[0]
        conds = [ast.unparse(x) for x in (c.values if isinstance(c, ast.BoolOp) and isinstance(c.op, ast.And) else [c])]
    expect(set(conds) <= {f"{v} is not self.source", f"{v} is not self.target"}, "occluder exclusion condition")
    d["dropSource"] = f"{v} is not self.source" in conds
    d["dropTarget"] = f"{v} is not self.target" in conds
    body = body_nodoc(method(tree, "VisibilityRequirement", "falsifiedByInner"))
    texts = [ast.unparse(s) for s in body]
    expect(len(body) in (4, 5) and texts[0] == "source = sample[self.source]" and texts[1] == "target = sample[self.target]"
           and texts[2] == "potential_occluders = tuple((sample[obj] for obj in self.potential_occluders))", "VisibilityRequirement.falsifiedByInner")
    if len(body) == 5:
        expect(texts[3] == "occluders = tuple((obj for obj in potential_occluders if obj.occluding))", "occluding filter")
        d["visFiltersOccluding"] = True
        arg = "occluders"
    else:
        d["visFiltersOccluding"] = False
        arg = "potential_occluders"
    expect(isinstance(body[-1], ast.Return), "VisibilityRequirement: return")
    neg, e = negated(body[-1].value)
    expect(ast.unparse(e) == f"source.canSee(target, occludingObjects={arg})", "source.canSee(target, occludingObjects=...)")
    d["visNegated"] = neg
    body = body_nodoc(method(tree, "NonVisibilityRequirement", "falsifiedByInner"))
    expect(len(body) == 1 and isinstance(body[0], ast.Return), "NonVisibilityRequirement.falsifiedByInner")
    neg, e = negated(body[0].value)
    expect(ast.unparse(e) == "super().falsifiedByInner(sample)", "super().falsifiedByInner(sample)")
    d["nonVisNegatesSuper"] = neg
    body = body_nodoc(method(tree, "CompiledRequirement", "falsifiedByInner"))
    expect(len(body) == 2 and ast.unparse(body[0]) == "one_time_monitor = self.proposition.create_monitor()"
           and isinstance(body[1], ast.Return) and isinstance(body[1].value, ast.Compare) and len(body[1].value.ops) == 1
           and ast.unparse(body[1].value.left) == "self.closure(sample, one_time_monitor)"
           and ast.unparse(body[1].value.comparators[0]) == "rv_ltl.B4.FALSE", "CompiledRequirement.falsifiedByInner")
    if isinstance(body[1].value.ops[0], ast.Eq):
        d["userFalsifiedWhenFalse"] = True
    elif isinstance(body[1].value.ops[0], ast.NotEq):
        d["userFalsifiedWhenFalse"] = False
    else:
        raise TemplateMismatch("CompiledRequirement comparison")
    return d


REFERENCE = dict(initialCollisionCheck=True, collideIfRandom=True, collideIfFalse=True, collideIfTrue=False, combinationsOfTwo=True,
                 containUnlessAll=True, occludeIfRandom=True, occludeIfTrue=True, occludeIfFalse=False, occludersKind="materialized",
                 hasObserving=True, hasNonObserving=True, hasEgoVisible=True, dropSource=True, dropTarget=True, optBlanket=True,
                 optIntersection=False, optContainment=False, optVisibility=False, optUser=False, interSkipsAllowed=True,
                 interPositive=True, containNegated=True, visNegated=True, visFiltersOccluding=True, nonVisNegatesSuper=True,
                 userFalsifiedWhenFalse=True)


def extract_parts():
    """-> (data, errors); a file whose shape is not recognised contributes an error and the REFERENCE values."""
    d, errors = dict(REFERENCE), []
    for rel, fn in ((REL_SC, x_generate), (REL_RQ, x_requirements)):
        try:
            _, t = load(rel)
            d.update(fn(t))
        except TemplateMismatch as e:
            errors.append(str(e))
    return d, errors


def extract():
    d, errors = extract_parts()
    if errors:
        raise TemplateMismatch("; ".join(errors))
    return d


ORDER = ["initialCollisionCheck", "collideIfRandom", "collideIfFalse", "collideIfTrue", "combinationsOfTwo", "containUnlessAll",
         "occludeIfRandom", "occludeIfTrue", "occludeIfFalse", "occludersKind", "hasObserving", "hasNonObserving",
         "hasEgoVisible", "dropSource", "dropTarget", "optBlanket", "optIntersection", "optContainment", "optVisibility",
         "optUser", "interSkipsAllowed", "interPositive", "containNegated", "visNegated", "visFiltersOccluding",
         "nonVisNegatesSuper", "userFalsifiedWhenFalse"]


def to_lean(d):
    def v(k):
        x = d[k]
        return "." + x if isinstance(x, str) else ("true" if x else "false")
    fields = "\n".join(f"  {k} := {v(k)}" for k in ORDER)
    return f"""import ScenicModel.Model.DefaultReqs
namespace Scenic.Gen
open Scenic.DefaultReqs
/-- choice points of Scenario.generateDefaultRequirements (scenarios.py) and of the built-in requirement
    classes (requirements.py) -/
def defaultReqsCfg : Cfg := {{
{fields}
}}
end Scenic.Gen
"""
