"""regions.py samplers -> Gen/RegionSampling.lean (property C03).

Template extraction (never guesses: anything that does not match raises TemplateMismatch):

* IntersectionRegion.genericSampler   -> interDimOp (operator of the dimension filter), interChecksAll
* UnionRegion.genericSampler          -> unionDimOp, unionWeight (size | one), unionCount (allRegs | largeRegs),
                                         unionAccept (invCount | always)
* DifferenceRegion.genericSampler     -> diffRejectsInB
* Intersection/Union/DifferenceRegion._trueContainsPoint -> interTrue / unionTrue / diffTrue (structural | inherited)
* PointSetRegion.intersect.sampler    -> ballFilter (and that the ball is `o.circumcircle`), ballFallback (the
                                         `hasattr(o, "circumcircle")` guard: all points | AttributeError)
* PolygonalRegion.uniformPointInner   -> polygonOuterFilter (candidates outside self.polygons are discarded and redrawn)
* GridRegion._trueContainsPoint, PolygonalRegion._trueContainsPoint, PolylineRegion.containsPoint -> membership table
* SectorRegion._makeCircumcircle      -> thr, k, op  (if c > thr: r = radius / (k*c) ...)
* CircularRegion / RectangularRegion / MeshRegion circumcircle -> radius kinds
* the z written into the returned Vector by the five planar uniformPointInner
"""
import ast
from fractions import Fraction

from translate.astutil import TemplateMismatch, body_nodoc, expect, get_def, is_name, load

REL = "src/scenic/core/regions.py"

CMP = {ast.LtE: "le", ast.Lt: "lt", ast.Eq: "eq", ast.GtE: "ge", ast.Gt: "gt"}


def _attr(node, name):
    return isinstance(node, ast.Attribute) and node.attr == name


def _call_attr(node, name):
    return isinstance(node, ast.Call) and _attr(node.func, name)


def _walk(node, typ):
    return [n for n in ast.walk(node) if isinstance(n, typ)]


def _assigns(fn):
    """name -> value for simple single-target assignments in a function body (first wins)"""
    out = {}
    for n in ast.walk(fn):
        if isinstance(n, ast.Assign):
            for t in n.targets:
                if isinstance(t, ast.Name) and t.id not in out:
                    out[t.id] = n.value
    return out


def _num(node):
    if isinstance(node, ast.Constant) and isinstance(node.value, (int, float)) and not isinstance(node.value, bool):
        return Fraction(node.value)
    if isinstance(node, ast.UnaryOp) and isinstance(node.op, ast.USub):
        return -_num(node.operand)
    raise TemplateMismatch(f"expected a numeric literal, got {ast.dump(node)[:60]}")


# ------------------------------------------------------------------------------------------ generic samplers
def _intersection(tree):
    fn = get_def(tree, "IntersectionRegion.genericSampler", REL)
    asg = _assigns(fn)
    expect(fn.args.args and len(fn.args.args) == 1, "IntersectionRegion.genericSampler: one parameter")
    param = fn.args.args[0].arg
    regs = [k for k, v in asg.items() if _attr(v, "regions") and is_name(v.value, param)]
    expect(len(regs) == 1, "intersection: `regs = intersection.regions`")
    regs = regs[0]
    # min_dim = min(known) if known else inf
    mins = [k for k, v in asg.items() if any(isinstance(c, ast.Call) and is_name(c.func, "min") for c in ast.walk(v))]
    expect(len(mins) == 1, "intersection: min_dim = min(...)")
    min_dim = mins[0]
    # sampling_regions = [r for r in regs if r.dimensionality is None or r.dimensionality <op> min_dim]
    samp = None
    for k, v in asg.items():
        if isinstance(v, ast.ListComp) and len(v.generators) == 1 and is_name(v.generators[0].iter, regs) \
                and len(v.generators[0].ifs) == 1 and isinstance(v.generators[0].ifs[0], ast.BoolOp):
            samp = (k, v)
    expect(samp is not None, "intersection: sampling_regions list comprehension")
    sname, comp = samp
    var = comp.generators[0].target
    expect(isinstance(var, ast.Name) and is_name(comp.elt, var.id), "intersection: comprehension element")
    cond = comp.generators[0].ifs[0]
    expect(isinstance(cond.op, ast.Or) and len(cond.values) == 2, "intersection: `is None or <=`")
    a, b = cond.values
    expect(isinstance(a, ast.Compare) and _attr(a.left, "dimensionality") and isinstance(a.ops[0], ast.Is)
           and isinstance(a.comparators[0], ast.Constant) and a.comparators[0].value is None,
           "intersection: `r.dimensionality is None`")
    expect(isinstance(b, ast.Compare) and _attr(b.left, "dimensionality") and len(b.ops) == 1
           and type(b.ops[0]) in CMP and is_name(b.comparators[0], min_dim),
           "intersection: `r.dimensionality <op> min_dim`")
    dim_op = CMP[type(b.ops[0])]
    # for reg in sampling_regions: try: point = reg.uniformPointInner() except ...: continue ; if all(...): return point
    loops = [n for n in _walk(fn, ast.For) if is_name(n.iter, sname)]
    expect(len(loops) == 1, "intersection: for reg in sampling_regions")
    loop = loops[0]
    expect(len(loop.body) == 2 and isinstance(loop.body[0], ast.Try) and isinstance(loop.body[1], ast.If),
           "intersection: loop body is try + if")
    tr = loop.body[0]
    expect(len(tr.body) == 1 and isinstance(tr.body[0], ast.Assign) and _call_attr(tr.body[0].value, "uniformPointInner")
           and is_name(tr.body[0].value.func.value, loop.target.id), "intersection: point = reg.uniformPointInner()")
    pt = tr.body[0].targets[0].id
    hs = {}
    for h in tr.handlers:
        expect(isinstance(h.type, ast.Name) and isinstance(h.body[-1], ast.Continue), "intersection: handlers continue")
        hs[h.type.id] = h
    expect(set(hs) == {"UndefinedSamplingException", "RejectionException"}, "intersection: the two handlers")
    test = loop.body[1]
    expect(isinstance(test.body[0], ast.Return) and is_name(test.body[0].value, pt) and not test.orelse,
           "intersection: return point")
    t = test.test
    expect(isinstance(t, ast.Call) and is_name(t.func, "all") and isinstance(t.args[0], ast.GeneratorExp),
           "intersection: all(...)")
    g = t.args[0]
    expect(len(g.generators) == 1 and not g.generators[0].ifs and _call_attr(g.elt, "_trueContainsPoint")
           and is_name(g.elt.func.value, g.generators[0].target.id) and is_name(g.elt.args[0], pt),
           "intersection: region._trueContainsPoint(point)")
    expect(is_name(g.generators[0].iter, regs), "intersection: the membership test ranges over all operands")
    # the final raises: Undefined iff all sampling regions undefined, else Rejection
    last = fn.body[-1]
    expect(isinstance(last, ast.Raise) and isinstance(last.exc, ast.Call) and is_name(last.exc.func, "RejectionException"),
           "intersection: final RejectionException")
    return {"interDimOp": dim_op, "interChecksAll": True}


def _union(tree):
    fn = get_def(tree, "UnionRegion.genericSampler", REL)
    asg = _assigns(fn)
    param = fn.args.args[0].arg
    regs = [k for k, v in asg.items() if _attr(v, "regions") and is_name(v.value, param)]
    expect(len(regs) == 1, "union: `regs = union.regions`")
    regs = regs[0]
    maxs = [k for k, v in asg.items() if isinstance(v, ast.Call) and is_name(v.func, "max")]
    expect(len(maxs) == 1, "union: max_dim = max(...)")
    max_dim = maxs[0]
    mv = asg[max_dim]
    expect(isinstance(mv.args[0], ast.GeneratorExp) and _attr(mv.args[0].elt, "dimensionality")
           and is_name(mv.args[0].generators[0].iter, regs), "union: max over reg.dimensionality of regs")

    def genexp_of(v):
        if isinstance(v, ast.Call) and is_name(v.func, "tuple") and len(v.args) == 1:
            v = v.args[0]
        if isinstance(v, (ast.GeneratorExp, ast.ListComp)) and len(v.generators) == 1:
            return v
        return None
    large = None
    for k, v in asg.items():
        g = genexp_of(v)
        if g is not None and is_name(g.generators[0].iter, regs) and len(g.generators[0].ifs) == 1 \
                and isinstance(g.generators[0].ifs[0], ast.Compare) and is_name(g.elt, g.generators[0].target.id):
            large = (k, g)
    expect(large is not None, "union: large_regs filter")
    lname, g = large
    c = g.generators[0].ifs[0]
    expect(_attr(c.left, "dimensionality") and len(c.ops) == 1 and type(c.ops[0]) in CMP
           and is_name(c.comparators[0], max_dim), "union: reg.dimensionality <op> max_dim")
    dim_op = CMP[type(c.ops[0])]
    # target_reg = random.choices(large_regs, weights=reg_sizes)[0]
    ch = [n for n in _walk(fn, ast.Call) if _attr(n.func, "choices")]
    expect(len(ch) == 1 and is_name(ch[0].args[0], lname), "union: random.choices(large_regs, ...)")
    kws = {k.arg: k.value for k in ch[0].keywords}
    if not kws and len(ch[0].args) == 1:
        weight = "one"
    else:
        expect(set(kws) == {"weights"}, "union: weights= keyword")
        w = kws["weights"]
        if isinstance(w, ast.Name):
            w = asg.get(w.id)
        wg = genexp_of(w) if w is not None else None
        expect(wg is not None and is_name(wg.generators[0].iter, lname) and not wg.generators[0].ifs,
               "union: weights over large_regs")
        if _attr(wg.elt, "size") and is_name(wg.elt.value, wg.generators[0].target.id):
            weight = "size"
        elif isinstance(wg.elt, ast.Constant) and wg.elt.value == 1:
            weight = "one"
        else:
            raise TemplateMismatch("union: weight expression is neither reg.size nor 1")
    # containment_count = sum(int(reg._trueContainsPoint(point)) for reg in <scope>)
    #   or, equivalently, 1 + sum(... for reg in <scope> if reg is not target_reg)   (the drawn region counted by construction)
    cnt = [(k, v) for k, v in asg.items() if any(isinstance(c, ast.Call) and is_name(c.func, "sum") for c in ast.walk(v))]
    accept, scope, selfc = "always", "allRegs", "byTest"
    rnd = [n for n in _walk(fn, ast.If) if any(_call_attr(c, "random") for c in ast.walk(n.test))]
    if rnd:
        expect(len(rnd) == 1 and len(cnt) == 1, "union: one rejection test and one containment count")
        cname, cv = cnt[0]
        plus_one = False
        if isinstance(cv, ast.BinOp) and isinstance(cv.op, ast.Add) and isinstance(cv.left, ast.Constant) and cv.left.value == 1:
            plus_one, cv = True, cv.right
        expect(isinstance(cv, ast.Call) and is_name(cv.func, "sum"), "union: containment count is a sum")
        cg = cv.args[0]
        expect(isinstance(cg, ast.GeneratorExp) and len(cg.generators) == 1, "union: containment generator")
        gifs = cg.generators[0].ifs
        if plus_one:
            tgt = [k for k, v in asg.items() if isinstance(v, ast.Subscript) and any(_attr(getattr(c, "func", None), "choices") for c in ast.walk(v))]
            expect(len(gifs) == 1 and isinstance(gifs[0], ast.Compare) and isinstance(gifs[0].ops[0], ast.IsNot)
                   and is_name(gifs[0].left, cg.generators[0].target.id) and len(tgt) == 1 and is_name(gifs[0].comparators[0], tgt[0]),
                   "union: 1 + sum(... if reg is not target_reg)")
            selfc = "byConstruction"
        else:
            expect(not gifs, "union: containment generator has no filter")
        e = cg.elt
        if isinstance(e, ast.Call) and is_name(e.func, "int"):
            e = e.args[0]
        expect(_call_attr(e, "_trueContainsPoint") and is_name(e.func.value, cg.generators[0].target.id),
               "union: reg._trueContainsPoint(point)")
        it = cg.generators[0].iter
        if is_name(it, regs):
            scope = "allRegs"
        elif is_name(it, lname):
            scope = "largeRegs"
        else:
            raise TemplateMismatch("union: containment count ranges over an unknown collection")
        t = rnd[0].test
        # random.random() < 1 - 1 / containment_count
        expect(isinstance(t, ast.Compare) and _call_attr(t.left, "random") and isinstance(t.ops[0], ast.Lt), "union: random() <")
        r = t.comparators[0]
        expect(isinstance(r, ast.BinOp) and isinstance(r.op, ast.Sub) and isinstance(r.left, ast.Constant) and r.left.value == 1
               and isinstance(r.right, ast.BinOp) and isinstance(r.right.op, ast.Div)
               and isinstance(r.right.left, ast.Constant) and r.right.left.value == 1 and is_name(r.right.right, cname),
               "union: threshold is 1 - 1 / containment_count")
        expect(isinstance(rnd[0].body[0], ast.Raise), "union: rejection raises")
        accept = "invCount"
    # the sampled point comes from target_reg.uniformPointInner() and is returned
    ups = [n for n in _walk(fn, ast.Call) if _attr(n.func, "uniformPointInner")]
    expect(len(ups) == 1, "union: one uniformPointInner call")
    expect(isinstance(fn.body[-1], ast.Return), "union: returns the point")
    if not rnd:
        selfc = "byConstruction"   # no count at all: nothing is asked of the drawn region
    return {"unionDimOp": dim_op, "unionWeight": weight, "unionCount": scope, "unionAccept": accept, "unionSelf": selfc}


def _difference(tree):
    fn = get_def(tree, "DifferenceRegion.genericSampler", REL)
    body = body_nodoc(fn)
    expect(len(body) in (3, 4), "difference: body shape")
    asg = _assigns(fn)
    ups = [n for n in _walk(fn, ast.Call) if _attr(n.func, "uniformPointInner")]
    expect(len(ups) == 1, "difference: one uniformPointInner call")
    ifs = _walk(fn, ast.If)
    if not ifs:
        return {"diffRejectsInB": False}
    expect(len(ifs) == 1 and _call_attr(ifs[0].test, "_trueContainsPoint") and isinstance(ifs[0].body[0], ast.Raise)
           and not ifs[0].orelse, "difference: if regionB._trueContainsPoint(point): raise")
    # the receiver must be the second operand
    recv = ifs[0].test.func.value
    ok = False
    for n in ast.walk(fn):
        if isinstance(n, ast.Assign) and isinstance(n.targets[0], ast.Tuple) and isinstance(n.value, ast.Tuple):
            names = [t.id for t in n.targets[0].elts if isinstance(t, ast.Name)]
            vals = [v.attr for v in n.value.elts if isinstance(v, ast.Attribute)]
            if vals == ["regionA", "regionB"] and len(names) == 2:
                ok = is_name(recv, names[1]) and is_name(ups[0].func.value, names[0])
    expect(ok, "difference: samples regionA and tests regionB")
    return {"diffRejectsInB": True}


def _pointset(tree):
    fn = get_def(tree, "PointSetRegion.intersect", REL)
    inner = [n for n in fn.body if isinstance(n, ast.FunctionDef) and n.name == "sampler"]
    expect(len(inner) == 1, "PointSetRegion.intersect: inner sampler")
    s = inner[0]
    asg = _assigns(s)
    circ = [n for n in ast.walk(s) if isinstance(n, ast.Assign) and _attr(n.value, "circumcircle")]
    expect(len(circ) == 1 and isinstance(circ[0].targets[0], ast.Tuple) and len(circ[0].targets[0].elts) == 2,
           "point-set sampler: center, radius = o.circumcircle")
    o = circ[0].value.value
    expect(isinstance(o, ast.Name), "point-set sampler: o")
    # o must be the second operand of the intersection: o = intRegion.regions[1]
    ov = asg.get(o.id)
    expect(isinstance(ov, ast.Subscript) and _attr(ov.value, "regions") and isinstance(ov.slice, ast.Constant) and ov.slice.value == 1
           and s.args.args and is_name(ov.value.value, s.args.args[0].arg), "point-set sampler: o = intRegion.regions[1]")
    cen, rad = [e.id for e in circ[0].targets[0].elts]
    q = [n for n in _walk(s, ast.Call) if _attr(n.func, "query_ball_point")]
    expect(len(q) == 1 and is_name(q[0].args[0], cen) and is_name(q[0].args[1], rad) and len(q[0].args) == 2 and not q[0].keywords,
           "point-set sampler: query_ball_point(center, radius)")
    expect(_attr(q[0].func.value, "kdTree") and is_name(q[0].func.value.value, "self"), "point-set sampler: self.kdTree.query_ball_point")
    # the guard: if hasattr(o, "circumcircle"): <ball> else: indices = range(len(self.kdTree.data))
    guards = [n for n in _walk(s, ast.If) if isinstance(n.test, ast.Call) and is_name(n.test.func, "hasattr")]
    if guards:
        expect(len(guards) == 1, "point-set sampler: one hasattr guard")
        g = guards[0]
        expect(len(g.test.args) == 2 and is_name(g.test.args[0], o.id) and isinstance(g.test.args[1], ast.Constant)
               and g.test.args[1].value == "circumcircle", 'point-set sampler: hasattr(o, "circumcircle")')
        expect(circ[0] in g.body and any(q[0] in ast.walk(n) for n in g.body), "point-set sampler: the ball query is under the guard")
        expect(len(g.orelse) == 1 and isinstance(g.orelse[0], ast.Assign) and isinstance(g.orelse[0].value, ast.Call)
               and is_name(g.orelse[0].value.func, "range") and len(g.orelse[0].value.args) == 1,
               "point-set sampler: else: indices = range(len(...))")
        ln = g.orelse[0].value.args[0]
        expect(isinstance(ln, ast.Call) and is_name(ln.func, "len") and _attr(ln.args[0], "data") and _attr(ln.args[0].value, "kdTree"),
               "point-set sampler: range(len(self.kdTree.data))")
        qa = [n for n in g.body if isinstance(n, ast.Assign) and n.value is q[0]]
        expect(len(qa) == 1 and is_name(qa[0].targets[0], g.orelse[0].targets[0].id), "point-set sampler: both branches assign the indices")
        fallback = "allPoints"
    else:
        expect(circ[0] in s.body, "point-set sampler: unguarded circumcircle access at top level")
        fallback = "attributeError"
    comps = [v for v in asg.values() if isinstance(v, ast.ListComp)]
    expect(len(comps) == 1, "point-set sampler: intersection list")
    ifs = comps[0].generators[0].ifs
    if not ifs:
        filt = "none"
    else:
        expect(len(ifs) == 1 and isinstance(ifs[0], ast.Call) and isinstance(ifs[0].func, ast.Attribute)
               and ifs[0].func.attr in ("containsPoint", "_trueContainsPoint") and is_name(ifs[0].func.value, o.id)
               and len(ifs[0].args) == 1 and is_name(ifs[0].args[0], comps[0].generators[0].target.id),
               "point-set sampler: o.containsPoint(p) / o._trueContainsPoint(p)")
        filt = "containsPoint" if ifs[0].func.attr == "containsPoint" else "trueContainsPoint"
    ch = [n for n in _walk(s, ast.Call) if _attr(n.func, "choice")]
    expect(len(ch) == 1, "point-set sampler: random.choice")
    return {"ballFilter": filt, "ballFallback": fallback}


# ------------------------------------------------------------------------------------------ circumcircles
def _sector_circ(tree):
    fn = get_def(tree, "SectorRegion._makeCircumcircle", REL)
    body = body_nodoc(fn)
    expect(len(body) == 3 and isinstance(body[0], ast.Assign) and isinstance(body[1], ast.If) and isinstance(body[2], ast.Return),
           "_makeCircumcircle: c = ...; if c > thr: ...; return (center, radius)")
    names = [a.arg for a in fn.args.args]
    expect(names == ["center", "radius", "heading", "angle"], "_makeCircumcircle parameters")
    cvar = body[0].targets[0].id
    v = body[0].value
    expect(_call_attr(v, "cos") and isinstance(v.args[0], ast.BinOp) and isinstance(v.args[0].op, ast.Div)
           and is_name(v.args[0].left, "angle") and _num(v.args[0].right) == 2, "_makeCircumcircle: c = cos(angle / 2)")
    t = body[1].test
    expect(isinstance(t, ast.Compare) and is_name(t.left, cvar) and isinstance(t.ops[0], (ast.Gt, ast.GtE)), "_makeCircumcircle: if c > thr")
    thr = _num(t.comparators[0])
    ib = body[1].body
    expect(len(ib) == 2 and isinstance(ib[0], ast.Assign) and isinstance(ib[1], ast.Return) and not body[1].orelse, "_makeCircumcircle: narrow branch")
    rvar = ib[0].targets[0].id
    e = ib[0].value

    def kc(n):  # k * c or c * k  -> k
        if isinstance(n, ast.BinOp) and isinstance(n.op, ast.Mult):
            if is_name(n.right, cvar):
                return _num(n.left)
            if is_name(n.left, cvar):
                return _num(n.right)
        raise TemplateMismatch("_makeCircumcircle: expected k * c")
    if isinstance(e, ast.BinOp) and isinstance(e.op, ast.Div) and is_name(e.left, "radius"):
        op, k = "divide", kc(e.right)
    elif isinstance(e, ast.BinOp) and isinstance(e.op, ast.Mult) and is_name(e.right, cvar) and isinstance(e.left, ast.BinOp) \
            and isinstance(e.left.op, ast.Div) and is_name(e.left.left, "radius"):
        op, k = "multiply", _num(e.left.right)
    else:
        raise TemplateMismatch("_makeCircumcircle: r is neither radius / (k*c) nor (radius / k) * c")
    ret = ib[1].value
    expect(isinstance(ret, ast.Tuple) and _call_attr(ret.elts[0], "offsetRadially") and is_name(ret.elts[0].func.value, "center")
           and is_name(ret.elts[0].args[0], rvar) and is_name(ret.elts[0].args[1], "heading") and is_name(ret.elts[1], rvar),
           "_makeCircumcircle: return (center.offsetRadially(r, heading), r)")
    w = body[2].value
    expect(isinstance(w, ast.Tuple) and is_name(w.elts[0], "center") and is_name(w.elts[1], "radius"), "_makeCircumcircle: return (center, radius)")
    # SectorRegion.__init__ must use it
    init = get_def(tree, "SectorRegion.__init__", REL)
    use = [n for n in ast.walk(init) if isinstance(n, ast.Assign) and _attr(n.targets[0], "circumcircle")]
    expect(len(use) == 1 and _call_attr(use[0].value, "_makeCircumcircle"), "SectorRegion.__init__: circumcircle = self._makeCircumcircle(...)")
    return {"thr": thr, "k": k, "op": op}


def _self_attr(n, name):
    return _attr(n, name) and is_name(n.value, "self")


def _circ_table(tree):
    out = {}
    init = get_def(tree, "CircularRegion.__init__", REL)
    a = [n for n in ast.walk(init) if isinstance(n, ast.Assign) and _attr(n.targets[0], "circumcircle")]
    expect(len(a) == 1 and isinstance(a[0].value, ast.Tuple), "CircularRegion: circumcircle assignment")
    c, r = a[0].value.elts
    out["circle"] = "radius" if _self_attr(c, "center") and _self_attr(r, "radius") else "other"
    init = get_def(tree, "RectangularRegion.__init__", REL)
    a = [n for n in ast.walk(init) if isinstance(n, ast.Assign) and _attr(n.targets[0], "circumcircle")]
    expect(len(a) == 1 and isinstance(a[0].value, ast.Tuple), "RectangularRegion: circumcircle assignment")
    c, r = a[0].value.elts
    rad = [n for n in ast.walk(init) if isinstance(n, ast.Assign) and _self_attr(n.targets[0], "radius")]
    halves = {}
    for n in ast.walk(init):
        if isinstance(n, ast.Assign) and len(n.targets) == 2 and isinstance(n.targets[1], ast.Name) and isinstance(n.value, ast.BinOp) \
                and isinstance(n.value.op, ast.Div) and isinstance(n.value.left, ast.Name) and _num(n.value.right) == 2:
            halves[n.targets[1].id] = n.value.left.id
    ok = (_self_attr(c, "position") and _self_attr(r, "radius") and len(rad) == 1 and isinstance(rad[0].value, ast.Call)
          and is_name(rad[0].value.func, "hypot") and len(rad[0].value.args) == 2
          and sorted(halves.get(getattr(x, "id", None), "?") for x in rad[0].value.args) == ["length", "width"])
    out["rect"] = "hypotHalves" if ok else "other"
    fn = get_def(tree, "MeshRegion.circumcircle", REL)
    asg = _assigns(fn)
    ok = False
    try:
        cp, he, cr = asg["center_point"], asg["half_extents"], asg["circumradius"]
        ok = (isinstance(he, ast.ListComp) and isinstance(he.elt, ast.BinOp) and isinstance(he.elt.op, ast.Div) and _num(he.elt.right) == 2
              and _attr(he.generators[0].iter, "extents")
              and isinstance(cr, ast.Call) and is_name(cr.func, "hypot") and isinstance(cr.args[0], ast.Starred) and is_name(cr.args[0].value, "half_extents")
              and any(_attr(n, "center_mass") and _attr(n.value, "bounding_box") for n in ast.walk(cp)))
        ret = body_nodoc(fn)[-1].value
        ok = ok and isinstance(ret, ast.Tuple) and is_name(ret.elts[0], "center_point") and is_name(ret.elts[1], "circumradius")
    except KeyError:
        ok = False
    out["mesh"] = "hypotHalves" if ok else "other"
    return out


# ------------------------------------------------------------------------------------------ z of the planar samplers
def _z_kind(fn, cls):
    """classify the third argument of the Vector(...) the sampler returns"""
    calls = [n for n in _walk(fn, ast.Call) if isinstance(n.func, ast.Name) and n.func.id in ("Vector", "OrientedVector")]
    expect(calls, f"{cls}.uniformPointInner: no Vector(...)")
    kinds = set()
    asg_tuple = {}
    for n in ast.walk(fn):
        if isinstance(n, ast.Assign) and isinstance(n.targets[0], ast.Tuple) and _self_attr(n.value, "center") \
                and len(n.targets[0].elts) == 3 and isinstance(n.targets[0].elts[2], ast.Name):
            asg_tuple[n.targets[0].elts[2].id] = "center.z"
    for c in calls:
        expect(len(c.args) >= 3, f"{cls}: Vector with 3 coordinates")
        z = c.args[2]
        if isinstance(z, ast.Constant) and z.value == 0 and not isinstance(z.value, bool):
            kinds.add("zero")
        elif _self_attr(z, "z"):
            kinds.add("regionZ")
        elif isinstance(z, ast.Name) and asg_tuple.get(z.id) == "center.z":
            kinds.add("regionZ")
        else:
            kinds.add("other")
    expect(len(kinds) == 1, f"{cls}: the returned vectors disagree on z")
    return kinds.pop()


def _z_table(tree):
    out = {}
    # rectangle: self.position.offsetRotated(self.heading, Vector(rx, ry, 0)) -> z of position + 0
    fn = get_def(tree, "RectangularRegion.uniformPointInner", REL)
    k = _z_kind(fn, "RectangularRegion")
    off = [n for n in _walk(fn, ast.Call) if _attr(n.func, "offsetRotated")]
    expect(len(off) == 1 and _self_attr(off[0].func.value, "position") and _self_attr(off[0].args[0], "heading"),
           "RectangularRegion: self.position.offsetRotated(self.heading, ...)")
    out["rect"] = "regionZ" if k == "zero" else "other"
    out["circle"] = _z_kind(get_def(tree, "CircularRegion.uniformPointInner", REL), "CircularRegion")
    out["sector"] = _z_kind(get_def(tree, "SectorRegion.uniformPointInner", REL), "SectorRegion")
    out["polygon"] = _z_kind(get_def(tree, "PolygonalRegion.uniformPointInner", REL), "PolygonalRegion")
    out["polyline"] = _z_kind(get_def(tree, "PolylineRegion.uniformPointInner", REL), "PolylineRegion")
    return out



# ------------------------------------------------------------------------------------------ polygon sampler, membership tests
def _polygon_sampler(tree):
    """PolygonalRegion.uniformPointInner: triangle by cumulative area, bounding-box loop on the triangle, and
    (repaired shape) an outer loop that discards candidates outside self.polygons"""
    fn = get_def(tree, "PolygonalRegion.uniformPointInner", REL)
    body = body_nodoc(fn)
    expect(len(body) >= 2 and isinstance(body[0], ast.Assign) and _self_attr(body[0].value, "_samplingData")
           and isinstance(body[0].targets[0], ast.Tuple) and len(body[0].targets[0].elts) == 2,
           "polygon sampler: trisAndBounds, cumulativeAreas = self._samplingData")
    tb, cum = [e.id for e in body[0].targets[0].elts]
    ch = [n for n in _walk(fn, ast.Call) if _attr(n.func, "choices")]
    expect(len(ch) == 1 and is_name(ch[0].args[0], tb) and [k.arg for k in ch[0].keywords] == ["cum_weights"]
           and is_name(ch[0].keywords[0].value, cum), "polygon sampler: random.choices(trisAndBounds, cum_weights=cumulativeAreas)")
    whiles = _walk(fn, ast.While)
    expect(all(isinstance(w.test, ast.Constant) and w.test.value is True for w in whiles), "polygon sampler: while True loops")
    tests = [n for n in _walk(fn, ast.If) if _call_attr(n.test, "intersects_xy")]

    def arg0(t):
        return t.test.args[0]
    tri_tests = [t for t in tests if isinstance(arg0(t), ast.Name)]
    poly_tests = [t for t in tests if _self_attr(arg0(t), "polygons")]
    expect(len(tri_tests) == 1 and len(tri_tests) + len(poly_tests) == len(tests), "polygon sampler: intersects_xy tests")
    rets = _walk(fn, ast.Return)
    expect(len(rets) == 1, "polygon sampler: one return")
    if len(whiles) == 1 and not poly_tests:
        # old shape: choose once, loop until inside the triangle, return
        expect(isinstance(body[-1], ast.While) and isinstance(tri_tests[0].body[0], ast.Return) and not tri_tests[0].orelse,
               "polygon sampler: return from the triangle test")
        return False
    expect(len(body) == 2 and len(whiles) == 2 and len(poly_tests) == 1 and isinstance(body[1], ast.While),
           "polygon sampler: outer loop + polygon guard")
    outer = body[1]
    inner = [n for n in outer.body if isinstance(n, ast.While)]
    expect(len(inner) == 1 and any(ch[0] in ast.walk(n) for n in outer.body if n is not inner[0]),
           "polygon sampler: the triangle is drawn inside the outer loop")
    expect(tri_tests[0] in inner[0].body and isinstance(tri_tests[0].body[0], ast.Break) and not tri_tests[0].orelse,
           "polygon sampler: inner loop breaks on a point of the triangle")
    pt = poly_tests[0]
    expect(pt in outer.body and outer.body.index(pt) > outer.body.index(inner[0]) and isinstance(pt.body[0], ast.Return)
           and not pt.orelse, "polygon sampler: if intersects_xy(self.polygons, x, y): return")
    # same coordinates in both tests
    expect([ast.dump(a) for a in pt.test.args[1:]] == [ast.dump(a) for a in tri_tests[0].test.args[1:]],
           "polygon sampler: both tests look at the same candidate")
    return True


def _membership(tree):
    out = {}
    # GridRegion._trueContainsPoint
    cls = get_def(tree, "GridRegion", REL)
    expect([b.id for b in cls.bases if isinstance(b, ast.Name)] == ["PointSetRegion"], "GridRegion(PointSetRegion)")
    m = [n for n in cls.body if isinstance(n, ast.FunctionDef) and n.name == "_trueContainsPoint"]
    if not m:
        out["grid"] = "cell"     # inherits Region._trueContainsPoint = self.containsPoint (cell based)
    else:
        b = body_nodoc(m[0])
        arg = m[0].args.args[1].arg if len(m[0].args.args) == 2 else None
        ok = (len(b) == 1 and isinstance(b[0], ast.Return) and _call_attr(b[0].value, "containsPoint")
              and is_name(b[0].value.func.value, "PointSetRegion") and len(b[0].value.args) == 2
              and is_name(b[0].value.args[0], "self") and is_name(b[0].value.args[1], arg))
        cellish = (len(b) == 1 and isinstance(b[0], ast.Return) and _call_attr(b[0].value, "containsPoint")
                   and is_name(b[0].value.func.value, "self"))
        out["grid"] = "pointSet" if ok else "cell" if cellish else "other"
    # PointSetRegion.containsPoint must be the k-d tree distance test with the tolerance
    fn = get_def(tree, "PointSetRegion.containsPoint", REL)
    b = body_nodoc(fn)
    ok = (len(b) == 3 and isinstance(b[2], ast.Return) and isinstance(b[2].value, ast.Compare) and isinstance(b[2].value.ops[0], ast.LtE)
          and _self_attr(b[2].value.comparators[0], "tolerance") and any(_attr(getattr(c, "func", None), "query") for c in ast.walk(b[1])))
    if not ok and out["grid"] == "pointSet":
        out["grid"] = "other"
    # PolygonalRegion._trueContainsPoint
    cls = get_def(tree, "PolygonalRegion", REL)
    m = [n for n in cls.body if isinstance(n, ast.FunctionDef) and n.name == "_trueContainsPoint"]
    if not m:
        out["polygon"] = "footprintOnly"
    else:
        b = body_nodoc(m[0])
        arg = m[0].args.args[1].arg
        kind = "other"
        if len(b) == 1 and isinstance(b[0], ast.Return):
            v = b[0].value

            def is_cp(n):
                return _call_attr(n, "containsPoint") and is_name(n.func.value, "self") and len(n.args) == 1 and is_name(n.args[0], arg)

            def is_zeq(n):
                return (isinstance(n, ast.Compare) and len(n.ops) == 1 and isinstance(n.ops[0], ast.Eq)
                        and {ast.dump(n.left), ast.dump(n.comparators[0])}
                        == {ast.dump(ast.parse(f"{arg}.z", mode="eval").body), ast.dump(ast.parse("self.z", mode="eval").body)})
            if is_cp(v):
                kind = "footprintOnly"
            elif isinstance(v, ast.BoolOp) and isinstance(v.op, ast.And) and len(v.values) == 2 \
                    and ((is_zeq(v.values[0]) and is_cp(v.values[1])) or (is_zeq(v.values[1]) and is_cp(v.values[0]))):
                kind = "zAndFootprint"
        out["polygon"] = kind
    # PolylineRegion.containsPoint
    fn = get_def(tree, "PolylineRegion.containsPoint", REL)
    b = body_nodoc(fn)
    kind = "other"
    if len(b) == 3 and isinstance(b[1], ast.If) and isinstance(b[2], ast.Return):
        t = b[1].test
        zguard = (isinstance(t, ast.Compare) and isinstance(t.ops[0], ast.NotEq) and _attr(t.left, "z")
                  and isinstance(t.comparators[0], ast.Constant) and t.comparators[0].value == 0
                  and isinstance(b[1].body[0], ast.Return) and isinstance(b[1].body[0].value, ast.Constant)
                  and b[1].body[0].value.value is False and not b[1].orelse)
        v = b[2].value
        if zguard and isinstance(v, ast.Compare) and len(v.ops) == 1 and isinstance(v.ops[0], (ast.LtE, ast.Lt)) \
                and _call_attr(v.left, "distance") and _self_attr(v.left.func.value, "lineString") and _self_attr(v.comparators[0], "tolerance"):
            kind = "withinTolerance"
        elif zguard and isinstance(v, ast.Call) and (_attr(v.func, "intersects_xy") or _attr(v.func, "intersects")) \
                and any(_self_attr(n, "lineString") for n in ast.walk(v)):
            kind = "exactIntersects"
    out["polyline"] = kind
    return out


def _composed(tree):
    """`_trueContainsPoint` of the three composed region classes: absent (inherits Region._trueContainsPoint = containsPoint,
    the footprint test) | structural over the operands' `_trueContainsPoint`"""
    out = {}

    def tcp_call(n, obj_test, arg):
        return (_call_attr(n, "_trueContainsPoint") and obj_test(n.func.value) and len(n.args) == 1 and not n.keywords
                and is_name(n.args[0], arg))
    for key, cname, agg in (("interTrue", "IntersectionRegion", "all"), ("unionTrue", "UnionRegion", "any"), ("diffTrue", "DifferenceRegion", None)):
        cls = get_def(tree, cname, REL)
        m = [n for n in cls.body if isinstance(n, ast.FunctionDef) and n.name == "_trueContainsPoint"]
        if not m:
            out[key] = "inherited"
            continue
        expect(len(m) == 1 and len(m[0].args.args) == 2, f"{cname}._trueContainsPoint(self, point)")
        arg = m[0].args.args[1].arg
        b = body_nodoc(m[0])
        expect(len(b) == 1 and isinstance(b[0], ast.Return), f"{cname}._trueContainsPoint: a single return")
        v = b[0].value
        if agg is not None:
            expect(isinstance(v, ast.Call) and is_name(v.func, agg) and len(v.args) == 1 and isinstance(v.args[0], ast.GeneratorExp),
                   f"{cname}._trueContainsPoint: {agg}(... for region in self.regions)")
            g = v.args[0]
            expect(len(g.generators) == 1 and not g.generators[0].ifs and isinstance(g.generators[0].target, ast.Name)
                   and _self_attr(g.generators[0].iter, "regions"), f"{cname}._trueContainsPoint: ranges over self.regions")
            var = g.generators[0].target.id
            expect(tcp_call(g.elt, lambda o: is_name(o, var), arg), f"{cname}._trueContainsPoint: region._trueContainsPoint(point)")
        else:
            expect(isinstance(v, ast.BoolOp) and isinstance(v.op, ast.And) and len(v.values) == 2
                   and tcp_call(v.values[0], lambda o: _self_attr(o, "regionA"), arg)
                   and isinstance(v.values[1], ast.UnaryOp) and isinstance(v.values[1].op, ast.Not)
                   and tcp_call(v.values[1].operand, lambda o: _self_attr(o, "regionB"), arg),
                   f"{cname}._trueContainsPoint: regionA._trueContainsPoint(p) and not regionB._trueContainsPoint(p)")
        out[key] = "structural"
    return out


def extract():
    src, tree = load(REL)
    d = {}
    d.update(_intersection(tree))
    d.update(_union(tree))
    d.update(_difference(tree))
    d.update(_composed(tree))
    d.update(_pointset(tree))
    d["sector"] = _sector_circ(tree)
    d["circ"] = _circ_table(tree)
    d["z"] = _z_table(tree)
    d["polygonOuterFilter"] = _polygon_sampler(tree)
    d["membership"] = _membership(tree)
    return d


def _rat(q):
    q = Fraction(q)
    s = f"{q.numerator}/{q.denominator}" if q.denominator != 1 else f"{q.numerator}"
    return f"({s})" if q < 0 else s


def to_lean(d):
    b = lambda x: "true" if x else "false"
    s, c, z, m = d["sector"], d["circ"], d["z"], d["membership"]
    return f"""import ScenicModel.Model.RegionSampling
namespace Scenic.Gen
open Scenic.RegionSampling
/-- shapes of the generic samplers in src/scenic/core/regions.py -/
def samplerCfg : SamplerCfg :=
  {{ interDimOp := .{d['interDimOp']}, interChecksAll := {b(d['interChecksAll'])}, unionDimOp := .{d['unionDimOp']}, unionWeight := .{d['unionWeight']},
    unionCount := .{d['unionCount']}, unionAccept := .{d['unionAccept']}, unionSelf := .{d['unionSelf']}, diffRejectsInB := {b(d['diffRejectsInB'])},
    interTrue := .{d['interTrue']}, unionTrue := .{d['unionTrue']}, diffTrue := .{d['diffTrue']} }}
/-- the membership test of the sampler installed by PointSetRegion.intersect -/
def ballFilter : BallFilter := .{d['ballFilter']}
/-- what that sampler does when the other region has no `circumcircle` -/
def ballFallback : BallFallback := .{d['ballFallback']}
/-- SectorRegion._makeCircumcircle -/
def sectorCircCfg : SectorCircCfg := {{ thr := {_rat(s['thr'])}, k := {_rat(s['k'])}, op := .{s['op']} }}
/-- circumcircle radius of CircularRegion / RectangularRegion / MeshRegion -/
def circTable : CircTable := {{ circle := .{c['circle']}, rect := .{c['rect']}, mesh := .{c['mesh']} }}
/-- z written by each planar uniformPointInner -/
def zTable : ZTable :=
  {{ rect := .{z['rect']}, circle := .{z['circle']}, sector := .{z['sector']}, polygon := .{z['polygon']}, polyline := .{z['polyline']} }}
/-- PolygonalRegion.uniformPointInner discards candidates that lie outside self.polygons (overshooting triangulation) -/
def polygonOuterFilter : Bool := {b(d['polygonOuterFilter'])}
/-- the `_trueContainsPoint` of GridRegion / PolygonalRegion and the containsPoint of PolylineRegion -/
def membership : MembershipTable := {{ grid := .{m['grid']}, polygon := .{m['polygon']}, polyline := .{m['polyline']} }}
end Scenic.Gen
"""
