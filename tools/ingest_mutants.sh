#!/bin/bash
# Developer tool: copy the changes written by an independent adversary agent (/tmp/mut-Cxx-out/{1,2}) into seeded/,
# confirm the demonstration (PASS on the unchanged tree, FAIL on the changed tree) and run the property's quick check
# against the changed tree in a scratch worktree.   tools/ingest_mutants.sh C06 [C08 ...]
HERE="$(cd "$(dirname "${BASH_SOURCE[0]}")/.." && pwd)"
cd "$HERE"
for P in "$@"; do
  for i in 1 2; do
    src=/tmp/mut-$P-out/$i
    [ -f "$src/patch.diff" ] && [ -f "$src/meta.json" ] || { echo "$P-$i: incomplete ($src)"; continue; }
    dst=seeded/$P-$i
    mkdir -p "$dst"
    cp "$src/patch.diff" "$src/meta.json" "$dst/"
    cp "$src"/demo*.py "$dst/" 2>/dev/null
    cp "$src"/*.scenic "$dst/" 2>/dev/null
    python3 tools/run_seeded.py "$dst" --worktree --demo --record --no-restore > /tmp/ingest-$P-$i.log 2>&1
    echo "$P-$i: $(tail -1 /tmp/ingest-$P-$i.log)"
    python3 - "$dst" <<'PY'
import json,sys,os
d=sys.argv[1]; sid=os.path.basename(d)
r=json.load(open('seeded/RESULTS.json')).get(sid,{})
print("     demo unchanged:", (r.get('demo_unchanged') or ['?'])[0], " demo changed:", (r.get('demo_changed') or ['?'])[0])
PY
  done
  # restore Gen/ and evidence of this property to /repo's
  ./check $P --tier quick > /tmp/ingest-$P-restore.log 2>&1; echo "$P restore: $(tail -1 /tmp/ingest-$P-restore.log | cut -c1-120)"
done
