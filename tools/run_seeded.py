#!/usr/bin/env python3
"""Run the check of the property a seeded change breaks, against /repo with the change applied, then undo it.

  tools/run_seeded.py seeded/<id> [--tier quick|thorough]   (exit 0 = the check reported a VIOLATION, i.e. caught it)

The change is applied with `git -C /repo apply` and undone with `git -C /repo checkout -- .` straight afterwards;
nothing is ever committed to /repo.  If src/scenic/syntax/scenic.gram is touched, the (git-ignored) generated
parser.py is left alone: checks that depend on the grammar regenerate the parser into a scratch directory themselves.
"""
import json
import os
import subprocess
import sys

ROOT = os.path.dirname(os.path.dirname(os.path.abspath(__file__)))


def main():
    d = os.path.abspath(sys.argv[1])
    tier = sys.argv[sys.argv.index("--tier") + 1] if "--tier" in sys.argv else "quick"
    meta = json.load(open(os.path.join(d, "meta.json")))
    props = meta["property"] if isinstance(meta["property"], list) else [meta["property"]]
    patch = os.path.join(d, "patch.diff")
    st = subprocess.run(["git", "-C", "/repo", "status", "--porcelain", "--untracked-files=no"], capture_output=True, text=True)
    if st.stdout.strip():
        print("refusing: /repo has uncommitted changes:\n" + st.stdout)
        return 2
    subprocess.run(["git", "-C", "/repo", "apply", "--check", patch], check=True)
    subprocess.run(["git", "-C", "/repo", "apply", patch], check=True)
    caught = {}
    try:
        for p in props:
            r = subprocess.run([os.path.join(ROOT, "check"), p, "--tier", tier], capture_output=True, text=True, cwd=ROOT)
            lines = [l for l in r.stdout.splitlines() if l.startswith(("VIOLATION", "KNOWN-FINDING", "OK ", "INFRA", "  violation detail"))]
            caught[p] = (r.returncode, lines)
            print(f"== {os.path.basename(d)} vs {p}: exit {r.returncode}")
            for l in lines[:8]:
                print("   ", l[:300])
    finally:
        subprocess.run(["git", "-C", "/repo", "checkout", "--", "."], check=True)
        # restore generated Lean data / evidence to the unchanged tree's
        for p in props:
            subprocess.run([os.path.join(ROOT, "check"), p, "--tier", "quick"], capture_output=True, text=True, cwd=ROOT)
    ok = any(rc == 1 for rc, _ in caught.values())
    print("CAUGHT" if ok else "MISSED")
    return 0 if ok else 1


if __name__ == "__main__":
    sys.exit(main())
