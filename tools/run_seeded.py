#!/usr/bin/env python3
"""Run the check(s) of the property a seeded change breaks against the tree with the change applied, then undo it.

  tools/run_seeded.py seeded/<id> [--tier quick|thorough] [--worktree] [--demo] [--props C01,C05] [--record] [--no-restore]

default     : the change is applied to /repo itself (`git -C /repo apply`) and undone straight afterwards
              (`git -C /repo checkout -- .`); nothing is ever committed to /repo.
--worktree  : the change is applied in a scratch worktree under /tmp (removed afterwards) and the checks run with
              SCENIC_REPO pointing at it (use this while other work needs /repo unchanged).
--demo      : first run the change's own demonstration on the unchanged and on the changed tree (expects PASS / FAIL).
--record    : write the outcome to seeded/RESULTS.json (used by tools/mkdesign.py).
exit 0 = at least one check reported a VIOLATION (the change was caught), 1 = missed, 2 = could not run.

Afterwards every check that ran is run once more on the unchanged tree, which restores lean/ScenicModel/Gen/* and the
evidence files to /repo's.  src/scenic/syntax/parser.py (git-ignored) is rebuilt by the checks themselves whenever it is
older than scenic.gram.
"""
import json
import os
import shutil
import subprocess
import sys
import time

ROOT = os.path.dirname(os.path.dirname(os.path.abspath(__file__)))
KEEP = ("VIOLATION", "KNOWN-FINDING", "OK ", "INFRA", "  violation detail")


def sh(*a, **k):
    return subprocess.run(list(a), capture_output=True, text=True, **k)


def run_demo(d, meta, tree):
    demo = os.path.join(d, meta.get("demo", "demo.py"))
    if not os.path.exists(demo):
        return None
    env = dict(os.environ, PYTHONPATH=os.path.join(tree, "src"), PYTHONDONTWRITEBYTECODE="1")
    r = sh("/venv/bin/python", demo, env=env, cwd=d, timeout=1800)
    return r.returncode, (r.stdout + r.stderr)[-400:]


def main():
    args = sys.argv[1:]
    d = os.path.abspath(args[0])
    sid = os.path.basename(d)
    tier = args[args.index("--tier") + 1] if "--tier" in args else "quick"
    meta = json.load(open(os.path.join(d, "meta.json")))
    props = meta["property"] if isinstance(meta["property"], list) else [meta["property"]]
    if "--props" in args:
        props = args[args.index("--props") + 1].split(",")
    patch = os.path.join(d, "patch.diff")
    use_wt = "--worktree" in args
    tree = "/repo"
    if use_wt:
        tree = f"/tmp/seeded-wt-{sid}"
        sh("git", "-C", "/repo", "worktree", "remove", "--force", tree)
        r = sh("git", "-C", "/repo", "worktree", "add", "--detach", tree, "HEAD")
        if r.returncode != 0:
            print("cannot create worktree:", r.stderr)
            return 2
    else:
        st = sh("git", "-C", "/repo", "status", "--porcelain", "--untracked-files=no")
        if st.stdout.strip():
            print("refusing: /repo has uncommitted changes:\n" + st.stdout)
            return 2
    out = {"tier": tier, "checks": {}, "when": time.strftime("%Y-%m-%d %H:%M")}
    try:
        if "--demo" in args:
            out["demo_unchanged"] = run_demo(d, meta, tree)
        r = sh("git", "-C", tree, "apply", "--check", patch)
        if r.returncode != 0:
            print("patch does not apply:", r.stderr)
            return 2
        sh("git", "-C", tree, "apply", patch)
        gram = os.path.join(tree, "src/scenic/syntax/scenic.gram")
        if os.path.exists(gram):
            os.utime(gram) if "scenic.gram" in open(patch).read() else None
        if "--demo" in args:
            pp = os.path.join(tree, "src/scenic/syntax/parser.py")
            if "scenic.gram" in open(patch).read() and os.path.exists(pp):
                os.remove(pp)
            out["demo_changed"] = run_demo(d, meta, tree)
        env = dict(os.environ, SCENIC_REPO=tree)
        for p in props:
            t0 = time.time()
            r = sh(os.path.join(ROOT, "check"), p, "--tier", tier, cwd=ROOT, env=env)
            lines = [l for l in r.stdout.splitlines() if l.startswith(KEEP)]
            viol = [l for l in lines if l.startswith("VIOLATION")]
            out["checks"][p] = {"exit": r.returncode, "wall_s": round(time.time() - t0),
                                "violations": viol[:4],
                                "detail": [l[:400] for l in lines if l.startswith("  violation detail")][:3],
                                "concrete_input": any("no-failing-input-found" not in v for v in viol)}
            print(f"== {sid} vs {p}: exit {r.returncode}")
            for l in lines[:8]:
                print("   ", l[:300])
    finally:
        if use_wt:
            sh("git", "-C", "/repo", "worktree", "remove", "--force", tree)
            shutil.rmtree(tree, ignore_errors=True)
        else:
            sh("git", "-C", "/repo", "checkout", "--", ".")
            gram = "/repo/src/scenic/syntax/scenic.gram"
            if "scenic.gram" in open(patch).read():
                os.utime(gram)
        env = dict(os.environ, SCENIC_REPO="/repo")
        if "--no-restore" not in args:
            for p in out["checks"]:
                sh(os.path.join(ROOT, "check"), p, "--tier", "quick", cwd=ROOT, env=env)
    caught = [p for p, c in out["checks"].items() if c["exit"] == 1]
    out["caught"] = bool(caught)
    parts = []
    for p, c in out["checks"].items():
        if c["exit"] == 1:
            parts.append(f"{p}: VIOLATION ({'concrete failing input' if c['concrete_input'] else 'no-failing-input-found'})")
        else:
            parts.append(f"{p}: not caught (exit {c['exit']})")
    out["summary"] = "; ".join(parts)
    if "--record" in args:
        import fcntl
        path = os.path.join(ROOT, "seeded", "RESULTS.json")
        with open(path + ".lock", "w") as lk:
            fcntl.flock(lk, fcntl.LOCK_EX)
            res = json.load(open(path)) if os.path.exists(path) else {}
            res[sid] = out
            json.dump(res, open(path, "w"), indent=1, sort_keys=True)
    print("CAUGHT" if caught else "MISSED", "-", out["summary"])
    return 0 if caught else 1


if __name__ == "__main__":
    sys.exit(main())
